import sys, os, argparse, signal


def main():
    ap = argparse.ArgumentParser()
    ap.add_argument('pid')
    ap.add_argument('--tier', default=os.environ.get('VERIF_TIER', 'quick'))
    ap.add_argument('--replay', default=None)
    a = ap.parse_args()
    seed = int(os.environ.get('VERIF_SEED', '0') or 0)
    from . import engine
    try:
        rc = engine.run_check(a.pid.upper(), a.tier, seed, a.replay)
    except KeyboardInterrupt:
        rc = 2
    except Exception:
        import traceback
        traceback.print_exc()
        rc = 2
    sys.stdout.flush()
    sys.exit(rc)


if __name__ == '__main__':
    main()
