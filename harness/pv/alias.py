"""Aliasing probe shared by the property runners ("operations that return a new value never alter their operands" has a
delayed form that a snapshot around the call cannot see: the result IS an operand, a view of it, a shallow copy sharing its
inner lists, or an object memoised inside the library - nothing is wrong until somebody edits the result LATER).

    reply, problem = twice(call, enc, operands_snapshot)

runs `call()` (the implementation call of one protocol line, on operands that were decoded once), encodes the result, then
scribbles over every mutable part of the result in place and runs `call()` again on the same operand objects: the second
encoding must equal the first and the operands' snapshot must be unchanged.  `problem` is None or a sentence naming what leaked.
Seeded changes C02-u2 (xor returns a copy sharing the operand's column lists), C03-u1 (the aligned result is the operand itself),
C10-u1 (a memoised list handed to the caller) are of this kind.
"""
import numpy as np
import pandas as pd

SCRIBBLE = '~scribbled~'


def scribble(x, depth=6, seen=None):
    """edit in place every mutable container / array / pandas object reachable from x (best effort, never raises)"""
    seen = set() if seen is None else seen
    if depth < 0 or id(x) in seen:
        return
    seen.add(id(x))
    try:
        if isinstance(x, list):
            for v in list(x):
                scribble(v, depth - 1, seen)
            if len(x):
                list.__setitem__(x, 0, SCRIBBLE)
            list.append(x, SCRIBBLE)
        elif isinstance(x, dict):
            for v in list(dict.values(x)):
                scribble(v, depth - 1, seen)
            for k in list(dict.keys(x))[:1]:
                dict.__setitem__(x, k, SCRIBBLE)
            dict.__setitem__(x, SCRIBBLE, SCRIBBLE)
        elif isinstance(x, tuple):
            for v in x:
                scribble(v, depth - 1, seen)
        elif isinstance(x, np.ndarray):
            if x.dtype == object:
                for v in x.flat:
                    scribble(v, depth - 1, seen)
            if x.flags.writeable and x.size:
                if x.dtype.kind == 'f':
                    x[...] = -12345.5
                elif x.dtype.kind in 'iu':
                    x[...] = 54321
                elif x.dtype.kind == 'b':
                    x[...] = ~x
                elif x.dtype == object:
                    x[...] = SCRIBBLE
        elif isinstance(x, pd.DataFrame):
            if x.size:
                x.iloc[:, :] = -12345.5 if all(k in 'fiu' for k in [d.kind for d in x.dtypes]) else SCRIBBLE
        elif isinstance(x, pd.Series):
            if x.size:
                x.iloc[:] = -12345.5 if x.dtype.kind in 'fiu' else SCRIBBLE
        elif isinstance(x, set):
            x.add(SCRIBBLE)
    except Exception:
        pass


def twice(call, enc, snapshot, operand_clause):
    """see the module docstring; exceptions of the FIRST call propagate (the runner maps them to `err Kind`).
    `snapshot()` must capture the operands completely; `operand_clause` says whether the property's text promises that operands
    stay as they were / that the result is a new object (only then is a result that shares state with an OPERAND reported; a
    result that changes the library's later answers is always reported: the statement is about the function's value)"""
    before = snapshot()
    r1 = call()
    e1 = enc(r1)
    if snapshot() != before:
        return e1, None            # an immediate change of an operand is the runner's own (earlier, more specific) report
    scribble(r1)
    if snapshot() != before:
        return e1, ('an in-place edit of the RESULT changed an operand: the result shares mutable state with it (it is the operand, '
                    'a view or a shallow copy of it)') if operand_clause else None
    try:
        e2 = enc(call())
    except Exception as e:
        return e1, 'after an in-place edit of the first result the same call on the same (unchanged) operands raised %s' % type(e).__name__
    if e2 != e1:
        return e1, ('after an in-place edit of the first result the same call on the same (unchanged) operands returns something else: the '
                    'library handed out state it keeps (first %s, then %s)' % (str(e1)[:120], str(e2)[:120]))
    return e1, None
