"""(G) tie: python `ast` -> Lean definitions over Int for the integer kernels of src/pyg_base/_dates.py.

`regenerate(repo_dir, lean_dir)` re-reads the CURRENT source text and rewrites lean/PygGen/*.lean (only when the
content changes, so lake's cache stays valid).  The theorems of C04 / C09 are stated about these generated
definitions, so `lake build` re-checks them against what the code says now.

Fragment (anything else is reported as a broken 'translation' obligation, never guessed):
  expressions  integer literals, names, + - * unary -, `//` and `%` by a positive literal (Lean's Int `/`, `%`
               are Euclidean and coincide with Python's floor semantics there), comparisons (chains), and/or/not
  statements   assignment, augmented assignment, tuple swap, `y, m = ym(y, m)`, if / elif / else, return
  symbols      DAY multiples (`E * DAY`) are days; `t.weekday()` at the top of the business-day block is the
               parameter `wday`; `int(bmp[:-1])` is the parameter `n`; float->int coercions and `month(m)`
               are the identity on integers (glue, recognised verbatim and skipped)
Generated modules:
  PygGen.Ym       ym, ymdSwap (the day/year swap guard of _ymd), ymd (normalised month + day offset)
  PygGen.Num2dt   num2dt : Int -> NumKind (threshold table)
  PygGen.BDay     bOff wday n : Int (closed-form business-day block of dt_bump, offset in days); bOffPath wday n : List Int
                  (the offset after each update of t inside the block, for the intermediate OverflowErrors)
  PygGen.Tables   bumpUnit (unit letter -> Step), periodUnits, namedTenors, wkdays, months, regex sources
  PygGen.Np2dt    np2dt : NpRes -> NpAct (the isinstance chain of np2dt: which class of `t.astype(datetime.datetime)` gets which
                  treatment, first matching branch wins).  The numpy conversion itself is library behaviour (hand-modelled,
                  PygModel/NpDate.lean); the function body is NOT integer arithmetic, only its dispatch is translated.
  PygGen.DuMonths duMonths : the month-name table `dateutil.parser.parserinfo.MONTHS` (lower-cased, as `parserinfo._convert` does),
                  read from the dateutil that the implementation imports (library table, lifted so that the month-name theorems
                  quantify over the names dateutil really knows)
"""
import ast, os, re

MODULES = ['PygGen.Ym', 'PygGen.Num2dt', 'PygGen.BDay', 'PygGen.Tables', 'PygGen.Np2dt', 'PygGen.DuMonths']


class Unsupported(Exception):
    def __init__(self, msg, node=None):
        line = getattr(node, 'lineno', None)
        Exception.__init__(self, msg + (' (line %s: %s)' % (line, ast.unparse(node)[:80]) if node is not None else ''))


def src_of(node):
    return ast.unparse(node)


def same(node, text):
    """is `node` exactly the python fragment `text` (compared as ASTs)"""
    try:
        want = ast.parse(text).body[0]
        if isinstance(want, ast.Expr) and not isinstance(node, ast.Expr):
            want = want.value
        return _dump(node) == _dump(want)
    except SyntaxError:
        return False


def _dump(node):
    return ast.dump(node).replace('ctx=Store()', 'ctx=Load()')


# ---------------------------------------------------------------------------------------------- expressions

class Env(object):
    """python variable -> current Lean name; assignments create fresh Lean names (SSA)"""

    def __init__(self, names, special=None, counter=None):
        self.map = dict((n, n) for n in names)
        self.special = special or (lambda node, env: None)
        self.counter = counter if counter is not None else {}

    def copy(self):
        e = Env([], self.special, self.counter)
        e.map = dict(self.map)
        return e

    def fresh(self, var):
        k = self.counter.get(var, 0) + 1
        self.counter[var] = k
        name = '%s_%d' % (var, k)
        self.map[var] = name
        return name


def int_expr(node, env):
    sp = env.special(node, env)
    if sp is not None:
        return sp
    if isinstance(node, ast.Constant) and isinstance(node.value, int) and not isinstance(node.value, bool):
        return str(node.value) if node.value >= 0 else '(%d)' % node.value
    if isinstance(node, ast.Name):
        if node.id not in env.map:
            raise Unsupported('unknown name %s' % node.id, node)
        return env.map[node.id]
    if isinstance(node, ast.UnaryOp) and isinstance(node.op, ast.USub):
        return '(-%s)' % int_expr(node.operand, env)
    if isinstance(node, ast.BinOp):
        a = int_expr(node.left, env)
        if isinstance(node.op, (ast.FloorDiv, ast.Mod)):
            r = node.right
            if not (isinstance(r, ast.Constant) and isinstance(r.value, int) and r.value > 0):
                raise Unsupported('// and % are only translated for a positive literal divisor', node)
            return '(%s %s %d)' % (a, '/' if isinstance(node.op, ast.FloorDiv) else '%', r.value)
        b = int_expr(node.right, env)
        if isinstance(node.op, ast.Add):
            return '(%s + %s)' % (a, b)
        if isinstance(node.op, ast.Sub):
            return '(%s - %s)' % (a, b)
        if isinstance(node.op, ast.Mult):
            return '(%s * %s)' % (a, b)
    raise Unsupported('expression outside the integer fragment', node)


CMP = {ast.Lt: '<', ast.LtE: '≤', ast.Gt: '>', ast.GtE: '≥', ast.Eq: '=', ast.NotEq: '≠'}


def bool_expr(node, env):
    if isinstance(node, ast.BoolOp):
        op = ' ∧ ' if isinstance(node.op, ast.And) else ' ∨ '
        return '(' + op.join(bool_expr(v, env) for v in node.values) + ')'
    if isinstance(node, ast.UnaryOp) and isinstance(node.op, ast.Not):
        return '(¬ %s)' % bool_expr(node.operand, env)
    if isinstance(node, ast.Compare):
        parts, left = [], node.left
        for op, right in zip(node.ops, node.comparators):
            if type(op) not in CMP:
                raise Unsupported('comparison operator', node)
            parts.append('%s %s %s' % (int_expr(left, env), CMP[type(op)], int_expr(right, env)))
            left = right
        return parts[0] if len(parts) == 1 else '(' + ' ∧ '.join(parts) + ')'
    raise Unsupported('condition outside the fragment', node)


# ---------------------------------------------------------------------------------------------- statements

def assigned(stmts):
    out = []
    for s in stmts:
        if isinstance(s, ast.Assign):
            for t in s.targets:
                for n in (t.elts if isinstance(t, ast.Tuple) else [t]):
                    if isinstance(n, ast.Name) and n.id not in out:
                        out.append(n.id)
        elif isinstance(s, ast.AugAssign) and isinstance(s.target, ast.Name):
            if s.target.id not in out:
                out.append(s.target.id)
        elif isinstance(s, ast.If):
            for v in assigned(s.body) + assigned(s.orelse):
                if v not in out:
                    out.append(v)
    return out


class Block(object):
    """translates a statement list to Lean `let` lines; `stmt_hook(stmt, env, lines)` may consume a statement
    (returns True) - used for the recognised glue and for statements about `t`"""

    def __init__(self, stmt_hook=None, ret_hook=None, funcs=None):
        self.stmt_hook = stmt_hook or (lambda s, env, lines, pad: False)
        self.ret_hook = ret_hook
        self.funcs = funcs or {}

    def straight(self, stmts, env, lines, ind):
        """statements without return; mutates env, appends to lines"""
        for s in stmts:
            self.one(s, env, lines, ind)

    def one(self, s, env, lines, ind):
        pad = '  ' * ind
        if self.stmt_hook(s, env, lines, pad):
            return
        if isinstance(s, ast.Assign) and len(s.targets) == 1:
            tgt = s.targets[0]
            if isinstance(tgt, ast.Name):
                e = int_expr(s.value, env)
                lines.append('%slet %s := %s' % (pad, env.fresh(tgt.id), e))
                return
            if isinstance(tgt, ast.Tuple) and all(isinstance(n, ast.Name) for n in tgt.elts):
                names = [n.id for n in tgt.elts]
                if isinstance(s.value, ast.Tuple) and len(s.value.elts) == len(names):
                    es = [int_expr(v, env) for v in s.value.elts]       # simultaneous: all read the old env
                    for n, e in zip(names, es):
                        lines.append('%slet %s := %s' % (pad, env.fresh(n), e))
                    return
                if (isinstance(s.value, ast.Call) and isinstance(s.value.func, ast.Name) and s.value.func.id in self.funcs
                        and len(names) == 2 and not s.value.keywords):
                    args = ' '.join(int_expr(a, env) for a in s.value.args)
                    p = env.fresh('p')
                    lines.append('%slet %s := %s %s' % (pad, p, self.funcs[s.value.func.id], args))
                    lines.append('%slet %s := %s.1' % (pad, env.fresh(names[0]), p))
                    lines.append('%slet %s := %s.2' % (pad, env.fresh(names[1]), p))
                    return
        if isinstance(s, ast.AugAssign) and isinstance(s.target, ast.Name):
            op = {ast.Add: ast.Add, ast.Sub: ast.Sub, ast.Mult: ast.Mult}.get(type(s.op))
            if op is None:
                raise Unsupported('augmented assignment operator', s)
            e = int_expr(ast.BinOp(left=ast.Name(id=s.target.id, ctx=ast.Load()), op=op(), right=s.value), env)
            lines.append('%slet %s := %s' % (pad, env.fresh(s.target.id), e))
            return
        if isinstance(s, ast.If):
            if has_return(s.body) or has_return(s.orelse):
                raise Unsupported('return inside a branch that is followed by more statements', s)
            c = bool_expr(s.test, env)
            e1, l1 = env.copy(), []
            self.straight(s.body, e1, l1, ind + 2)
            e2, l2 = env.copy(), []
            self.straight(s.orelse, e2, l2, ind + 2)
            for v in assigned(s.body) + [x for x in assigned(s.orelse) if x not in assigned(s.body)]:
                if v not in env.map:
                    raise Unsupported('variable %s assigned only inside a branch' % v, s)
                new = None
                a = branch_value(l1, e1.map[v], ind)
                b = branch_value(l2, e2.map[v], ind)
                old_env_name = env.map[v]
                new = env.fresh(v)
                # both branch expressions were built in copies of the *old* environment
                env_line = '%slet %s := if %s then %s else %s' % (pad, new, c, a, b)
                lines.append(env_line)
                # later variables of the same `if` must still see the pre-branch value of v: guaranteed because the
                # branch expressions only mention names bound before this `if` (SSA names are never re-bound)
                del old_env_name
            return
        if isinstance(s, ast.Expr) and isinstance(s.value, ast.Constant) and isinstance(s.value.value, str):
            return  # docstring
        raise Unsupported('statement outside the fragment', s)

    def returning(self, stmts, env, ind):
        """a block every path of which ends in `return`: gives a Lean expression (list of lines)"""
        lines = []
        pad = '  ' * ind
        for i, s in enumerate(stmts):
            if isinstance(s, ast.Return):
                lines.append(pad + self.ret_hook(s.value, env))
                return lines
            if isinstance(s, ast.If) and (has_return(s.body) or has_return(s.orelse)):
                if not ends_in_return(s.body):
                    raise Unsupported('branch with a conditional return', s)
                c = bool_expr(s.test, env)
                lines.append('%sif %s then' % (pad, c))
                lines += self.returning(s.body, env.copy(), ind + 1)
                lines.append('%selse' % pad)
                rest = s.orelse if s.orelse else stmts[i + 1:]
                if s.orelse and not ends_in_return(s.orelse):
                    raise Unsupported('else-branch without return while the then-branch returns', s)
                lines += self.returning(rest, env.copy(), ind + 1)
                return lines
            self.one(s, env, lines, ind)
        raise Unsupported('block does not end in return', stmts[-1] if stmts else None)


def branch_value(lines, name, ind):
    # dead-code elimination: keep only the lets the value depends on (single-line lets only)
    if all(l.count('\n') == 0 for l in lines):
        need, kept = {name}, []
        for l in reversed(lines):
            m = re.match(r'\s*let (\w+) := (.*)$', l)
            if m and m.group(1) in need:
                kept.append(l)
                need |= set(re.findall(r'\w+', m.group(2)))
        lines = list(reversed(kept))
    if not lines:
        return name
    return '(\n' + '\n'.join(lines) + '\n' + '  ' * (ind + 2) + name + ')'


def has_return(stmts):
    return any(isinstance(n, ast.Return) for s in stmts for n in ast.walk(s))


def ends_in_return(stmts):
    if not stmts:
        return False
    last = stmts[-1]
    if isinstance(last, ast.Return):
        return True
    if isinstance(last, ast.If):
        return ends_in_return(last.body) and ends_in_return(last.orelse)
    return False


# ---------------------------------------------------------------------------------------------- the kernels

def find_func(tree, name):
    for n in tree.body:
        if isinstance(n, ast.FunctionDef) and n.name == name:
            return n
    raise Unsupported('function %s not found' % name)


def find_assign(tree, name):
    for n in tree.body:
        if isinstance(n, ast.Assign) and len(n.targets) == 1 and isinstance(n.targets[0], ast.Name) and n.targets[0].id == name:
            return n.value
    raise Unsupported('module constant %s not found' % name)


def day_multiple(node, env):
    """`E * DAY` / `DAY * E` -> Lean expression of E; else None"""
    if isinstance(node, ast.BinOp) and isinstance(node.op, ast.Mult):
        if isinstance(node.right, ast.Name) and node.right.id == 'DAY':
            return int_expr(node.left, env)
        if isinstance(node.left, ast.Name) and node.left.id == 'DAY':
            return int_expr(node.right, env)
    return None


HEADER = ('/- GENERATED by harness/pv/translate.py from src/pyg_base/_dates.py (%s) - do not edit.\n'
          '   Re-written on every ./check run from the current source text. -/\n')


def gen_ym(tree):
    f = find_func(tree, 'ym')
    if [a.arg for a in f.args.args] != ['y', 'm']:
        raise Unsupported('ym: signature changed', f)

    def glue(s, env, lines, pad):
        # float -> int coercion and month-name lookup: the identity on integers (covered by correspondence only)
        return (same(s, 'y = int(y) if is_float(y) and int(y) == y else y') or same(s, 'm = month(m)')
                or same(s, 'd = int(d) if is_float(d) and int(d) == d else d')
                # C04-D7: numpy integers too are turned into python ints (the identity on the integers the model ranges over)
                or same(s, 'd = int(d) if is_int(d) or (is_float(d) and int(d) == d) else d')
                # C04-D8: the same for the year (an unsigned numpy year overflowed in `y += (m-1) // 12`)
                or same(s, 'y = int(y) if is_int(y) or (is_float(y) and int(y) == y) else y'))

    def ret_pair(v, env):
        if not (isinstance(v, ast.Tuple) and len(v.elts) == 2):
            raise Unsupported('ym must return a pair', v)
        return '(%s, %s)' % (int_expr(v.elts[0], env), int_expr(v.elts[1], env))

    body = Block(glue, ret_pair).returning(f.body, Env(['y', 'm']), 1)
    out = ['/-- `ym(y, m)` for integer arguments, lines %d-%d -/' % (f.lineno, f.end_lineno), 'def ym (y m : Int) : Int × Int :='] + body + ['']

    g = find_func(tree, '_ymd')
    if [a.arg for a in g.args.args] != ['y', 'm', 'd']:
        raise Unsupported('_ymd: signature changed', g)
    first = g.body[1] if (isinstance(g.body[0], ast.Expr) and isinstance(g.body[0].value, ast.Constant)) else g.body[0]
    if not (isinstance(first, ast.If) and not first.orelse and len(first.body) == 1 and same(first.body[0], 'y,d = d,y')):
        raise Unsupported('_ymd: the day/year swap guard is not `if <cond>: y,d = d,y` any more', first)
    guard = bool_expr(first.test, Env(['y', 'm', 'd']))
    out += ['/-- the guard of the day/year swap at the top of `_ymd`, line %d -/' % first.lineno,
            'def ymdSwap (y m d : Int) : Prop := %s' % guard, '',
            'instance (y m d : Int) : Decidable (ymdSwap y m d) := by unfold ymdSwap; infer_instance', '']

    def ret_monthplus(v, env):
        # datetime.datetime(y, m, 1) + (d-1) * DAY
        if (isinstance(v, ast.BinOp) and isinstance(v.op, ast.Add) and isinstance(v.left, ast.Call)
                and same(v.left.func, 'datetime.datetime') and len(v.left.args) == 3 and not v.left.keywords
                and same(v.left.args[2], '1')):
            off = day_multiple(v.right, env)
            if off is not None:
                return '⟨%s, %s, %s⟩' % (int_expr(v.left.args[0], env), int_expr(v.left.args[1], env), off)
        raise Unsupported('_ymd must return datetime.datetime(y, m, 1) + <days> * DAY', v)

    body = Block(glue, ret_monthplus, funcs={'ym': 'ym'}).returning(g.body, Env(['y', 'm', 'd']), 1)
    out += ['/-- `_ymd(y, m, d)` for integer arguments, lines %d-%d: the month it constructs and the day offset it adds -/' % (g.lineno, g.end_lineno),
            'def ymd (y m d : Int) : MonthPlus :='] + body + ['']
    return 'import PygModel.GenTypes\n\nnamespace Pyg.Gen\n\n' + '\n'.join(out) + '\nend Pyg.Gen\n'


def gen_num2dt(tree):
    f = find_func(tree, 'num2dt')
    if [a.arg for a in f.args.args] != ['n']:
        raise Unsupported('num2dt: signature changed', f)

    def glue(s, env, lines, pad):
        # f = the fraction of a day; `float(n - i)` (repair C04-D5) is the same number as a python float: every float is a float,
        # an int / numpy difference 0 becomes 0.0
        return same(s, 'i = int(n)') or same(s, 'f = datetime.timedelta(n - i)') or same(s, 'f = datetime.timedelta(float(n - i))')

    def plus_f(v):
        if isinstance(v, ast.BinOp) and isinstance(v.op, ast.Add) and same(v.right, 'f'):
            return v.left
        return None

    def ret(v, env):
        if same(v, 'datetime.datetime.utcfromtimestamp(n)'):
            return '.timestamp'
        core = plus_f(v)
        if core is None:
            raise Unsupported('num2dt: return value is not `<date> + f`', v)
        if isinstance(core, ast.BinOp) and isinstance(core.op, ast.Add) and same(core.left, 'today()'):
            k = day_multiple(core.right, env)
            if k is not None:
                return '.todayPlus %s' % k
        if isinstance(core, ast.Call) and not core.keywords:
            if same(core.func, 'datetime.datetime') and len(core.args) == 3:
                return '.date %s' % ' '.join(int_expr(a, env) for a in core.args)
            if same(core.func, 'datetime.datetime.fromordinal') and len(core.args) == 1:
                return '.fromOrdinal %s' % int_expr(core.args[0], env)
            if same(core.func, '_ymd') and len(core.args) == 3:
                return '.viaYmd %s' % ' '.join(int_expr(a, env) for a in core.args)
        raise Unsupported('num2dt: unrecognised constructor', v)

    # the two glue statements sit on one source line `i = int(n); f = ...`
    body = Block(glue, ret).returning(f.body, Env(['i']), 1)
    out = ['/-- the threshold table of `num2dt`, lines %d-%d, as a function of `i = int(n)` -/' % (f.lineno, f.end_lineno),
           'def num2dt (i : Int) : NumKind :='] + body + ['']
    return 'import PygModel.GenTypes\n\nnamespace Pyg.Gen\n\n' + '\n'.join(out) + '\nend Pyg.Gen\n'


def period_loop(tree):
    """the `if bmp.endswith(c): ... elif ...` chain inside dt_bump's `while period.search(bump)` loop"""
    f = find_func(tree, 'dt_bump')
    for n in ast.walk(f):
        if isinstance(n, ast.While) and same(n.test, 'period.search(bump) is not None'):
            body = n.body
            if not (len(body) == 3 and same(body[0], 'bmp = period.search(bump).group()') and same(body[1], 'bump = bump[len(bmp):]')
                    and isinstance(body[2], ast.If)):
                raise Unsupported('dt_bump: the tokenizer loop changed shape', n)
            chain, node = [], body[2]
            while True:
                t = node.test
                if not (isinstance(t, ast.Call) and same(t.func, 'bmp.endswith') and len(t.args) == 1
                        and isinstance(t.args[0], ast.Constant) and isinstance(t.args[0].value, str) and len(t.args[0].value) == 1):
                    raise Unsupported('dt_bump: branch test is not bmp.endswith(<letter>)', t)
                chain.append((t.args[0].value, node.body, node))
                if len(node.orelse) == 1 and isinstance(node.orelse[0], ast.If):
                    node = node.orelse[0]
                elif not node.orelse:
                    break
                else:
                    raise Unsupported('dt_bump: the unit chain has a catch-all else', node)
            return chain
    raise Unsupported('dt_bump: `while period.search(bump) is not None` not found')


def n_special(node, env):
    if same(node, 'int(bmp[:-1])'):
        return 'n'
    return None


TD_US = dict(days=86400000000, hours=3600000000, minutes=60000000, seconds=1000000, milliseconds=1000, microseconds=1, weeks=7 * 86400000000)


def gen_bday_and_tables(tree):
    chain = period_loop(tree)
    arms, boff = [], None
    for letter, body, node in chain:
        env = Env(['n'], n_special)
        if len(body) == 1 and isinstance(body[0], (ast.Assign, ast.AugAssign)):
            s = body[0]
            val = None
            if isinstance(s, ast.Assign) and len(s.targets) == 1 and same(s.targets[0], 't'):
                if isinstance(s.value, ast.BinOp) and isinstance(s.value.op, ast.Add) and same(s.value.left, 't'):
                    val = s.value.right
                elif isinstance(s.value, ast.Call) and same(s.value.func, '_ymd') and len(s.value.args) == 3 and not s.value.keywords:
                    a, b, c = s.value.args

                    def shift(x, base):
                        if same(x, base):
                            return '0'
                        if isinstance(x, ast.BinOp) and isinstance(x.op, ast.Add) and same(x.left, base):
                            return int_expr(x.right, env)
                        if isinstance(x, ast.BinOp) and isinstance(x.op, ast.Add) and same(x.right, base):
                            return int_expr(x.left, env)
                        raise Unsupported('dt_bump: argument of _ymd is not %s [+ k]' % base, x)
                    if not same(c, 't.day'):
                        raise Unsupported('dt_bump: third argument of _ymd is not t.day', c)
                    arms.append((letter, '.ymdShift %s %s' % (shift(a, 't.year'), shift(b, 't.month')), node.lineno))
                    continue
            elif isinstance(s, ast.AugAssign) and same(s.target, 't') and isinstance(s.op, ast.Add):
                val = s.value
            if val is not None:
                k = day_multiple(val, env)
                if k is not None:
                    arms.append((letter, '.days %s' % k, node.lineno))
                    continue
                if (isinstance(val, ast.Call) and same(val.func, 'datetime.timedelta') and not val.args and len(val.keywords) == 1
                        and val.keywords[0].arg in TD_US):
                    arms.append((letter, '.micros (%d * %s)' % (TD_US[val.keywords[0].arg], int_expr(val.keywords[0].value, env)), node.lineno))
                    continue
            raise Unsupported('dt_bump: branch %r is not one of the recognised single updates of t' % letter, s)
        # a multi-statement branch: the business-day block.  t is tracked as an offset in days from the start.
        if boff is not None:
            raise Unsupported('dt_bump: more than one multi-statement unit branch', node)
        if not same(body[0], 'bdays = int(bmp[:-1])') or not same(body[1], 'wday = t.weekday()'):
            raise Unsupported('dt_bump: the business-day block does not start with bdays = int(bmp[:-1]); wday = t.weekday()', node)
        for s in body[2:]:
            for x in ast.walk(s):
                if isinstance(x, ast.Attribute) and same(x.value, 't'):
                    raise Unsupported('dt_bump: the business-day block reads t.%s after updating t' % x.attr, x)

        def t_hook(s, env, lines, pad):
            # t = t + E*DAY | t = t + DAY*E | t += DAY*E   ->   t := t + E   (days)
            val = None
            if isinstance(s, ast.Assign) and len(s.targets) == 1 and same(s.targets[0], 't'):
                if isinstance(s.value, ast.BinOp) and isinstance(s.value.op, ast.Add) and same(s.value.left, 't'):
                    val = s.value.right
                else:
                    raise Unsupported('business-day block: assignment to t is not t + <days>*DAY', s)
            elif isinstance(s, ast.AugAssign) and same(s.target, 't'):
                if not isinstance(s.op, ast.Add):
                    raise Unsupported('business-day block: t is updated with an operator other than +', s)
                val = s.value
            if val is None:
                return False
            k = day_multiple(val, env)
            if k is None:
                raise Unsupported('business-day block: t is bumped by something that is not a multiple of DAY', s)
            old = env.map['t']
            lines.append('%slet %s := (%s + %s)' % (pad, env.fresh('t'), old, k))
            return True

        env = Env(['bdays', 'wday', 't'])
        blk = Block(t_hook, lambda v, e: e.map['t'])
        lines = []
        path = []          # the name of `t` after each top-level statement that updates it: every one is a datetime the code constructs

        def t_updates(stmts):
            """largest number of updates of t along one path through `stmts`"""
            k = 0
            for x in stmts:
                if isinstance(x, ast.If):
                    k += max(t_updates(x.body), t_updates(x.orelse))
                elif (isinstance(x, ast.Assign) and any(same(g, 't') for g in x.targets)) or (isinstance(x, ast.AugAssign) and same(x.target, 't')):
                    k += 1
            return k
        for s in body[2:]:
            before = env.map['t']
            if t_updates([s]) > 1:
                raise Unsupported('business-day block: one top-level statement updates t more than once (intermediate values would be lost)', s)
            blk.one(s, env, lines, 1)
            if env.map['t'] != before:
                path.append(env.map['t'])
        boff = (lines, env.map['t'], node, path)
        arms.append((letter, '.bday n', node.lineno))
    if boff is None:
        raise Unsupported('dt_bump: no business-day block found')
    lines, tname, node, path = boff
    text_b = ['/-- the business-day block of `dt_bump` (`elif bmp.endswith(\'b\')`, lines %d-%d): total offset in DAYS added to `t`,' % (node.lineno, node.end_lineno),
              'as a function of `wday = t.weekday()` and `bdays = int(bmp[:-1])` -/',
              'def bOff (wday bdays : Int) : Int :=', '  let t : Int := 0'] + lines + ['  ' + tname, '']
    text_b += ['/-- the same block, giving the offset of `t` (in DAYS) after EACH top-level statement of the block that updates `t`, in order:',
               'every element is a datetime the code constructs on the way (each addition can raise OverflowError); the last one is `bOff` -/',
               'def bOffPath (wday bdays : Int) : List Int :=', '  let t : Int := 0'] + lines + ['  [%s]' % ', '.join(path), '']
    bday = 'import PygModel.GenTypes\n\nnamespace Pyg.Gen\n\n' + '\n'.join(text_b) + '\nend Pyg.Gen\n'

    # ---- tables
    out = ['/-- the unit chain of `dt_bump`: what `<n><letter>` does (first matching branch wins) -/',
           'def bumpUnit (c : Char) (n : Int) : Option Step :=']
    for i, (letter, step, ln) in enumerate(arms):
        out.append("  %s c = '%s' then some (%s)   -- line %d" % ('if' if i == 0 else 'else if', letter, step, ln))
    out += ['  else none', '']
    per = find_assign(tree, 'period')
    if not (isinstance(per, ast.Call) and same(per.func, 're.compile') and len(per.args) == 1 and isinstance(per.args[0], ast.Constant)):
        raise Unsupported('period is not re.compile(<literal>)', per)
    m = re.match(r'^\^\[-\+\]\{0,1\}\[0-9\]\+\[([a-zA-Z]+)\]\{1\}$', per.args[0].value)
    if not m:
        raise Unsupported('the period regex %r is outside the modelled shape ^[-+]{0,1}[0-9]+[<letters>]{1}' % per.args[0].value, per)
    out += ['/-- the unit letters of the `period` regex (line %d); the tokenizer lower-cases first -/' % per.lineno,
            'def periodUnits : List Char := [%s]' % ', '.join("'%s'" % c for c in m.group(1)), '']
    bumps = find_assign(tree, '_bumps')
    if not (isinstance(bumps, ast.Dict) and all(isinstance(k, ast.Constant) and isinstance(v, ast.Constant) and isinstance(k.value, str)
                                                and isinstance(v.value, str) for k, v in zip(bumps.keys, bumps.values))):
        raise Unsupported('_bumps is not a literal dict of strings', bumps)
    out += ['/-- named tenors `_bumps` (line %d) -/' % bumps.lineno,
            'def namedTenors : List (String × String) := [%s]' % ', '.join('("%s", "%s")' % (k.value, v.value) for k, v in zip(bumps.keys, bumps.values)), '']
    wk = find_assign(tree, 'wkdays')
    if not (isinstance(wk, ast.Call) and same(wk.func, 'dict') and not wk.args and all(isinstance(k.value, ast.Constant) and isinstance(k.value.value, int) for k in wk.keywords)):
        raise Unsupported('wkdays is not dict(<name> = <int>, ...)', wk)
    out += ['/-- `wkdays` (line %d) -/' % wk.lineno,
            'def wkdays : List (String × Int) := [%s]' % ', '.join('("%s", %d)' % (k.arg, k.value.value) for k in wk.keywords), '']
    mo = find_assign(tree, 'months')
    if not (isinstance(mo, ast.List) and all(isinstance(e, ast.Constant) and isinstance(e.value, str) for e in mo.elts)):
        raise Unsupported('months is not a literal list of strings', mo)
    out += ['/-- `months` (line %d) -/' % mo.lineno, 'def months : List String := [%s]' % ', '.join('"%s"' % e.value for e in mo.elts), '']
    for name in ('ambiguity', 'iso', 'yyyymm'):
        v = find_assign(tree, name)
        if not (isinstance(v, ast.Call) and same(v.func, 're.compile') and len(v.args) == 1 and isinstance(v.args[0], ast.Constant) and isinstance(v.args[0].value, str)):
            raise Unsupported('%s is not re.compile(<literal>)' % name, v)
        out += ['/-- source of the `%s` regex (line %d); a changed text breaks the `rfl` theorem C04.ambiguity_regex_is_modelled (ambiguity only); what the hand-written matcher of PygModel/DateParse.lean does is tied to the regex SEMANTICS by C04.ambiguous_iff -/' % (name, v.lineno),
                'def re_%s : String := "%s"' % (name, v.args[0].value.replace('\\', '\\\\').replace('"', '\\"')), '']
    tables = 'import PygModel.GenTypes\n\nnamespace Pyg.Gen\n\n' + '\n'.join(out) + '\nend Pyg.Gen\n'
    return bday, tables


def gen_np2dt(tree):
    """np2dt(t): `res = t.astype(datetime.datetime)` followed by a chain of class tests on `res`, each returning one of the
    recognised values.  Translated to a function of the CLASS of `res` (NpRes) giving the action (NpAct); `isinstance` follows
    Python's class hierarchy (a datetime.datetime is also a datetime.date): `NpRes.isDate .datetime = true`."""
    f = find_func(tree, 'np2dt')
    if [a.arg for a in f.args.args] != ['t']:
        raise Unsupported('np2dt: signature changed', f)
    body = [s for s in f.body if not (isinstance(s, ast.Expr) and isinstance(s.value, ast.Constant) and isinstance(s.value.value, str))]
    if not body or not same(body[0], 'res = t.astype(datetime.datetime)'):
        raise Unsupported('np2dt: does not start with res = t.astype(datetime.datetime)', body[0] if body else f)
    tests = [('isinstance(res, datetime.datetime)', 'res.isDatetime'), ('isinstance(res, datetime.date)', 'res.isDate'), ('is_int(res)', 'res.isInt')]
    acts = [('res', '.same'), ('datetime.datetime(res.year, res.month, res.day)', '.midnight'), ('pd.Timestamp(t)', '.pdTimestamp')]

    def test_of(node):
        for text, lean in tests:
            if same(node, text):
                return lean
        raise Unsupported('np2dt: unrecognised class test', node)

    def act_of(stmts):
        if len(stmts) == 1 and isinstance(stmts[0], ast.Return) and stmts[0].value is not None:
            for text, lean in acts:
                if same(stmts[0].value, text):
                    return lean
        raise Unsupported('np2dt: a branch is not `return <res | datetime.datetime(res.year, res.month, res.day) | pd.Timestamp(t)>`', stmts[0] if stmts else f)

    # every then-branch returns (act_of checks it), so `if A: return X  else: E` followed by R  ==  `if A: return X` followed by E; R
    arms, rest, final = [], body[1:], None
    while rest:
        s = rest[0]
        if isinstance(s, ast.If):
            arms.append((test_of(s.test), act_of(s.body), s.lineno))
            rest = list(s.orelse) + rest[1:]
            continue
        final = act_of(rest[:1])
        break
    if final is None:
        raise Unsupported('np2dt: the chain of class tests is not followed by a final return', f)
    out = ['/-- the class dispatch of `np2dt`, lines %d-%d: what is done with `res = t.astype(datetime.datetime)` according to its class -/' % (f.lineno, f.end_lineno),
           'def np2dt (res : NpRes) : NpAct :=']
    for i, (t_, a_, ln) in enumerate(arms):
        out.append('  %s %s then %s   -- line %d' % ('if' if i == 0 else 'else if', t_, a_, ln))
    out += ['  else %s' % final if arms else '  %s' % final, '']
    return 'import PygModel.GenTypes\n\nnamespace Pyg.Gen\n\n' + '\n'.join(out) + '\nend Pyg.Gen\n'


def dateutil_parser_path():
    """the _parser.py of the dateutil the implementation imports (None when it cannot be located: the committed table is kept)"""
    try:
        import importlib.util
        spec = importlib.util.find_spec('dateutil.parser._parser')
        if spec is not None and spec.origin and os.path.exists(spec.origin):
            return spec.origin
    except Exception:
        pass
    import glob
    hits = sorted(glob.glob('/venv/lib/python*/site-packages/dateutil/parser/_parser.py'))
    return hits[0] if hits else None


def gen_du_months(path):
    tree = ast.parse(open(path).read())
    for n in tree.body:
        if isinstance(n, ast.ClassDef) and n.name == 'parserinfo':
            for s in n.body:
                if isinstance(s, ast.Assign) and len(s.targets) == 1 and isinstance(s.targets[0], ast.Name) and s.targets[0].id == 'MONTHS':
                    v = s.value
                    if not (isinstance(v, ast.List) and len(v.elts) == 12 and all(
                            isinstance(e, ast.Tuple) and e.elts and all(isinstance(x, ast.Constant) and isinstance(x.value, str) for x in e.elts) for e in v.elts)):
                        raise Unsupported('dateutil parserinfo.MONTHS is not a list of 12 tuples of strings', s)
                    rows = ['[%s]' % ', '.join('"%s"' % x.value.lower() for x in e.elts) for e in v.elts]
                    out = ['/-- `dateutil.parser.parserinfo.MONTHS` (dateutil/parser/_parser.py line %d), lower-cased as `parserinfo._convert` stores' % s.lineno,
                           'them: entry `k` (from 0) lists the names of month `k + 1`; `parserinfo.month(name)` looks up `name.lower()` -/',
                           'def duMonths : List (List String) :=', '  [' + ',\n   '.join(rows) + ']', '']
                    return 'namespace Pyg.Gen\n\n' + '\n'.join(out) + '\nend Pyg.Gen\n'
    raise Unsupported('dateutil: class parserinfo with a MONTHS table not found in %s' % path)


# ---------------------------------------------------------------------------------------------- entry point

def write_if_changed(path, text):
    if os.path.exists(path) and open(path).read() == text:
        return False
    os.makedirs(os.path.dirname(path), exist_ok=True)
    open(path, 'w').write(text)
    return True


def translate_source(text):
    """-> (dict module -> lean text, list of broken obligations)"""
    out, broken = {}, []
    try:
        tree = ast.parse(text)
    except SyntaxError as e:
        return out, [dict(name=m, detail='_dates.py does not parse: %s' % e) for m in MODULES]
    for name, fn in (('PygGen.Ym', gen_ym), ('PygGen.Num2dt', gen_num2dt), ('PygGen.Np2dt', gen_np2dt)):
        try:
            out[name] = fn(tree)
        except Unsupported as e:
            broken.append(dict(name=name, detail=str(e)))
    try:
        out['PygGen.BDay'], out['PygGen.Tables'] = gen_bday_and_tables(tree)
    except Unsupported as e:
        broken.append(dict(name='PygGen.BDay', detail=str(e)))
        broken.append(dict(name='PygGen.Tables', detail=str(e)))
    return out, broken


def regenerate(repo_dir, lean_dir):
    """rewrite lean/PygGen/*.lean from $PYG_REPO/src/pyg_base/_dates.py.  A module whose source is outside the
    fragment keeps its last committed snapshot (so the driver still builds) and is reported as broken."""
    path = os.path.join(repo_dir, 'src', 'pyg_base', '_dates.py')
    try:
        text = open(path).read()
    except OSError as e:
        return dict(modules=[], broken=[dict(name=m, detail='cannot read %s: %s' % (path, e)) for m in MODULES])
    out, broken = translate_source(text)
    skipped = []
    du = dateutil_parser_path()
    if du is None:
        skipped.append('PygGen.DuMonths')        # dateutil not visible to this interpreter: the committed table stays
    else:
        try:
            out['PygGen.DuMonths'] = gen_du_months(du)
        except (Unsupported, OSError, SyntaxError) as e:
            broken.append(dict(name='PygGen.DuMonths', detail=str(e)))
    written = []
    for name in MODULES:
        if name in out:
            f = os.path.join(lean_dir, *name.split('.')) + '.lean'
            head = HEADER % 'current working tree'
            if name == 'PygGen.DuMonths':
                head = head.replace('src/pyg_base/_dates.py', 'dateutil/parser/_parser.py of the interpreter that runs the implementation')
            if write_if_changed(f, head + out[name]):
                written.append(name)
    return dict(modules=sorted(out), rewritten=written, broken=broken, skipped=skipped)


if __name__ == '__main__':
    import sys, json
    here = os.path.dirname(os.path.abspath(__file__))
    r = regenerate(os.environ.get('PYG_REPO', '/repo'), os.path.join(here, '..', '..', 'lean'))
    print(json.dumps(r, indent=1))
