"""Line protocol (DESIGN 3.2): S-expressions shared by the Lean driver and the implementation runner.

cell   ::= N | B:0|1 | NB:0|1 | I:<int> | NI:<int> | F:<int> (value/4) | NF:<int> | F:nan | NF:nan | F:inf | F:-inf
         | S:<hex utf8> | T:<us since 0001-01-01> | DT:<us> (a datetime.date)
value  ::= cell | (L v*) | (T v*) | (D (hexkey v)*)
The N-prefixed spellings are numpy scalars (np.bool_, np.int64, np.float64; NF:nan is the shared np.nan
object, F:nan a fresh float('nan') per occurrence, XF:nan a NaN held by an np.float64 scalar); the Lean side maps them to the same cells.
"""
import datetime, math
from fractions import Fraction
import numpy as np

EPOCH = datetime.datetime(1, 1, 1)
US = datetime.timedelta(microseconds=1)


class Unencodable(Exception):
    pass


def hexs(s):
    return s.encode('utf8').hex()


def unhex(h):
    return bytes.fromhex(h).decode('utf8')


def dt2us(t):
    return (t - EPOCH) // US


def us2dt(us):
    return EPOCH + datetime.timedelta(microseconds=us)


def enc_float(x, prefix='F'):
    if math.isnan(x):
        return prefix + ':nan'
    if math.isinf(x):
        return 'F:inf' if x > 0 else 'F:-inf'
    q = Fraction(x) * 4
    if q.denominator != 1:
        raise Unencodable('float %r is not a multiple of 1/4' % (x,))
    return '%s:%d' % (prefix, q.numerator)


def enc(v):
    """python value -> wire string (used for implementation replies and by generators)"""
    if v is None:
        return 'N'
    if isinstance(v, bool):
        return 'B:1' if v else 'B:0'
    if isinstance(v, np.bool_):
        return 'NB:1' if v else 'NB:0'
    if isinstance(v, int):
        return 'I:%d' % v
    if isinstance(v, np.integer):
        return 'NI:%d' % int(v)
    if isinstance(v, np.floating):
        return 'XF:nan' if v != v else enc_float(float(v), 'NF')
    if isinstance(v, float):
        return 'NF:nan' if v is np.nan else enc_float(v)
    if isinstance(v, Fraction):
        q = v * 4
        if q.denominator != 1:
            raise Unencodable(repr(v))
        return 'F:%d' % q.numerator
    if isinstance(v, str):
        return 'S:' + hexs(v)
    if isinstance(v, datetime.datetime):
        return 'T:%d' % dt2us(v.replace(tzinfo=None))
    if isinstance(v, datetime.date):
        return 'DT:%d' % dt2us(datetime.datetime(v.year, v.month, v.day))
    if isinstance(v, np.datetime64):
        return 'T:%d' % dt2us(v.astype('datetime64[us]').astype(datetime.datetime))
    if isinstance(v, list):
        return '(L' + ''.join(' ' + enc(x) for x in v) + ')'
    if isinstance(v, tuple):
        return '(T' + ''.join(' ' + enc(x) for x in v) + ')'
    if isinstance(v, dict):
        return '(D' + ''.join(' (%s %s)' % (hexs(str(k)), enc(x)) for k, x in v.items()) + ')'
    raise Unencodable('%s: %r' % (type(v), v))


# ---------------------------------------------------------------- parsing

def tokenize(s):
    return s.replace('(', ' ( ').replace(')', ' ) ').split()


def parse(s):
    """wire string -> nested python lists of atoms (str)"""
    toks = tokenize(s)
    stack = [[]]
    for t in toks:
        if t == '(':
            stack.append([])
        elif t == ')':
            top = stack.pop()
            stack[-1].append(top)
        else:
            stack[-1].append(t)
    if len(stack) != 1 or len(stack[0]) != 1:
        raise ValueError('bad sexp: %r' % s)
    return stack[0][0]


def render(x):
    if isinstance(x, str):
        return x
    return '(' + ' '.join(render(y) for y in x) + ')'


def dec_cell(a):
    """atom -> python value as the implementation should see it"""
    if a == 'N':
        return None
    tag, _, body = a.partition(':')
    if tag == 'B':
        return body == '1'
    if tag == 'NB':
        return np.bool_(body == '1')
    if tag == 'I':
        return int(body)
    if tag == 'NI':
        return np.int64(int(body))
    if tag in ('F', 'NF', 'XF'):
        if body == 'nan':
            return np.float64('nan') if tag == 'XF' else np.nan if tag == 'NF' else float('nan')
        if body == 'inf':
            return float('inf')
        if body == '-inf':
            return float('-inf')
        x = int(body) / 4.0
        return np.float64(x) if tag == 'NF' else x
    if tag == 'S':
        return unhex(body)
    if tag == 'T':
        return us2dt(int(body))
    if tag == 'DT':
        return us2dt(int(body)).date()
    raise ValueError('bad cell %r' % a)


def dec(x):
    """parsed sexp -> python value for the implementation"""
    if isinstance(x, str):
        return dec_cell(x)
    if not x:
        raise ValueError('empty node')
    head, rest = x[0], x[1:]
    if head == 'L':
        return [dec(y) for y in rest]
    if head == 'T':
        return tuple(dec(y) for y in rest)
    if head == 'D':
        return {unhex(kv[0]): dec(kv[1]) for kv in rest}
    raise ValueError('bad node head %r' % (head,))


# ---------------------------------------------------------------- non-string column keys (C01 / C06 / C11)

def key_name(k):
    """a column key as the table models name it: a string is its own name, any other key (float, datetime, None - the keys pivot makes of y values) is
    U+0000 + its wire atom (a NaN key of any identity / numpy type: U+0000 F:nan).  String names never start with U+0000."""
    if isinstance(k, float) and k != k:
        return '\x00F:nan'
    return k if isinstance(k, str) else '\x00' + enc(k)


def name_key(s):
    """inverse of key_name: the python column key a wire name stands for"""
    return dec_cell(s[1:]) if isinstance(s, str) and s[:1] == '\x00' else s


def enck(v):
    """enc for values read off a table whose column keys may be non-strings: dict keys go through key_name"""
    if isinstance(v, dict):
        return '(D' + ''.join(' (%s %s)' % (hexs(str(k) if isinstance(k, int) else key_name(k)), enck(x)) for k, x in v.items()) + ')'
    if isinstance(v, list):
        return '(L' + ''.join(' ' + enck(x) for x in v) + ')'
    if isinstance(v, tuple):
        return '(T' + ''.join(' ' + enck(x) for x in v) + ')'
    return enc(v)


def deck(x):
    """dec for tables whose column names may be tagged: dict keys go through name_key, and so does every string that starts with U+0000 (no cell does:
    such a string is a column name in a header, a key list or a column argument)"""
    if isinstance(x, list) and x and x[0] == 'D':
        return {name_key(unhex(kv[0])): deck(kv[1]) for kv in x[1:]}
    if isinstance(x, list) and x and x[0] in ('L', 'T'):
        r = [deck(y) for y in x[1:]]
        return r if x[0] == 'L' else tuple(r)
    return name_key(dec(x))


# ---------------------------------------------------------------- canonical comparison

def canon_cell(a, numeric=True):
    """atom -> hashable canonical token.  numeric=True: ints/floats/np scalars of equal value coincide
    (python ==); bools stay bools; dates coincide with their midnight datetime."""
    if a == 'N':
        return ('N',)
    tag, _, body = a.partition(':')
    if tag in ('B', 'NB'):
        return ('B', body == '1')
    if tag in ('I', 'NI'):
        return ('F', Fraction(int(body))) if numeric else ('I', int(body))
    if tag in ('F', 'NF', 'XF'):
        if body in ('nan', 'inf', '-inf'):
            return ('F', body)
        return ('F', Fraction(int(body), 4))
    if tag == 'S':
        return ('S', body)
    if tag in ('T', 'DT'):
        return ('T', int(body))
    return ('?', a)


def canon(x, numeric=True):
    if isinstance(x, str):
        return canon_cell(x, numeric)
    head, rest = x[0], x[1:]
    if head == 'D':
        return ('D',) + tuple(sorted((kv[0], canon(kv[1], numeric)) for kv in rest))
    return (head,) + tuple(canon(y, numeric) for y in rest)


def same_reply(r1, r2, numeric=True):
    """compare two reply lines `ok <v>` / `err K` / `bad-op` after canonicalisation"""
    if r1 == r2:
        return True
    a, b = r1.split(None, 1), r2.split(None, 1)
    if a[0] != b[0] or a[0] != 'ok' or len(a) != 2 or len(b) != 2:
        return False
    try:
        return canon(parse(a[1]), numeric) == canon(parse(b[1]), numeric)
    except Exception:
        return False


ERR_KINDS = ((ValueError, 'ValueError'), (KeyError, 'KeyError'), (IndexError, 'IndexError'),
             (TypeError, 'TypeError'))


def err_reply(e):
    for cls, name in ERR_KINDS:
        if isinstance(e, cls):
            return 'err ' + name
    return 'err Other'
