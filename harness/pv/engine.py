"""Check engine (DESIGN 3.3): sync/build/audit -> corpus -> correspondence -> spec -> verdict -> evidence.

A *case* is a list of protocol lines (one line for pure functions, several for histories); the same lines
go to the implementation runner (`impl.run_line`) and to the Lean driver, and the reply streams are diffed.
A property module (pv.props.cXX) provides:

  ID                      'C07'
  TITLE
  def generate(rng, tier) -> iterable of cases; a case is dict(lines=[...], tag='kind', note=?)
  def compare(case, i, line, impl_reply, model_reply) -> None | str   (None = agree; default same_reply)
  def laws(rng, tier, ctx) -> iterable of Finding   (implementation-only law checks; optional)
  def nontrivial(line, reply) -> bool                (evidence rule)
  RULE                    text of that rule
  MATCHERS                {name: fn(finding) -> bool}  for known_findings.json
  ASSUMPTIONS, TRUSTED    lists of strings
  GENERATED               list of PygGen modules this property's theorems depend on (optional)
"""
import os, sys, json, time, random, hashlib, subprocess, signal, re, traceback, importlib, fcntl

VERIF = os.path.dirname(os.path.dirname(os.path.dirname(os.path.abspath(__file__))))
LEAN = os.path.join(VERIF, 'lean')
DRIVER = os.path.join(LEAN, '.lake', 'build', 'bin', 'pygdriver')
REPO = os.environ.get('PYG_REPO', '/repo')
ALLOWED_AXIOMS = {'propext', 'Classical.choice', 'Quot.sound'}
FORBIDDEN = re.compile(r'\bsorry\b|\badmit\b|^\s*axiom\s|native_decide|bv_decide|implemented_by|\bunsafe\s|maxHeartbeats\s+0')

sys.path.insert(0, os.path.join(REPO, 'src'))

from . import proto  # noqa: E402


class Finding(object):
    """a concrete input on which the implementation fails the property (or diverges from the model)"""

    def __init__(self, kind, case, detail, impl=None, model=None, statement=None):
        self.kind = kind            # 'violation' | 'divergence'
        self.case = case            # dict(lines=[...], tag=...)
        self.detail = detail
        self.impl = impl
        self.model = model
        self.statement = statement

    def to_json(self):
        return dict(kind=self.kind, case=self.case, detail=self.detail, impl_output=self.impl,
                    model_output=self.model, statement_violated=self.statement)


class Timeout(Exception):
    pass


def _alarm(signum, frame):
    raise Timeout()


def with_timeout(fn, seconds=5):
    """run fn(); raise Timeout when it has burnt `seconds` of CPU time (ITIMER_VIRTUAL: a call that spins is caught
    whatever the load on the machine, and a loaded machine does not turn a slow call into a "did not return"), or when
    10 x `seconds` (at least 30 s) of wall-clock time have passed (a call that blocks without burning CPU).
    Both timers repeat: library code that swallows exceptions (try/except inside cmp, as_primitive) must not eat the only alarm."""
    old_v = signal.signal(signal.SIGVTALRM, _alarm)
    old_r = signal.signal(signal.SIGALRM, _alarm)
    signal.setitimer(signal.ITIMER_VIRTUAL, seconds, 0.05)
    signal.setitimer(signal.ITIMER_REAL, max(30.0, 10.0 * seconds), 0.05)
    try:
        return fn()
    finally:
        signal.setitimer(signal.ITIMER_VIRTUAL, 0)
        signal.setitimer(signal.ITIMER_REAL, 0)
        signal.signal(signal.SIGVTALRM, old_v)
        signal.signal(signal.SIGALRM, old_r)


# ------------------------------------------------------------------ lean side

class Lock(object):
    def __enter__(self):
        os.makedirs(os.path.join(LEAN, '.lake'), exist_ok=True)
        self.f = open(os.path.join(LEAN, '.lake', 'pv.lock'), 'w')
        fcntl.flock(self.f, fcntl.LOCK_EX)
        return self

    def __exit__(self, *a):
        fcntl.flock(self.f, fcntl.LOCK_UN)
        self.f.close()


def sh(cmd, cwd=None, timeout=3600):
    p = subprocess.run(cmd, cwd=cwd, shell=isinstance(cmd, str), stdout=subprocess.PIPE,
                       stderr=subprocess.STDOUT, timeout=timeout, text=True)
    return p.returncode, p.stdout


def sync_and_build(log, tier='quick', pid=None):
    """regenerate PygGen from the repo's working tree, build everything; returns dict(broken=[...])"""
    broken = []
    with Lock():
        try:
            from . import translate
            tr = translate.regenerate(REPO, LEAN)
            log['translator'] = tr
            for b in tr.get('broken', []):
                broken.append(dict(kind='translation', name=b['name'], detail=b['detail']))
        except ImportError:
            log['translator'] = 'absent'
        sh([sys.executable, os.path.join(VERIF, 'tools', 'gen_lean_roots.py')])
        rc, out = sh(['lake', 'build'], cwd=LEAN)
        log['lake_build_rc'] = rc
        if rc != 0:
            # build what can be built so that the driver and unaffected property modules stay usable
            mods = set()
            for m in re.finditer(r'^error: (\S+\.lean):(\d+):(\d+): (.*)$', out, re.M):
                mods.add(m.group(1))
                broken.append(dict(kind='lean', name=m.group(1) + ':' + m.group(2), detail=m.group(4)[:300]))
            log['lake_build_errors'] = out[-4000:]
            if not mods:
                broken.append(dict(kind='lean', name='lake build', detail=out[-500:]))
            rc2, out2 = sh(['lake', 'build', 'pygdriver'], cwd=LEAN)
            log['driver_build_rc'] = rc2
        audit = run_audit(log) if rc == 0 else {}
        if rc == 0 and tier == 'thorough' and pid:
            # independent kernel re-check of the compiled property module (and everything it imports)
            rc3, out3 = sh(['lake', 'env', 'leanchecker', 'PygProofs.Props.' + pid], cwd=LEAN)
            log['leanchecker_rc'] = rc3
            if rc3 != 0:
                broken.append(dict(kind='lean', name='leanchecker PygProofs.Props.' + pid, detail=out3[-400:]))
    return broken, audit


def run_audit(log):
    """theorem name -> axioms, from PygProofs/Audit.lean (cached on the olean mtimes)"""
    libdir = os.path.join(LEAN, '.lake', 'build', 'lib', 'lean')
    stamp = hashlib.sha1()
    for root, _, files in sorted(os.walk(libdir)):
        for f in sorted(files):
            if f.endswith('.olean'):
                st = os.stat(os.path.join(root, f))
                stamp.update(('%s %d %d;' % (f, st.st_mtime_ns, st.st_size)).encode())
    key = stamp.hexdigest()
    cache = os.path.join(LEAN, '.lake', 'audit.json')
    if os.path.exists(cache):
        try:
            c = json.load(open(cache))
            if c.get('key') == key:
                return c['theorems']
        except Exception:
            pass
    rc, out = sh(['lake', 'env', 'lean', 'PygProofs/Audit.lean'], cwd=LEAN)
    thms = {}
    for m in re.finditer(r'THEOREM (\S+) AXIOMS \[(.*?)\]', out):
        thms[m.group(1)] = [a.strip() for a in m.group(2).split(',') if a.strip()]
    if rc != 0:
        log['audit_error'] = out[-2000:]
    else:
        json.dump(dict(key=key, theorems=thms), open(cache, 'w'))
    return thms


def grep_forbidden():
    hits = []
    for root, dirs, files in os.walk(LEAN):
        dirs[:] = [d for d in dirs if d != '.lake']
        for f in files:
            if not f.endswith('.lean') or f == 'Audit.lean':
                continue
            path = os.path.join(root, f)
            text = open(path).read()
            # strip comments (block and line) before grepping
            text = re.sub(r'/-.*?-/', lambda m: '\n' * m.group(0).count('\n'), text, flags=re.S)
            for n, line in enumerate(text.split('\n'), 1):
                code = line.split('--')[0]
                if FORBIDDEN.search(code):
                    hits.append('%s:%d: %s' % (os.path.relpath(path, LEAN), n, line.strip()[:120]))
    return hits


def run_driver(lines, timeout=1800):
    """pipe protocol lines through the compiled model driver; one reply per line"""
    if not lines:
        return []
    if not os.path.exists(DRIVER):
        return None
    p = subprocess.run([DRIVER], input='\n'.join(lines) + '\n', stdout=subprocess.PIPE,
                       stderr=subprocess.PIPE, text=True, timeout=timeout)
    out = p.stdout.split('\n')
    if out and out[-1] == '':
        out.pop()
    if len(out) != len(lines):
        raise RuntimeError('driver returned %d replies for %d lines (rc=%s, stderr=%s)' %
                           (len(out), len(lines), p.returncode, p.stderr[-500:]))
    return out


# ------------------------------------------------------------------ implementation side

def run_impl_case(mod, case, timeout):
    """run all lines of a case on the implementation; fresh state per case"""
    state = mod.new_state() if hasattr(mod, 'new_state') else None
    replies = []
    for line in case['lines']:
        try:
            sx = proto.parse(line)
            r = with_timeout(lambda: mod.run_line(state, sx), timeout)
        except Timeout:
            r = 'timeout'
        except proto.Unencodable as e:
            r = 'unencodable ' + str(e)[:80]
        except RecursionError:
            r = 'err Other'
        except Exception as e:
            r = proto.err_reply(e)
        replies.append(r)
    return replies


# ------------------------------------------------------------------ known findings

def load_known():
    p = os.path.join(VERIF, 'known_findings.json')
    if not os.path.exists(p):
        return []
    return json.load(open(p)).get('findings', [])


def match_known(mod, finding, known):
    for k in known:
        if k.get('property') != mod.ID or k.get('status') != 'known':
            continue
        fn = getattr(mod, 'MATCHERS', {}).get(k.get('matcher'))
        try:
            if fn is not None and fn(finding):
                return k
        except Exception:
            pass
    return None


# ------------------------------------------------------------------ shrinking

def shrink_case(mod, case, still_fails, budget=300):
    """generic delta debugging on the s-expression structure of each line (drop elements of L/T/D nodes,
    drop lines of a history), keeping the failure"""
    if hasattr(mod, 'shrink'):
        try:
            return mod.shrink(case, still_fails)
        except Exception:
            pass
    best = case
    tries = [0]

    def candidates(sx, depth=0):
        if isinstance(sx, str):
            return
        head = sx[0] if sx and isinstance(sx[0], str) else None
        start = 1 if head in ('L', 'T', 'D') else 0
        if head in ('L', 'T', 'D'):
            for i in range(start, len(sx)):
                yield sx[:i] + sx[i + 1:]
        for i in range(len(sx)):
            for sub in candidates(sx[i], depth + 1):
                yield sx[:i] + [sub] + sx[i + 1:]

    improved = True
    while improved and tries[0] < budget:
        improved = False
        lines = best['lines']
        if len(lines) > 1 and not best.get('atomic'):
            for i in range(len(lines) - 1, -1, -1):
                cand = dict(best, lines=lines[:i] + lines[i + 1:])
                tries[0] += 1
                if cand['lines'] and still_fails(cand):
                    best, improved = cand, True
                    break
            if improved:
                continue
        for li, line in enumerate(lines):
            try:
                sx = proto.parse(line)
            except Exception:
                continue
            for cand_sx in candidates(sx):
                tries[0] += 1
                if tries[0] > budget:
                    break
                cand = dict(best, lines=lines[:li] + [proto.render(cand_sx)] + lines[li + 1:])
                try:
                    if still_fails(cand):
                        best, improved = cand, True
                        break
                except Exception:
                    pass
            if improved or tries[0] > budget:
                break
    return best


# ------------------------------------------------------------------ the check

def iter_laws(mod, rng, tier, ctx):
    """run the property's law checks; an exception escaping from them (the implementation returned something on which the
    statement cannot even be evaluated, e.g. a table that lost a column) is itself reported as a finding, not as a crash"""
    try:
        for f in mod.laws(rng, tier, ctx):
            yield f
    except Timeout:
        yield Finding('violation', dict(tag='law-timeout', lines=[]), 'a call made by the law checks did not return')
    except Exception as e:
        tb = traceback.format_exc().strip().split('\n')
        yield Finding('violation', dict(tag='law-exception', lines=[]),
                      'evaluating the property statement on the implementation\'s output raised %s: %s | %s' % (type(e).__name__, str(e)[:200], ' / '.join(t.strip() for t in tb[-6:-1])[:600]))


def evaluate_cases(mod, cases, timeout):
    """returns (findings, stats) for a list of cases"""
    findings = []
    impl_replies = [run_impl_case(mod, c, timeout) for c in cases]
    # a `timeout` reply is only believed when it repeats with three times the allowance (a cold cache / loaded machine
    # must not turn a slow first call into a "did not return")
    for k, (c, irs) in enumerate(zip(cases, impl_replies)):
        if 'timeout' in irs:
            impl_replies[k] = run_impl_case(mod, c, 3 * timeout)
    flat = [l for c in cases for l in ([ '(sys reset)' ] + c['lines'])]
    model_flat = run_driver(flat)
    stats = dict(lines=0, agree=0, bad_op=0, errors={}, tags={})
    compare = getattr(mod, 'compare', None)
    start = 0
    for c, irs in zip(cases, impl_replies):
        base = start + 1                 # model reply of this case's first line (after its reset line)
        start += 1 + len(c['lines'])     # per-case offsets: a finding that ends a case early never shifts later cases
        stats['tags'][c.get('tag', '')] = stats['tags'].get(c.get('tag', ''), 0) + 1
        pending = None
        for i, (line, ir) in enumerate(zip(c['lines'], irs)):
            mr = model_flat[base + i] if model_flat is not None else 'no-driver'
            stats['lines'] += 1
            if ir.startswith('err') or ir == 'timeout':
                stats['errors'][ir] = stats['errors'].get(ir, 0) + 1
            if mr == 'bad-op':
                stats['bad_op'] += 1
            if compare is not None:
                d = compare(c, i, line, ir, mr)
            else:
                d = None if proto.same_reply(ir, mr) else 'implementation and model replies differ'
            if d is None:
                stats['agree'] += 1
            else:
                kind = 'violation'
                if isinstance(d, tuple):
                    kind, d = d
                f = Finding(kind, c, 'line %d: %s' % (i, d), impl=irs, model=None)
                f.line_index = i
                f.model = mr
                if kind == 'violation':
                    pending = f          # the statement itself fails on this line: report it (rather than an earlier mere divergence)
                    break
                if pending is None:
                    pending = f          # a divergence: keep going, a later line of the history may show the statement failing
        if pending is not None:
            findings.append(pending)
    return findings, stats, impl_replies


def source_fingerprint(path):
    """sha1 of the token stream without comments, blank lines and layout (same function as tools/update_anchors.py)"""
    import tokenize, io
    try:
        src = open(path, 'rb').read()
        toks = []
        for t in tokenize.tokenize(io.BytesIO(src).readline):
            if t.type in (tokenize.COMMENT, tokenize.NL, tokenize.NEWLINE, tokenize.INDENT, tokenize.DEDENT, tokenize.ENCODING, tokenize.ENDMARKER):
                if t.type in (tokenize.INDENT, tokenize.DEDENT, tokenize.NEWLINE):
                    toks.append(tokenize.tok_name[t.type])
                continue
            toks.append(t.string)
        return hashlib.sha1('\x00'.join(toks).encode()).hexdigest()
    except Exception as e:
        return 'unreadable:' + type(e).__name__


def changed_anchors(pid):
    """anchored source files of the property that differ (comments and layout aside) from the state recorded in anchors.json"""
    try:
        rec = json.load(open(os.path.join(VERIF, 'anchors.json')))
        files = []
        for l in open(os.path.join(VERIF, 'properties.jsonl')):
            p = json.loads(l)
            if p['id'] == pid:
                files = p['anchors']['files']
        return [f for f in files if rec.get(f) != source_fingerprint(os.path.join(REPO, f))]
    except Exception:
        return []


def warm_up():
    """touch the lazily imported parts of the stack once, outside any alarm (first calls on a cold sandbox take seconds)"""
    try:
        import numpy, pandas, dateutil.parser, asyncio, inspect   # noqa: F401
        import pyg_base
        pyg_base.dt('2020-01-02')
        pyg_base.dt(2020, 1, 2)
        d = pyg_base.dictable(a=[1, 2], b=['x', None])
        d.sort('a')
        d.join(d, 'a')
        s = pandas.Series([1.0, numpy.nan], pandas.DatetimeIndex(['2020-01-01', '2020-01-02']))
        pyg_base.df_fillna(s, 'ffill')
        pyg_base.add_(s, s)
        pyg_base.drange(pyg_base.dt(2020, 1, 1), pyg_base.dt(2020, 1, 5), '1b')
    except Exception:
        pass


def run_check(pid, tier, seed, replay=None):
    t0 = time.time()
    mod = importlib.import_module('pv.props.' + pid.lower())
    log = {}
    rng = random.Random('%s-%s-%d' % (pid, tier, seed))
    timeout = getattr(mod, 'CALL_TIMEOUT', 5)
    broken, audit = sync_and_build(log, tier, pid)
    warm_up()

    # proof obligations of this property
    ns = 'Pyg.Props.%s.' % pid
    allthms = {k: v for k, v in audit.items() if k.startswith(ns)}
    # declarations Lean generates for a definition / inductive / structure inside the namespace (equation lemmas f.eq_1, C.inj,
    # C.sizeOf_spec, projections of a Prop structure ...) are axiom-audited like the rest but are not counted as property theorems
    thms = {k: v for k, v in allthms.items() if '.' not in k[len(ns):]}
    bad_axioms = {k: v for k, v in allthms.items() if not set(v) <= ALLOWED_AXIOMS}
    forbidden = grep_forbidden()
    obligations = len(thms)
    discharged = len(thms) - len(bad_axioms)
    my_broken = [b for b in broken if relevant(mod, pid, b)]
    for k, v in bad_axioms.items():
        my_broken.append(dict(kind='axioms', name=k, detail='depends on %s' % v))
    for h in forbidden:
        my_broken.append(dict(kind='forbidden-token', name=h, detail=h))
    if not thms and not my_broken:
        my_broken.append(dict(kind='lean', name=ns + '*', detail='no theorem found for this property'))

    out_lines = []
    findings = []
    all_stats = []

    # cases: replay | corpus + generated
    if replay:
        rj = json.load(open(replay))
        cases = [rj['case']] if rj.get('case') else []
        gen_cases = []
    else:
        cases = load_corpus(pid)
        gen_cases = list(mod.generate(rng, tier))
    ncorpus = len(cases)
    cases = cases + gen_cases
    f1, stats, impl_replies = evaluate_cases(mod, cases, timeout)
    findings.extend(f1)
    law_count = 0
    if hasattr(mod, 'laws') and not replay:
        for f in iter_laws(mod, rng, tier, dict(stats=stats)):
            if isinstance(f, Finding):
                findings.append(f)
            else:
                law_count += f  # an int: number of law instances checked
    known = load_known()

    def classify(fs):
        new_v, new_d, kn = [], [], {}
        for f in fs:
            k = match_known(mod, f, known)
            if k is not None:
                kn.setdefault(k['id'], (k, f))
            elif f.kind == 'violation':
                new_v.append(f)
            else:
                new_d.append(f)
        return new_v, new_d, kn

    new, divs, knowns = classify(findings)
    # the anchored source differs from the recorded state and nothing has been found yet: search harder (more generated
    # cases and the laws at thorough budget, up to BOOST_SECONDS).  This can only add findings, never an alarm by itself.
    changed = [] if replay else changed_anchors(pid)
    boost_cases = 0
    if changed and not new and not replay:
        t_boost = time.time()
        budget = float(os.environ.get('VERIF_BOOST_SECONDS', '90'))
        k = 0
        while not new and time.time() - t_boost < budget and k < 8:
            k += 1
            rngb = random.Random('%s-boost-%d-%d' % (pid, seed, k))
            extra = list(mod.generate(rngb, tier))
            boost_cases += len(extra)
            fb, _, _ = evaluate_cases(mod, extra, timeout)
            if hasattr(mod, 'laws') and not any(f.kind == 'violation' for f in fb):
                for f in iter_laws(mod, rngb, tier, dict(stats=stats)):
                    if isinstance(f, Finding):
                        fb.append(f)
            vb, db, kb = classify(fb)
            new.extend(vb)
            divs.extend(db)
            for kk, vv in kb.items():
                knowns.setdefault(kk, vv)
    # a broken obligation or an unexplained divergence -> focused search for a concrete failing input
    searched = 0
    if (my_broken or divs) and not new and not replay:
        rng2 = random.Random('%s-search-%d' % (pid, seed))
        extra = []
        for _ in range(10 if tier == 'quick' else 3):
            extra.extend(mod.generate(rng2, tier))
        searched = len(extra)
        f2, stats2, _ = evaluate_cases(mod, extra, timeout)
        if hasattr(mod, 'laws'):
            for f in iter_laws(mod, rng2, 'thorough', dict(stats=stats2, divergences=divs)):
                if isinstance(f, Finding):
                    f2.append(f)
                else:
                    searched += f
        v2, d2, k2 = classify(f2)
        new.extend(v2)
        divs.extend(d2)
        for kk, vv in k2.items():
            knowns.setdefault(kk, vv)
    for kid, (k, f) in sorted(knowns.items()):
        out_lines.append('KNOWN-FINDING: property=%s %s [%s]' % (pid, k['text'], kid))

    rc = 0
    os.makedirs(os.path.join(VERIF, 'replays'), exist_ok=True)

    def write_replay(rj):
        h = hashlib.sha1(json.dumps(rj, sort_keys=True, default=str).encode()).hexdigest()[:12]
        path = os.path.join('replays', '%s-%s.json' % (pid, h))
        json.dump(rj, open(os.path.join(VERIF, path), 'w'), indent=1, default=str)
        return path

    if new:
        # report the first few distinct ones, shrunk
        seen = set()
        for f in new:
            sig = (f.case.get('tag'), f.detail.split(':')[0])
            if sig in seen or len(seen) >= 3:
                continue
            seen.add(sig)

            def still_fails(c):
                ff, _, _ = evaluate_cases(mod, [c], timeout)
                return any(x.kind == 'violation' and match_known(mod, x, known) is None for x in ff)
            small = f.case
            g = f
            try:
                if f.case.get('lines') and not f.case.get('tag', '').startswith('law') and still_fails(f.case):
                    small = shrink_case(mod, f.case, still_fails)
                    ff, _, _ = evaluate_cases(mod, [small], timeout)
                    g = ff[0] if ff else f
            except Exception:
                small, g = f.case, f
            rj = dict(property=pid, tier=tier, seed=seed, case=small, shrunk_from=f.case if small is not f.case else None,
                      detail=g.detail, impl_output=g.impl, model_output=g.model,
                      statement_violated=getattr(mod, 'STATEMENT', mod.TITLE),
                      broken_obligation=my_broken or None,
                      replay_cmd='./check %s --replay <this file>' % pid)
            out_lines.append('VIOLATION property=%s replay=%s' % (pid, write_replay(rj)))
        rc = 1
    elif my_broken or divs:
        d0 = divs[0] if divs else None
        rj = dict(property=pid, tier=tier, seed=seed, case=d0.case if d0 else None,
                  broken_obligation=my_broken or None,
                  broken_correspondence=[dict(case=d.case, detail=d.detail, impl_output=d.impl, model_output=d.model) for d in divs[:10]] or None,
                  detail=('proof obligation / model-to-code correspondence no longer checks; the search over %d further cases '
                          'and law instances found no input on which the property statement itself fails' % searched),
                  log={k: (v if isinstance(v, (int, str)) else str(v)[:2000]) for k, v in log.items()})
        out_lines.append('VIOLATION property=%s replay=%s no-failing-input-found' % (pid, write_replay(rj)))
        rc = 1

    # evidence
    nontrivial = getattr(mod, 'nontrivial', lambda line, reply: reply.startswith('ok'))
    distinct = set()
    samples = []
    for c, irs in zip(cases, impl_replies):
        for line, r in zip(c['lines'], irs):
            if nontrivial(line, r):
                distinct.add(line)
        if len(samples) < 6 and c['lines']:
            samples.append(dict(tag=c.get('tag'), lines=c['lines'][:6], impl=irs[:6]))
    samples.append(dict(theorems=sorted(thms)[:40]))
    ev = dict(
        property_id=pid, tier=tier, seed=seed, level='proof',
        coverage=dict(
            obligations=obligations, discharged=discharged if not my_broken else max(0, discharged - len([b for b in my_broken if b['kind'] == 'lean'])),
            checker_cmd='cd lean && lake build && lake env lean PygProofs/Audit.lean   (kernel re-check in thorough: lake env leanchecker PygModel PygGen PygProofs)',
            trusted_base=['Lean 4.33 kernel', 'axioms: ' + ', '.join(sorted(set(a for v in thms.values() for a in v)) or ['none'])] + list(getattr(mod, 'TRUSTED', [])),
            theorems=sorted(k[len(ns):] for k in thms),
            evaluations=stats['lines'] + law_count, distinct_nontrivial=len(distinct),
            rule=getattr(mod, 'RULE', 'distinct protocol lines whose implementation reply is ok'),
            samples=samples, corpus_cases=ncorpus, generated_cases=len(gen_cases), law_instances=law_count,
            agree=stats['agree'], model_bad_op=stats['bad_op'], impl_error_kinds=stats['errors'],
            case_kinds=stats['tags'], broken_obligations=my_broken, known_findings=sorted(knowns),
            extra=getattr(mod, 'EXTRA', {}), anchored_source_changed=changed, boost_cases=boost_cases, leanchecker_rc=log.get('leanchecker_rc'), translator=log.get('translator'),
            exhaustive=bool(getattr(mod, 'EXHAUSTIVE', {}).get(tier, False))),
        assumptions=list(getattr(mod, 'ASSUMPTIONS', [])),
        wall_s=round(time.time() - t0, 2), violations=len(new) if new else (1 if (my_broken or divs) else 0))
    if not replay:
        # runs against a scratch copy of the code (seeded changes, mutants) write their evidence elsewhere: evidence/ describes /repo only
        evdir = os.environ.get('VERIF_EVIDENCE_DIR') or os.path.join(VERIF, 'evidence')
        os.makedirs(evdir, exist_ok=True)
        json.dump(ev, open(os.path.join(evdir, pid + '.json'), 'w'), indent=1, default=str)
    for l in out_lines:
        print(l)
    print('%s %s seed=%d: %d theorems (%d discharged), %d lines on %d cases, %d law instances, %d findings (%d known ids), %.1fs' %
          (pid, tier, seed, obligations, discharged, stats['lines'], len(cases), law_count, len(findings), len(knowns), time.time() - t0))
    return rc


def relevant(mod, pid, b):
    """is a broken build obligation relevant to this property?"""
    name = b.get('name', '')
    if b['kind'] == 'translation':
        return name in getattr(mod, 'GENERATED', [])
    deps = getattr(mod, 'LEAN_FILES', None)
    if deps is None:
        return True
    return any(d in name for d in deps) or ('Props/%s' % pid) in name


def load_corpus(pid):
    d = os.path.join(VERIF, 'corpus', pid)
    out = []
    if os.path.isdir(d):
        for f in sorted(os.listdir(d)):
            if f.endswith('.json'):
                try:
                    j = json.load(open(os.path.join(d, f)))
                    c = j.get('case', j)
                    if c and c.get('lines'):
                        c = dict(c, tag='corpus:' + c.get('tag', ''))
                        out.append(c)
                except Exception:
                    pass
    return out
