"""C09 - dt_bump adds business days, calendar units and compound tenors exactly."""
import datetime, calendar, bisect
from .. import proto
from ..proto import enc, hexs
from ..engine import Finding

ID = 'C09'
TITLE = 'dt_bump adds business days, calendar units and compound tenors exactly'
STATEMENT = ("dt_bump(t, 'nb') from a weekday is the n-th weekday after/before t, from a weekend day first rolls forward to Monday; lands on a "
             "weekday, monotone in t, same-sign bumps compose; d/w/h/n/s/int/timedelta add exactly; m/q/y at midnight keep the day of month or "
             "roll the excess into the following month; compound tenors apply left to right; +x then -x returns to t (fixed units, b from a "
             "weekday, m/q/y when day <= 28)")
LEAN_FILES = ['Basic', 'Greg', 'GenTypes', 'Bump', 'BumpDriver', 'PygGen', 'Sweep', 'GregLemmas', 'GregPeriod', 'BumpLemmas', 'MonthLemmas', 'TokenLemmas', 'BumpStrLemmas', 'C09']
GENERATED = ['PygGen.Ym', 'PygGen.BDay', 'PygGen.Tables']
RULE = ('distinct protocol lines (start instant, bump arguments) on which dt_bump returned a datetime different from the start instant, '
        'or a translator-grid line on which the python kernel returned a value')
TRUSTED = ['harness/pv/translate.py (python ast -> Lean, validated each run on the translator grid)',
           'correspondence harness (pv.engine, pv.proto) and generators of pv.props.c09',
           'Lean driver parser/printer (PygModel/Basic.lean, BumpDriver.lean)']
ASSUMPTIONS = ['CPython datetime: toordinal/fromordinal/weekday/field access/timedelta arithmetic behave as PygModel/Greg.lean (sampled on every line)',
               're: the period pattern matches sign, ASCII digits and one unit letter; str.lower on ASCII',
               'a leftover suffix after the last period token is not a time-zone name (generators keep away from tz names)',
               'time zones, relativedelta and timeseries arguments are not modelled']

D = datetime.datetime
TD = datetime.timedelta
TMIN, TMAX = D(1900, 1, 1), D(2300, 1, 1)
UNITS = 'dwmqyhnsb'
FIXED = 'dwhns'
MONTHLY = 'mqy'
US = {'d': 86400 * 10 ** 6, 'w': 7 * 86400 * 10 ** 6, 'h': 3600 * 10 ** 6, 'n': 60 * 10 ** 6, 's': 10 ** 6}
EXHAUSTIVE = {'thorough': True}
EXTRA = {}


# ------------------------------------------------------------------------------------------ generators

def special_days():
    """month ends, leap days, century years, year ends, every weekday"""
    out = []
    for y in (1900, 1901, 1904, 1999, 2000, 2001, 2024, 2096, 2100, 2104, 2199, 2200, 2296, 2299):
        for m in range(1, 13):
            last = calendar.monthrange(y, m)[1]
            for d in (1, 2, 15, 28, 29, 30, 31):
                if d <= last:
                    out.append(D(y, m, d))
    for k in range(14):
        out.append(D(2021, 3, 1) + TD(k))
    return out


def rand_day(rng):
    return TMIN + TD(rng.randrange((TMAX - TMIN).days))


def rand_tod(rng):
    r = rng.random()
    if r < 0.3:
        return TD(hours=rng.choice([0, 9, 12, 23]), minutes=rng.choice([0, 30, 59]))
    if r < 0.6:
        return TD(seconds=rng.randrange(86400))
    return TD(microseconds=rng.randrange(86400 * 10 ** 6))


def rand_n(rng):
    r = rng.random()
    if r < 0.5:
        return rng.randint(-12, 12)
    return rng.randint(-60, 60)


def tok(n, u, rng=None):
    s = '%d%s' % (n, u)
    if rng is not None:
        r = rng.random()
        if r < 0.08 and n >= 0:
            s = '+' + s
        elif r < 0.12:
            s = s.upper()
        elif r < 0.15:
            s = ('-0%d%s' % (-n, u)) if n < 0 else ('0%d%s' % (n, u))
    return s


def line(op, t, *bumps):
    parts = []
    for b in bumps:
        if isinstance(b, TD):
            # "timedeltas add exactly that much time": every fourth time the duration is a pd.Timedelta, every fourth a np.timedelta64
            # (numpy's timedelta, what a difference of np.datetime64 / an element of a timedelta64 array is): round k3, defect C09-D1
            k = (b.days + b.seconds + b.microseconds + len(parts) + t.day) % 4
            parts.append('(%s I:%d)' % ('Lpd' if k == 0 else 'Lnp' if k == 1 else 'L', b // proto.US))
        elif isinstance(b, int) and not isinstance(b, bool) and (b + len(parts) + t.day) % 3 == 0:
            # "integers add exactly n days": an integer is every third time a numpy int64 (an element of np.arange, of a Series of
            # lags): the wire spells it NI:, the model reads the same int (seeded C09-u2: timedelta(days = np.int64) raises)
            parts.append('NI:%d' % b)
        else:
            parts.append(enc(b))
    return '(bump %s %s%s)' % (op, enc(t), ''.join(' ' + p for p in parts))


# ---- round k3 (reviews4 v3 §C09.3-1): the start as another python object denoting the same instant, bumps as numpy / pandas durations and
# numpy ints of every width
KINDS_ANY = ['ts', 'np', 'iso']
KINDS_MIDNIGHT = ['date', 'npD', 'ymd', 'isod']
NP_TD_UNITS = [('us', 1), ('ms', 10 ** 3), ('s', 10 ** 6), ('m', 60 * 10 ** 6), ('h', 3600 * 10 ** 6), ('D', 86400 * 10 ** 6)]


def as_kind(kind, t):
    import numpy as np, pandas as pd
    if kind == 'ts':
        return pd.Timestamp(t)
    if kind == 'np':
        return np.datetime64(t, 'us')
    if kind == 'iso':
        return t.isoformat(' ')
    assert t == D(t.year, t.month, t.day), 'midnight only'
    if kind == 'date':
        return t.date()
    if kind == 'npD':
        return np.datetime64(t.date(), 'D')
    if kind == 'ymd':
        return t.year * 10000 + t.month * 100 + t.day
    if kind == 'isod':
        return t.strftime('%Y-%m-%d')
    raise ValueError(kind)


def line_as(rng, t, *bumps):
    """(bump bumpas <kind> T:.. <bumps>): start as an object of `kind`; timedeltas now and then as pd.Timedelta / np.timedelta64, ints as numpy ints"""
    mid = t == D(t.year, t.month, t.day)
    kind = rng.choice(KINDS_ANY + (KINDS_MIDNIGHT * 2 if mid else []))
    parts = []
    for b in bumps:
        if isinstance(b, TD):
            parts.append('(%s I:%d)' % (rng.choice(['L', 'Lpd', 'Lnp']), b // proto.US))
        elif isinstance(b, int) and not isinstance(b, bool):
            # (review5 w3 §2-4: since e030b7f is_int admits np.longlong and the unsigned kinds too)
            ws = (['int8'] if -128 <= b <= 127 else []) + ['int16', 'int32', 'int64', 'longlong']
            ws += ((['uint8'] if b <= 255 else []) + ['uint16', 'uint32', 'uint64', 'ulonglong']) if b >= 0 else []
            w = rng.choice(ws)
            parts.append('(NPI %s I:%d)' % (w, b) if rng.random() < 0.6 else enc(b))
        else:
            parts.append(enc(b))
    return '(bump bumpas %s %s%s)' % (kind, enc(t), ''.join(' ' + p for p in parts))


def generate(rng, tier):
    for case in _generate(rng, tier):
        yield case
    quick = tier == 'quick'
    for _ in range(600 if quick else 12000):
        t = TMIN + TD(rng.randrange((D(2250, 1, 1) - TMIN).days))     # Timestamps: inside pandas' nanosecond range after the bump
        r = rng.random()
        if r < 0.45:
            u = rng.choice(UNITS)
            if u not in MONTHLY and rng.random() < 0.4:
                t = t + rand_tod(rng)
            yield dict(tag='objects-unit-%s' % u, lines=[line_as(rng, t, tok(rand_n(rng), u, rng))])
        elif r < 0.6:
            us = [rng.choice(UNITS) for _ in range(rng.choice([2, 3]))]
            yield dict(tag='objects-compound', lines=[line_as(rng, t, ''.join(tok(rand_n(rng), u) for u in us))])
        else:
            if rng.random() < 0.5:
                t = t + rand_tod(rng)
            bs = []
            for _ in range(rng.choice([1, 1, 2, 3])):
                if rng.random() < 0.5:
                    bs.append(rng.randint(-60, 60))
                else:
                    bs.append(TD(days=rng.randint(-3, 3), seconds=rng.randrange(86400), microseconds=rng.choice([0, 1, 999999])) * rng.choice([1, -1]))
            yield dict(tag='objects-args', lines=[line_as(rng, t, *bs)])


def _generate(rng, tier):
    quick = tier == 'quick'
    # --- translator validation grid: generated kernels against the python functions
    for y in (1900, 2000, 2299):
        for m in range(-36, 49):
            yield dict(tag='grid-ym', lines=['(bump ym I:%d I:%d)' % (y, m)])
    for wd in range(7):
        for n in range(-60, 61):
            yield dict(tag='grid-boff', lines=['(bump boff I:%d I:%d)' % (wd, n)])
    ymd_grid = [(y, m, d) for y in (1900, 1999, 2000, 2100, 2299) for m in (-36, -13, -12, -1, 0, 1, 2, 3, 11, 12, 13, 24, 25, 48)
                for d in (-400, -366, -31, -1, 0, 1, 28, 29, 30, 31, 32, 60, 366, 400)]
    ymd_grid += [(5, 6, 2000), (31, 12, 1999), (32, 1, 2000), (0, 1, 2000), (1, 1, 1), (9999, 12, 31), (9999, 12, 32), (10000, 1, 1), (2000, 1, 1501)]
    for (y, m, d) in ymd_grid:
        yield dict(tag='grid-ymd', lines=['(bump ymd I:%d I:%d I:%d)' % (y, m, d)])
    # --- every unit from special days, n over the whole claimed range
    days = special_days()
    if quick:
        days = rng.sample(days, 150)
    for t in days:
        for u in UNITS:
            for n in ([0, 1, -1] + [rand_n(rng) for _ in range(2 if quick else 6)]):
                yield dict(tag='unit-%s' % u, lines=[line('bump', t, tok(n, u))])
    # --- random days x units, intraday for the fixed and business-day units
    for _ in range(4000 if quick else 40000):
        u = rng.choice(UNITS)
        t = rand_day(rng)
        intraday = u not in MONTHLY and rng.random() < 0.5
        if intraday:
            t = t + rand_tod(rng)
        yield dict(tag='unit-%s%s' % (u, '-intraday' if intraday else ''), lines=[line(rng.choice(['bump', 'bump', 'dt']), t, tok(rand_n(rng), u, rng))])
    # month-based units away from midnight: outside the claim (the code resets the time of day), model follows the code
    for _ in range(60 if quick else 1500):
        t = rand_day(rng) + rand_tod(rng)
        yield dict(tag='monthly-intraday', lines=[line('bump', t, tok(rand_n(rng), rng.choice(MONTHLY)))])
    # --- compound tenors (2 and 3 parts), several bump arguments, ints, timedeltas, named tenors
    for _ in range(2500 if quick else 25000):
        k = rng.choice([2, 2, 3])
        t = rand_day(rng)
        us = [rng.choice(UNITS) for _ in range(k)]
        if all(u not in MONTHLY for u in us) and rng.random() < 0.5:
            t = t + rand_tod(rng)
        s = ''.join(tok(rand_n(rng), u, rng) for u in us)
        yield dict(tag='compound-%d' % k, lines=[line(rng.choice(['bump', 'dt']), t, s)])
    for _ in range(250 if quick else 6000):
        t = rand_day(rng) + (rand_tod(rng) if rng.random() < 0.5 else TD(0))
        bs = []
        for _ in range(rng.choice([1, 2, 3])):
            r = rng.random()
            if r < 0.3:
                bs.append(rng.randint(-60, 60))
            elif r < 0.6:
                bs.append(TD(days=rng.randint(-3, 3), seconds=rng.randrange(86400), microseconds=rng.choice([0, 1, 999999])) * rng.choice([1, -1]))
            elif r < 0.8:
                bs.append(tok(rand_n(rng), rng.choice(FIXED + 'b'), rng))
            else:
                bs.append(rng.choice(['spot', 'on', 'o/n', 'tn', 't/n', 'sn', 's/n', 'SPOT', 'O/N', 'Tn']))
        yield dict(tag='args', lines=[line(rng.choice(['bump', 'dt']), t, *bs)])
    for name in ['spot', 'on', 'o/n', 'tn', 't/n', 'sn', 's/n']:
        for k in range(7):
            yield dict(tag='named', lines=[line('bump', D(2022, 10, 17) + TD(k), name)])
    # --- dt(bump): relative to today's midnight (the clock `_dates.today` is pinned to the instant in the line, see run_line)
    for _ in range(600 if quick else 8000):
        today = rand_day(rng)
        r = rng.random()
        if r < 0.55:
            s = tok(rand_n(rng), rng.choice(UNITS), rng)
        elif r < 0.85:
            s = ''.join(tok(rand_n(rng), rng.choice(UNITS), rng) for _ in range(rng.choice([2, 3])))
        else:
            s = rng.choice(['spot', 'o/n', 'tn', 'SN', '1x', 'b', '-b', 'jan', ''])      # not a period: dt() goes to the date parser (C04)
        yield dict(tag='dt-today', lines=[line('dtrel', today, s)])
    # --- text the tokenizer must reject or treat specially
    # '+0b' / '-0b' / '+0B' (and a '+' in front of any count) from a weekend day and a weekday: both roll forward to Monday (review t3 §C09 gap)
    for t in (D(2020, 2, 29), D(2020, 3, 1), D(2020, 3, 2), D(2020, 2, 29, 23, 59, 59, 999999)):
        for s in ('+0b', '-0b', '+0B', '-00b', '+1b', '+01B', '+0d', '-0m'):
            yield dict(tag='signed-zero', lines=[line('bump', t, s)])
    for s in ['', '1x', '5', 'b', '-b', '1d2', '1d 2d', '--1d', '1.5d', 'd1', '1dd', '3b-', '+-1d', '1e', '2 b']:
        yield dict(tag='malformed', lines=[line('bump', D(2020, 2, 28), s)])
    # --- leftover text after the last token.  (a) junk that no time-zone name can be (pytz names are letters, digits, / _ - +): the
    #     parts are applied, then ValueError (theorem tenor_then_leftover) - unless a part raised first.  (b) zone names: OUTSIDE the
    #     property and the model (the code converts to that zone; which names exist depends on pytz and on today's date): sampled for
    #     the record, the model's ValueError is not compared with a tz-aware reply.
    for _ in range(60 if quick else 600):
        t = rand_day(rng) + (rand_tod(rng) if rng.random() < 0.5 else TD(0))
        s = ''.join(tok(rand_n(rng), rng.choice(FIXED + 'b'), rng) for _ in range(rng.choice([1, 2])))
        junk = rng.choice(['#', '!', '?', ',', ' ', '1d,', '#utc', ' utc', ' est', '(', '1', '2 d', '@london', '1d!', '.']) + rng.choice(['', '', 'x', '1d'])
        yield dict(tag='leftover-junk', lines=[line('bump', t, s + junk)])
    # unit TYPOS are in this class too: '1min' is '1m' + zone 'in' (Asia/Kolkata): one month later, tz-aware, time of day changed (review t3 §C09)
    for z in ['utc', 'UTC', 'est', 'EST', 'london', 'London', 'gmt', 'Europe/London', 'new york', 'DE', 'cet', 'tokyo', 'xyz', 'q', 'zz',
              'in', 'IN', 'fr', 'jp', 'us', 'ay', 'on']:
        t = rand_day(rng) + rand_tod(rng)
        yield dict(tag='tz-suffix', lines=[line('bump', t, tok(rand_n(rng), rng.choice('dbh'), rng) + z)])
    # --- range ends
    for t, s in [(D(9999, 12, 1), '1m'), (D(9999, 12, 31), '1d'), (D(1, 1, 1), '-1d'), (D(1, 1, 5), '-1m'), (D(1, 3, 1), '-1y'),
                 (D(9999, 1, 1), '1y'), (D(9000, 1, 1), '60y'), (D(1, 1, 2), '-3b'), (D(1, 1, 3), '-1b'), (D(9999, 12, 31, 23), '1h')]:
        yield dict(tag='range-end', lines=[line('bump', t, s)])
    # the business-day block constructs up to three datetimes; each can raise OverflowError although the final date exists
    # (0001-01-03 '-1b': t - 7 days).  The model walks the generated path Gen.bOffPath; outside the claimed years, must still agree.
    ends = [D(1, 1, 1) + TD(k) for k in range(12)] + [D(9999, 12, 31) - TD(k) for k in range(12)]
    for t in ends:
        for n in (list(range(-12, 13)) if quick else list(range(-25, 26))):
            yield dict(tag='range-end-b', lines=[line('bump', t + (TD(hours=23, minutes=59) if n % 3 == 0 else TD(0)), '%db' % n)])
    if not quick:
        # every start day of the 1900-2300 cycle, a few (unit, n) each
        t = TMIN
        while t < TMAX:
            for _ in range(3):
                yield dict(tag='all-days', lines=[line('bump', t, tok(rng.randint(-60, 60), rng.choice(UNITS)))])
            t += TD(1)


# ------------------------------------------------------------------------------------------ implementation runner

def dec_bump(a):
    if isinstance(a, list):
        if a[0] == 'NPI' and len(a) == 3:
            import numpy as np
            v = getattr(np, a[1])(int(a[2][2:]))
            assert int(v) == int(a[2][2:])
            return v
        if a[0] not in ('L', 'Lpd', 'Lnp') or len(a) != 2:
            raise ValueError('bad bump argument')
        us = int(a[1][2:])
        if a[0] == 'Lpd':
            import pandas as pd
            return pd.Timedelta(microseconds=us)
        if a[0] == 'Lnp':
            import numpy as np
            unit, k = [(u, k) for u, k in NP_TD_UNITS if us % k == 0][-1]      # the coarsest unit that holds the duration exactly
            return np.timedelta64(us // k, unit)
        return TD(microseconds=us)
    return proto.dec_cell(a)


def as_datetime(res):
    return res.to_pydatetime() if hasattr(res, 'to_pydatetime') else res


def run_line(state, sx):
    import pyg_base
    from pyg_base import _dates
    op, args = sx[1], sx[2:]
    if op == 'bumpas':
        t = as_kind(args[0], proto.dec_cell(args[1]))
        bs = [dec_bump(a) for a in args[2:]]
        res = pyg_base.dt_bump(t, *bs)
        if not isinstance(res, datetime.datetime) or res.tzinfo is not None:
            return 'ok S:' + hexs(repr(res))
        if hasattr(res, 'nanosecond') and res.nanosecond:
            return 'ok S:' + hexs(repr(res))
        return 'ok ' + enc(as_datetime(res))
    if op in ('bump', 'dt'):
        t = proto.dec_cell(args[0])
        bs = [dec_bump(a) for a in args[1:]]
        res = pyg_base.dt_bump(t, *bs) if op == 'bump' else pyg_base.dt(t, *bs)
        if not isinstance(res, datetime.datetime) or res.tzinfo is not None:
            return 'ok S:' + hexs(repr(res))
        return 'ok ' + enc(res)
    if op == 'dtrel':
        t = proto.dec_cell(args[0])
        s = proto.dec_cell(args[1])
        if not _dates.is_period(s):
            return 'ok N'                       # dt(<other text>) is the date parser's business (C04), not a bump
        saved = _dates.today
        _dates.today = lambda date=None: (t if date is None else saved(date))      # pin the clock: dt(0) = today() + 0 days
        try:
            if pyg_base.dt(0) != t:
                raise AssertionError('dt(0) does not read _dates.today')
            res = pyg_base.dt(s)
        finally:
            _dates.today = saved
        if not isinstance(res, datetime.datetime) or res.tzinfo is not None:
            return 'ok S:' + hexs(repr(res))
        return 'ok ' + enc(res)
    if op == 'ym':
        y, m = _dates.ym(int(args[0][2:]), int(args[1][2:]))
        return 'ok (T I:%d I:%d)' % (y, m)
    if op == 'ymd':
        return 'ok ' + enc(_dates._ymd(int(args[0][2:]), int(args[1][2:]), int(args[2][2:])))
    if op == 'boff':
        wd, n = int(args[0][2:]), int(args[1][2:])
        t0 = D(2001, 1, 1) + TD(wd)                  # 2001-01-01 is a Monday
        assert t0.weekday() == wd
        r = pyg_base.dt_bump(t0, '%db' % n) - t0
        if r.seconds or r.microseconds:
            raise AssertionError('business-day bump changed the time of day')
        return 'ok I:%d' % r.days
    return 'bad-op'


def in_claim(case):
    tag = case.get('tag', '').replace('corpus:', '')
    return not (tag in ('malformed', 'range-end', 'range-end-b', 'monthly-intraday', 'leftover-junk', 'tz-suffix'))


def compare(case, i, line, ir, mr):
    if proto.same_reply(ir, mr):
        return None
    if case.get('tag', '').replace('corpus:', '') == 'tz-suffix' and mr == 'err ValueError' and ir.startswith('ok S:'):
        return None       # the leftover is a zone name the code knows today: a tz-aware result, outside the model (see PygModel/Bump.lean)
    msg = 'implementation %s, model %s' % (ir, mr)
    if not in_claim(case):
        return ('divergence', msg)
    return msg


def nontrivial(line, reply):
    if not reply.startswith('ok'):
        return False
    sx = proto.parse(line)
    if sx[1] in ('bump', 'dt', 'dtrel'):
        return reply != 'ok ' + sx[2] and reply != 'ok N'
    if sx[1] == 'bumpas':
        return reply != 'ok ' + sx[3]
    return True


# ------------------------------------------------------------------------------------------ laws on the implementation

_WEEKDAYS = None


def weekdays():
    """ordinals of all Monday-Friday days in a generous window (independent reference: datetime.date.weekday)"""
    global _WEEKDAYS
    if _WEEKDAYS is None:
        lo, hi = D(1899, 1, 1).toordinal(), D(2301, 1, 1).toordinal()
        _WEEKDAYS = [o for o in range(lo, hi) if (o + 6) % 7 < 5]
        assert datetime.date.fromordinal(_WEEKDAYS[0]).weekday() < 5
    return _WEEKDAYS


def ref_b(t, n):
    """the property's reading of 'nb', counted DAY BY DAY with datetime.weekday(): from a Saturday / Sunday first step forward
    to Monday, then walk |n| weekdays forward (n > 0) or backward (n < 0), one calendar day at a time; the time of day is kept.
    (For n < 0 from a weekend day this is also the |n|-th weekday before t itself - no weekday lies between t and that Monday -
    see ref_b_plain and the theorem b_weekend_bwd.)"""
    d = t
    while d.weekday() >= 5:
        d = d + TD(1)
    step = TD(1) if n > 0 else TD(-1)
    k = abs(n)
    while k:
        d = d + step
        if d.weekday() < 5:
            k -= 1
    return d


def ref_b_plain(t, n):
    """'the n-th weekday after / before t' read with NO roll: walk from t itself.  Agrees with dt_bump from a weekday (all n) and
    from a weekend day for n < 0; from a weekend day and n >= 0 the property's roll makes dt_bump one weekday later (n+1-th)."""
    d, k, step = t, abs(n), (TD(1) if n > 0 else TD(-1))
    while k:
        d = d + step
        if d.weekday() < 5:
            k -= 1
    return d


def ref_b_table(t, n):
    """the same through a table of weekday ordinals (fast; used for the exhaustive sweep next to a day-by-day walk)"""
    W = weekdays()
    o = t.toordinal()
    i = bisect.bisect_left(W, o)          # first weekday >= o  (o itself on a weekday, next Monday on a weekend)
    return t + TD(W[i + n] - o)


def walk_refs(t, nmax):
    """{n: n-th weekday from t (after the roll)} for all |n| <= nmax by ONE day-by-day walk in each direction"""
    d = t
    while d.weekday() >= 5:
        d = d + TD(1)
    out = {0: d}
    for step, sign in ((TD(1), 1), (TD(-1), -1)):
        x, k = d, 0
        while k < nmax:
            x = x + step
            if x.weekday() < 5:
                k += 1
                out[sign * k] = x
    return out


def ref_month(t, months):
    """keep the day of month when it exists, else roll the excess days into the following month"""
    y, m = t.year + (t.month - 1 + months) // 12, (t.month - 1 + months) % 12 + 1
    last = calendar.monthrange(y, m)[1]
    if t.day <= last:
        return D(y, m, t.day)
    y2, m2 = (y, m + 1) if m < 12 else (y + 1, 1)
    return D(y2, m2, t.day - last)


def laws(rng, tier, ctx):
    import pyg_base
    bump = pyg_base.dt_bump
    quick = tier == 'quick'
    count = 0

    def bad(tag, lines, detail, atomic=True):
        return Finding('violation', dict(tag=tag, lines=lines, atomic=atomic), detail)

    def call(t, *bs):
        try:
            return bump(t, *bs)
        except Exception as e:
            return 'raise ' + type(e).__name__

    # ---- business days: every start day (thorough) / a stratified sample (quick), all n in [-60, 60]
    if quick:
        starts = special_days()[::7] + [rand_day(rng) for _ in range(150)] + [D(2021, 3, 1) + TD(k) for k in range(7)]
        ns = list(range(-12, 13)) + [rng.randint(-60, 60) for _ in range(10)] + [-60, 60]
    else:
        starts = [TMIN + TD(k) for k in range((TMAX - TMIN).days)]
        ns = list(range(-60, 61))
    for t in starts:
        tt = t + rand_tod(rng) if rng.random() < 0.3 else t
        refs = walk_refs(tt, 60)            # one day-by-day walk per direction gives every n
        for n in ns:
            count += 1
            r = call(tt, '%db' % n)
            want = refs[n]
            if quick and want != ref_b(tt, n):
                raise AssertionError('reference walks disagree')
            if r != want:
                yield bad('law-b-nth', [line('bump', tt, '%db' % n)], "dt_bump(t,'%db') = %s, the %d-th weekday (counted day by day) is %s" % (n, r, n, want))
                break
            # the plain reading "n-th weekday before/after t itself" (no roll): equal from a weekday and for n < 0 from a weekend
            if n != 0 and (tt.weekday() < 5 or n < 0):
                count += 1
                if r != ref_b_plain(tt, n):
                    yield bad('law-b-nth-plain', [line('bump', tt, '%db' % n)], "dt_bump(t,'%db') = %s, the %d-th weekday from t itself is %s" % (n, r, n, ref_b_plain(tt, n)))
                    break
    # ---- monotone in t (day level and intraday), composition, inverse
    m = 8000 if quick else 60000
    for _ in range(m):
        n = rand_n(rng)
        t1 = rand_day(rng) + rand_tod(rng)
        t2 = t1 + TD(days=rng.choice([0, 0, 1, 1, 2, 3, 5]), seconds=rng.randrange(86400))
        if rng.random() < 0.25:                 # aim at the weekend roll: t1 on Sat/Sun, t2 up to the Tuesday after, any times of day
            sat = rand_day(rng)
            sat = sat + TD((5 - sat.weekday()) % 7)
            t1 = sat + TD(rng.choice([0, 1])) + rand_tod(rng)
            t2 = sat + TD(rng.choice([0, 1, 2, 3])) + rand_tod(rng)
            if t2 < t1:
                t1, t2 = t2, t1
        s = '%db' % n
        r1, r2 = call(t1, s), call(t2, s)
        count += 1
        if isinstance(r1, str) or isinstance(r2, str) or r1 > r2:
            yield bad('law-b-mono-intraday', [line('bump', t1, s), line('bump', t2, s)], 't1 <= t2 but dt_bump(t1) = %s > dt_bump(t2) = %s' % (r1, r2))
        elif k3_class(t1, t2):
            # theorem b_mono_iff: inside this class the images ARE reversed; if the code does not reverse them it is not the code the theorem is about
            yield bad('law-b-mono-class', [line('bump', t1, s), line('bump', t2, s)], 'inside the K3 class (b_mono_iff) but the images are not reversed: %s <= %s' % (r1, r2))
        d1, d2 = D(t1.year, t1.month, t1.day), D(t2.year, t2.month, t2.day)
        r1, r2 = call(d1, s), call(d2, s)
        count += 1
        if isinstance(r1, str) or isinstance(r2, str) or r1 > r2:
            yield bad('law-b-mono-day', [line('bump', d1, s), line('bump', d2, s)], 'day1 <= day2 but images are reversed: %s > %s' % (r1, r2))
        # composition of same-sign bumps from a weekday
        a, b = abs(rand_n(rng)), abs(rand_n(rng))
        if rng.random() < 0.5:
            a, b = -a, -b
        if t1.weekday() < 5:
            count += 1
            x, y = call(call(t1, '%db' % a), '%db' % b), call(t1, '%db' % (a + b))
            if x != y:
                yield bad('law-b-compose', [line('bump', t1, '%db' % a, '%db' % b), line('bump', t1, '%db' % (a + b))], "'%db' then '%db' = %s but '%db' = %s" % (a, b, x, a + b, y))
            count += 1
            x = call(call(t1, '%db' % n), '%db' % (-n))
            if x != t1:
                yield bad('law-b-inverse', [line('bump', t1, '%db' % n, '%db' % (-n))], "+%db then -%db from a weekday gives %s" % (n, n, x))
        # fixed-length units are exact and invertible
        u = rng.choice(FIXED)
        count += 2
        x = call(t1, '%d%s' % (n, u))
        if x != t1 + TD(microseconds=US[u] * n):
            yield bad('law-fixed', [line('bump', t1, '%d%s' % (n, u))], "'%d%s' added %s" % (n, u, x - t1 if not isinstance(x, str) else x))
        elif call(x, '%d%s' % (-n, u)) != t1:
            yield bad('law-fixed-inverse', [line('bump', t1, '%d%s' % (n, u), '%d%s' % (-n, u))], 'not inverse')
        count += 2
        if call(t1, n) != t1 + TD(n) or call(t1, t2 - t1) != t2:
            yield bad('law-int-timedelta', [line('bump', t1, n), line('bump', t1, t2 - t1)], 'int / timedelta bump is not exact')
        # month / quarter / year at midnight
        u = rng.choice(MONTHLY)
        k = {'m': 1, 'q': 3, 'y': 12}[u]
        count += 1
        x, want = call(d1, '%d%s' % (n, u)), ref_month(d1, k * n)
        if x != want:
            yield bad('law-month', [line('bump', d1, '%d%s' % (n, u))], "'%d%s' from %s gives %s, keep-or-roll gives %s" % (n, u, d1.date(), x, want))
        if d1.day <= 28:
            count += 1
            back = call(x, '%d%s' % (-n, u))
            if back != d1:
                yield bad('law-month-inverse', [line('bump', d1, '%d%s' % (n, u), '%d%s' % (-n, u))], 'day <= 28 but +%d%s then -%d%s gives %s' % (n, u, n, u, back))
        # compound tenors apply their parts left to right
        parts = [(rand_n(rng), rng.choice(UNITS)) for _ in range(rng.choice([2, 3]))]
        t0 = d1 if any(p[1] in MONTHLY for p in parts) else t1
        s = ''.join('%d%s' % p for p in parts)
        x = call(t0, s)
        y = t0
        for p in parts:
            y = call(y, '%d%s' % p) if not isinstance(y, str) else y
        count += 1
        if x != y:
            yield bad('law-compound', [line('bump', t0, s), line('bump', t0, *['%d%s' % p for p in parts])], "'%s' gives %s, part by part %s" % (s, x, y))
    # ---- dt(t, bump) and dt(bump) relative to today agree with dt_bump
    for _ in range(300 if quick else 3000):
        n, u = rand_n(rng), rng.choice(UNITS)
        s = tok(n, u, rng) if rng.random() < 0.7 else tok(n, u, rng) + tok(rand_n(rng), rng.choice(UNITS), rng)
        t0 = pyg_base.dt(0)
        x = pyg_base.dt(s)
        k = rng.randint(-60, 60)
        xi = pyg_base.dt(k)
        if pyg_base.dt(0) == t0:        # not across midnight
            count += 2
            if x != bump(t0, s):
                yield bad('law-dt-today', [line('bump', t0, s)], "dt('%s') = %s but dt_bump(today, '%s') = %s" % (s, x, s, bump(t0, s)))
            if xi != bump(t0, k) or xi != t0 + TD(k):
                yield bad('law-dt-today', [line('bump', t0, k)], "dt(%d) = %s but today + %d days = %s" % (k, xi, k, t0 + TD(k)))
        # dt(t, b1, b2, ...) = dt_bump(t, b1, b2, ...) = dt_bump(dt_bump(t, b1), b2) ...
        t1 = rand_day(rng) + (rand_tod(rng) if rng.random() < 0.5 else TD(0))
        bs = []
        for _ in range(rng.choice([1, 2, 3])):
            r = rng.random()
            bs.append(rng.randint(-60, 60) if r < 0.25 else TD(seconds=rng.randrange(-86400 * 3, 86400 * 3)) if r < 0.45 else tok(rand_n(rng), rng.choice(FIXED + 'b'), rng))
        count += 1
        a, b = pyg_base.dt(t1, *bs), call(t1, *bs)
        c = t1
        for x in bs:
            c = call(c, x) if not isinstance(c, str) else c
        if not (a == b == c):
            yield bad('law-dt-args', [line('dt', t1, *bs), line('bump', t1, *bs)], 'dt(t, *bumps) = %s, dt_bump(t, *bumps) = %s, one by one %s' % (a, b, c))
    yield count


def _sx_time(a):
    return proto.dec_cell(a)


def k3_class(t1, t2):
    """the exact failure set of monotonicity proved as Pyg.Props.C09.b_mono_iff: t1 <= t2, t1 on a Saturday / Sunday, t2 not
    later than the Monday following t1, and t2 has the earlier time of day"""
    tod = lambda t: t - D(t.year, t.month, t.day)
    monday_after = t1.toordinal() + (7 - t1.weekday())
    return t1 <= t2 and t1.weekday() >= 5 and t2.toordinal() <= monday_after and tod(t2) < tod(t1)


def k3_intraday(f):
    """K3: the earlier instant lies on a Saturday/Sunday and has the later time of day; the weekend roll keeps the time of
    day, so its image lands later on the same Monday-based day than the image of the later instant"""
    if f.case.get('tag', '').replace('corpus:', '') != 'law-b-mono-intraday' or len(f.case['lines']) != 2:
        return False
    a, b = [proto.parse(l) for l in f.case['lines']]
    if a[1] != 'bump' or b[1] != 'bump' or len(a) != 4 or len(b) != 4 or a[3] != b[3]:
        return False
    s = proto.dec_cell(a[3])
    if not (isinstance(s, str) and s.endswith('b') and s[:-1].lstrip('-').isdigit()):
        return False                      # one '<n>b' bump, the same on both lines
    return k3_class(_sx_time(a[2]), _sx_time(b[2]))


MATCHERS = {'k3_intraday': k3_intraday}
