"""C15 - tree flatten/rebuild are inverse; tree_update is a non-destructive deep merge.

Protocol (model name tree, see lean/PygModel/TreeDriver.lean; op `updateh` runs the heap model PygModel/TreeHeap.lean).  Trees travel as nested `(D ..)` values; the runner builds
them in a chosen class (dict / Dict / dictattr), takes deep snapshots of both operands before a call and re-reads them
afterwards (`mutated ...` replies), and checks `type(result)`.
tree_to_table / table_to_tree are modelled (PygModel/TreeTable.lean, ops totable / totree) and compared on every run; their inverse law is
proved about the model in both directions (table_tree_inverse, tree_table_inverse) and checked on the implementation (laws) and by correspondence.
"""
import copy as _copy
from .. import proto
from ..proto import enc
from ..engine import Finding

ID = 'C15'
TITLE = 'tree flatten/rebuild are inverse; tree_update is a non-destructive deep merge'
LEAN_FILES = ['Basic', 'USet', 'Tree', 'TreeHeap', 'TreeTable', 'TreeDriver', 'USetLemmas', 'TreeLemmas', 'TreeMerge', 'TreeHeapLemmas', 'TreeHeapAbs', 'TreeTableLemmas', 'TreeTableInv', 'TreeTableRows', 'C15']
RULE = 'distinct protocol lines on non-empty trees on which the implementation returned a value (or the KeyError/TypeError/ValueError the model predicts)'
TRUSTED = ['correspondence harness (pv.engine, pv.proto), generators and deep snapshots of pv.props.c15',
           'Lean driver parser/printer (PygModel/Basic.lean, TreeDriver.lean)']
ASSUMPTIONS = ['python dict semantics (insertion order; d[k]=v overwrites in place or appends) as DA.lookup / DA.set',
               'the class of the tree (dict / Dict / dictattr) is not modelled except for the dotted-path fallback of dictattr / Dict item access (Tree.getItemC): the runner checks type(result) is type(tree) and, for tree_setitem / tree_update / table_to_tree results, that every branch inside has the class it must have (a copy of a branch of t keeps its class, a new branch gets the class of the root)',
               'key ORDER of every mapping in a reply is compared (an order-only difference is reported as a divergence: python == and the statement ignore it, the theorems state ordered equality)',
               'str.split(\'.\') is String.splitOn "." (string forms of tree_getitem / tree_setitem are split by the driver)',
               'leaves are None / ints / strings / lists; the ignore list holds None and strings (in_ uses eq, modelled as equality)',
               'aliasing of leaf objects between operands and result is not modelled (only dict nodes are snapshotted deeply)',
               'tree_to_table / table_to_tree: modelled and sampled (ops totable / totree); the inverse law is proved about the model in both directions (table_tree_inverse: rows with distinct paths and non-dict leaves, patterns of >= 2 segments; tree_table_inverse: additionally distinct wildcard names) and checked on the implementation as a law; dictable(tree, pattern) not modelled']

KEYS = ['a', 'b', 'c', 'd', 'a.b', 'b.a']      # dotted keys are ordinary string keys (dictattr's dotted-path fallback must not be triggered by them)
LEAVES = [None, 0, 1, 2, 'x', 'y', [1, 2], [], 'a']


def rand_tree(rng, depth, allow_empty=False, keys=KEYS):
    n = rng.choice([1, 1, 2, 2, 3]) if not allow_empty else rng.choice([0, 1, 2, 3])
    t = {}
    for k in rng.sample(keys, min(n, len(keys))):
        if depth > 0 and rng.random() < 0.5:
            sub = rand_tree(rng, depth - 1, allow_empty and rng.random() < 0.5, keys)
            t[k] = sub
        else:
            t[k] = rng.choice(LEAVES)
    return t


def rand_update(rng, t, depth=3):
    """an update overlapping t: shared branches, leaf-vs-branch conflicts in both directions, new keys, equal leaves"""
    u = {}
    for k, v in t.items():
        r = rng.random()
        if r < 0.35:
            continue
        if isinstance(v, dict):
            if r < 0.75 and depth > 0:
                sub = rand_update(rng, v, depth - 1)
                if sub:
                    u[k] = sub
            else:
                u[k] = rng.choice(LEAVES)                      # leaf over branch
        else:
            u[k] = rand_tree(rng, 1) if r < 0.5 else (rng.choice(LEAVES) if r < 0.85 else v)   # branch over leaf / new leaf / same leaf
    for k in rng.sample(KEYS, rng.choice([0, 1, 1, 2])):
        if k not in t:
            u[k] = rand_tree(rng, 1) if rng.random() < 0.4 else rng.choice(LEAVES)
    return u


def paths(t, prefix=()):
    for k, v in t.items():
        if isinstance(v, dict):
            for p in paths(v, prefix + (k,)):
                yield p
        else:
            yield prefix + (k,)


def generate(rng, tier):
    n = 400 if tier == 'quick' else 10000
    for _ in range(n):
        t = rand_tree(rng, rng.choice([1, 2, 3, 4]))
        T = enc(t)
        cls = rng.choice([0, 1, 2])
        yield dict(tag='flatten', lines=['(tree items %s %d)' % (T, cls), '(tree keys %s %d)' % (T, cls), '(tree values %s %d)' % (T, cls)])
        items = [tuple(p) + (_get(t, p),) for p in paths(t)]
        if rng.random() < 0.15 and items:
            items = items + [rng.choice(items)]              # duplicate path -> ValueError
        elif rng.random() < 0.3:
            rng.shuffle(items)
        yield dict(tag='rebuild', lines=['(tree fromitems %s)' % enc(items)])
        ps = list(paths(t))
        for _ in range(2):
            r = rng.random()
            p = rng.choice(ps)
            if r < 0.2:
                p = p[:-1] + ('zz',)                          # missing key
            elif r < 0.35:
                p = p + ('deeper',)                           # walks into a leaf
            elif r < 0.5 and len(p) > 1:
                p = p[:-1]                                    # a branch
            elif r < 0.6:
                # a missing key WITH a dot: dictattr / Dict resolve it part by part (their dotted fallback), a dict raises KeyError
                q = rng.choice(ps)
                i = rng.randrange(len(q))
                p = q[:i] + ('.'.join(q[i:]),) if rng.random() < 0.7 else q[:i] + ('.'.join(q[i:]) + '.zz',)
            tag = 'getitem' if tuple(p) in ps else 'getitem-unlisted'
            yield dict(tag=tag, lines=['(tree get %s %s %d)' % (T, enc(tuple(p)), cls)])
            # the string form 'a.b.c' (split on dots: a key that itself contains a dot cannot be addressed this way)
            yield dict(tag='getitem-str' + ('' if tuple(p) in ps and not any('.' in k for k in p) else '-unlisted'),
                       lines=['(tree gets %s %s %d)' % (T, enc('.'.join(p)), cls)])
            yield dict(tag='tree_get', lines=['(tree tget %s %s %s %d)' % (T, enc(tuple(p)), enc(rng.choice(LEAVES)), cls)])
        # tree_setitem (in place): new paths, existing leaves, through a leaf, ignore list; tuple and string forms
        p = rng.choice(ps)
        r = rng.random()
        if r < 0.3:
            p = p[:-1] + (rng.choice(KEYS),)
        elif r < 0.5:
            p = p + (rng.choice(KEYS[:4]),)                   # through a leaf: the leaf is replaced by a branch
        elif r < 0.6:
            p = (rng.choice(KEYS), rng.choice(KEYS))
        elif r < 0.65:
            p = ()                                            # ValueError
        ig = rng.choice([[], [], [None], [None, 'x']])
        v = rng.choice(LEAVES)
        yield dict(tag='setitem', lines=['(tree tset %s %s %s %s %d)' % (T, enc(tuple(p)), enc(v), enc(ig), cls)])
        if p:
            yield dict(tag='setitem-str', lines=['(tree tsets %s %s %s %s %d)' % (T, enc('.'.join(p)), enc(v), enc(ig), cls)])
    n = 1200 if tier == 'quick' else 30000
    for _ in range(n):
        t = rand_tree(rng, rng.choice([1, 2, 3]))
        r = rng.random()
        u = t if r < 0.08 else ({} if r < 0.12 else rand_update(rng, t))
        ig = rng.choice([[], [], [], [None], [None, 'x']])
        cls = rng.choice([0, 1, 2])
        ucls = cls if rng.random() < 0.6 else rng.choice([0, 1, 2])      # e.g. Dict + plain dict with nested plain dicts
        tag = 'update-self' if u is t else 'update-empty' if not u else 'update-ignore' if ig else 'update'
        tag += '' if ucls == cls else '-mixed-classes'
        yield dict(tag=tag, lines=['(tree update %s %s %s %d %d)' % (enc(t), enc(u), enc(ig), cls, ucls),
                                   '(tree updateh %s %s %s %d %d)' % (enc(t), enc(u), enc(ig), cls, ucls)])   # the heap model
    for c in gen_table_cases(rng, tier):
        yield c
    n = 150 if tier == 'quick' else 3000
    for _ in range(n):
        t = rand_tree(rng, 3, allow_empty=True)
        u = rand_tree(rng, 2, allow_empty=True)
        yield dict(tag='empty-branches', lines=['(tree items %s)' % enc(t), '(tree update %s %s (L) 0)' % (enc(t), enc(u)), '(tree updateh %s %s (L) 0)' % (enc(t), enc(u))])


def rand_pattern(rng, w):
    """w segments, at least one wildcard, distinct names; literals from KEYS (so that they sometimes match)"""
    segs = []
    for i in range(w):
        segs.append('%%n%d' % i if rng.random() < 0.7 else rng.choice(KEYS + ['1', 'x']))   # '1' vs the leaf 1: no match
    if not any(s.startswith('%') for s in segs):
        segs[rng.randrange(w)] = '%n9'
    return '/'.join(segs)


def gen_table_cases(rng, tier):
    n = 300 if tier == 'quick' else 8000
    for _ in range(n):
        w = rng.choice([1, 2, 3, 4])
        pat = rand_pattern(rng, w)
        t = rand_tree(rng, rng.choice([1, 2, 3]))
        yield dict(tag='totable-%d' % w, lines=['(tree totable %s %s)' % (enc(t), enc(pat))])
        if w < 2:
            continue
        names = [s[1:] for s in pat.split('/') if s.startswith('%')]
        rows, seen = [], set()
        segs = pat.split('/')
        for _ in range(rng.choice([1, 2, 3, 5])):
            row = {}
            for i, sg in enumerate(segs):
                if sg.startswith('%'):
                    row[sg[1:]] = rng.choice(KEYS[:3]) if i < w - 1 else rng.choice(['p', 'q', 1, 2, None])
            key = tuple(row[sg[1:]] if sg.startswith('%') else sg for sg in segs[:-1])
            if key not in seen:
                seen.add(key)
                rows.append(row)
        if rng.random() < 0.1 and names:
            rows.append({k: v for k, v in rows[0].items() if k != names[0]})       # unbound name -> KeyError
        # rows with unique paths: the tree, and the table read back from it with the same pattern
        yield dict(tag='totree-%d' % w, lines=['(tree totree %s %s)' % (enc(pat), enc(rows))])
    # table_to_tree(t, pattern, rows, base = type(t)) on a BASE tree: the rows are written into a copy of t; their paths run through
    # the existing nested branches of t (review s2, C15 2-1: the caller's branches were written - the F7 mechanism)
    for _ in range(n // 2):
        t = rand_tree(rng, rng.choice([2, 3, 3]))
        pat, rows = rand_base_rows(rng, t)
        yield dict(tag='totree-on-base', lines=['(tree totreeon %s %s %s %d)' % (enc(t), enc(pat), enc(rows), rng.choice([0, 1, 2]))])


def rand_base_rows(rng, t):
    """a pattern and rows whose paths follow an existing path of t for a while (literal or bound segments), then write a leaf"""
    ps = list(paths(t))
    p = list(rng.choice(ps))
    if rng.random() < 0.4:
        p = p + [rng.choice(KEYS[:4])]                      # through a leaf of t
    elif rng.random() < 0.3 and len(p) > 1:
        p = p[:-1]                                          # the leaf lands on a branch of t
    segs, bind = [], {}
    for i, k in enumerate(p):
        if rng.random() < 0.6:
            segs.append('%%n%d' % i)
            bind['n%d' % i] = k
        else:
            segs.append(k.replace('/', '_'))
    segs.append('%leaf')
    rows, seen = [], set()
    for _ in range(rng.choice([1, 2, 3])):
        row = {n: (k if rng.random() < 0.7 else rng.choice(KEYS[:4])) for n, k in bind.items()}
        row['leaf'] = rng.choice(['p', 'q', 1, None])
        key = tuple(sorted((n, v) for n, v in row.items() if n != 'leaf'))
        if key not in seen:
            seen.add(key)
            rows.append(row)
    return '/'.join(segs), rows


def _get(t, p):
    for k in p:
        t = t[k]
    return t


# ---------------------------------------------------------------- implementation runner

def build(x, cls, mixed=False, root=True):
    """nested dicts of the given class (0 dict, 1 Dict, 2 dictattr); leaves untouched.  With `mixed` (the tree_update runner and law, on
    every third case) a Dict / dictattr tree is built with a ROOT of that class over PLAIN dict branches (a tree need not be of one
    class throughout: `Dict(a = 1, b = dict(c = 2))` is the common case), so that class-directed copying of branches is exercised:
    "neither t nor u, at any depth, is modified" quantifies over such trees too (seeded change C15-r2)"""
    from pyg_base import Dict, dictattr
    c = {0: dict, 1: Dict, 2: dictattr}[cls if (root or not mixed) else 0]
    if isinstance(x, dict):
        return c({k: build(v, cls, mixed, False) for k, v in x.items()})
    return x


def snapshot(x):
    """structure, classes and identities of every dict node"""
    if isinstance(x, dict):
        return (type(x).__name__, [(k, snapshot(v)) for k, v in x.items()])
    return ('leaf', repr(x))


def run_line(state, sx):
    import pyg_base, zlib
    from pyg_base import tree_items, tree_keys, tree_values, items_to_tree, tree_update, tree_getitem, Dict
    mixed = zlib.crc32(repr(sx).encode()) % 3 == 0
    op, args = sx[1], sx[2:]
    if op in ('items', 'keys', 'values'):
        t = build(proto.dec(args[0]), int(args[1]) if len(args) > 1 else 0)
        st = snapshot(t)
        f = {'items': tree_items, 'keys': tree_keys, 'values': tree_values}[op]
        res = f(t)
        if snapshot(t) != st:
            return 'mutated tree: %s' % enc(_plain(t))
        return 'ok ' + enc(res)
    if op == 'fromitems':
        items = proto.dec(args[0])
        res = items_to_tree(items)
        return 'ok ' + enc(_plain(res))
    if op in ('get', 'gets', 'tget'):
        from pyg_base import tree_get
        cls = int(args[-1]) if len(args) > (3 if op == 'tget' else 2) else 0
        t = build(proto.dec(args[0]), cls)
        st = snapshot(t)
        p = proto.dec(args[1])
        p = list(p) if op != 'gets' else p
        try:
            res = tree_get(t, p, proto.dec(args[2])) if op == 'tget' else tree_getitem(t, p)
        finally:
            if snapshot(t) != st:
                return 'mutated tree: %s' % enc(_plain(t))
        return 'ok ' + enc(_plain(res))
    if op in ('tset', 'tsets'):
        from pyg_base import tree_setitem
        cls = int(args[4]) if len(args) > 4 else 0
        t = build(proto.dec(args[0]), cls)
        p = proto.dec(args[1])
        res = tree_setitem(t, p, proto.dec(args[2]), ignore=proto.dec(args[3]))
        if res is not None:
            return 'wrongtype %s' % type(res).__name__
        bad = _classes(t, type(t))
        if bad:
            return 'wrongtype %s inside the tree' % bad
        return 'ok ' + enc(_plain(t))
    if op in ('update', 'updateh'):       # updateh: same call; the model side runs the heap machine
        cls = int(args[3]) if len(args) > 3 else 0
        ucls = int(args[4]) if len(args) > 4 else cls
        t, u, ig = build(proto.dec(args[0]), cls, mixed), build(proto.dec(args[1]), ucls, mixed), proto.dec(args[2])
        st, su = snapshot(t), snapshot(u)
        res = tree_update(t, u, ignore=ig) if ig else tree_update(t, u)
        if snapshot(t) != st:
            return 'mutated tree: %s' % enc(_plain(t))
        if snapshot(u) != su:
            return 'mutated update: %s' % enc(_plain(u))
        if type(res) is not type(t):
            return 'wrongtype %s' % type(res).__name__
        bad = _classes_update(res, t, type(t))
        if bad:
            return 'wrongtype %s inside the result' % bad
        out = 'ok ' + enc(_plain(res))
        if op == 'updateh':
            # freshness of the result (review s2, C15 2-5): write into EVERY branch of the result, then re-read the operands
            _scribble(res)
            if snapshot(t) != st or snapshot(u) != su:
                return 'result shares a branch with an operand: writing into the result changed t=%s u=%s' % (enc(_plain(t)), enc(_plain(u)))
            return out
        if cls == 1 and not ig:
            alt = t + u
            if snapshot(t) != st or snapshot(u) != su:
                return 'mutated by Dict.__add__'
            if _plain(alt) != _plain(res) or type(alt) is not Dict:
                return 'Dict.__add__ differs from tree_update: %s' % enc(_plain(alt))
        return out
    if op == 'totable':
        from pyg_base import tree_to_table
        t, pat = proto.dec(args[0]), proto.dec(args[1])
        names = [s[1:] for s in pat.split('/') if s.startswith('%')]
        st = snapshot(t)
        rows = tree_to_table(t, pat)
        if snapshot(t) != st:
            return 'mutated tree: %s' % enc(_plain(t))
        return 'ok ' + enc([dict(r) for r in rows])        # whole rows, columns in their order (restrict_spec pins it)
    if op == 'totree':
        from pyg_base._table_to_tree import table_to_tree
        pat, rows = proto.dec(args[0]), proto.dec(args[1])
        return 'ok ' + enc(_plain(table_to_tree(None, pat, rows)))
    if op == 'totreeon':
        from pyg_base._table_to_tree import table_to_tree
        cls = int(args[3]) if len(args) > 3 else 0
        t, pat, rows = build(proto.dec(args[0]), cls, mixed), proto.dec(args[1]), proto.dec(args[2])
        st, sr = snapshot(t), _copy.deepcopy(rows)
        try:
            res = table_to_tree(t, pat, rows, base=type(t))
        finally:
            if snapshot(t) != st:
                return 'mutated tree: %s' % enc(_plain(t))
            if rows != sr:
                return 'mutated rows'
        if type(res) is not type(t):
            return 'wrongtype %s' % type(res).__name__
        bad = _classes_update(res, t, type(t))
        if bad:
            return 'wrongtype %s inside the result' % bad
        out = 'ok ' + enc(_plain(res))
        _scribble(res)
        if snapshot(t) != st:
            return 'result shares a branch with the base tree: writing into the result changed t=%s' % enc(_plain(t))
        return out
    return 'bad-op'


def _classes(x, c):
    """new branches are created with the class of the tree (`base = type(tree)`)"""
    if isinstance(x, dict):
        if type(x) is not c:
            return type(x).__name__
        for v in x.values():
            b = _classes(v, c)
            if b:
                return b
    return None


def _classes_update(res, t, root):
    """classes of the branches of a tree built on a copy of t: a branch that t has at the same place keeps t's class there
    (`copy`), every other branch is created by `base()` = the class of the root"""
    if isinstance(res, dict):
        want = type(t) if isinstance(t, dict) else root
        if type(res) is not want:
            return type(res).__name__
        for k, v in res.items():
            b = _classes_update(v, t.get(k) if isinstance(t, dict) else None, root)
            if b:
                return b
    return None


def _scribble(x):
    """item assignment into every dict node of x"""
    if isinstance(x, dict):
        for v in list(x.values()):
            _scribble(v)
        dict.__setitem__(x, '__scribble__', 0)


def _plain(x):
    if isinstance(x, dict):
        return {k: _plain(v) for k, v in x.items()}
    return x


def _ordered(x):
    """canonical form that KEEPS the order of the entries of every dict (proto.canon sorts them): the model claims the key order"""
    if isinstance(x, str):
        return proto.canon_cell(x, False)
    if x and x[0] == 'D':
        return ('D',) + tuple((kv[0], _ordered(kv[1])) for kv in x[1:])
    return (x[0],) + tuple(_ordered(y) for y in x[1:])


def compare(case, i, line, ir, mr):
    if ir == mr:
        return None
    if ir.startswith('ok ') and mr.startswith('ok '):
        try:
            if _ordered(proto.parse(ir[3:])) == _ordered(proto.parse(mr[3:])):
                return None
        except Exception:
            pass
    if ir.startswith('mutated') or ir.startswith('wrongtype') or ir.startswith('Dict.__add__') or ir.startswith('result shares'):
        return 'operand modified / wrong class / result not fresh: %s' % ir
    if proto.same_reply(ir, mr, numeric=False) and not case.get('tag', '').endswith('empty-branches'):
        # python == on dicts ignores the order, and so does the statement; the model (ordered equality in the theorems) pins it
        return ('divergence', 'same mapping, different KEY ORDER: implementation %s, model %s' % (ir, mr))
    if line.startswith('(tree totable') and ir.startswith('ok ') and mr.startswith('ok '):
        a, b = proto.parse(ir[3:]), proto.parse(mr[3:])
        if isinstance(a, list) and isinstance(b, list) and sorted(map(repr, a)) == sorted(map(repr, b)):
            return ('divergence', 'tree_to_table: same rows in another order (the statement does not pin the order): implementation %s, model %s' % (ir, mr))
    if case.get('tag', '').endswith('empty-branches'):
        return ('divergence', 'empty branches are outside the statement: implementation %s, model %s' % (ir, mr))
    return 'implementation %s, specification (model) %s' % (ir, mr)


def nontrivial(line, reply):
    return (reply.startswith('ok') or reply.startswith('err')) and '(D)' not in line


# ---------------------------------------------------------------- laws on the implementation alone

def ref_merge(t, u, ig):
    """the recursive merge of the statement (u has no empty branches)"""
    if isinstance(u, dict):
        res = dict(t) if isinstance(t, dict) else {}
        for k, v in u.items():
            if k in res:
                res[k] = ref_merge(res[k], v, ig)
            else:
                res[k] = ref_merge({}, v, ig) if isinstance(v, dict) else v
        return res
    return t if any(u is i or u == i for i in ig) and t is not _MISSING else u


_MISSING = object()


def laws(rng, tier, ctx):
    from pyg_base import tree_items, tree_keys, tree_values, items_to_tree, tree_update, tree_getitem, tree_to_table, Dict, dictattr
    import pyg_base
    count = 0
    m = 600 if tier == 'quick' else 15000
    for _ in range(m):
        cls = rng.choice([0, 1, 2])
        t0 = rand_tree(rng, rng.choice([1, 2, 3]))
        t = build(t0, cls)
        T = enc(t0)
        case = dict(tag='law-roundtrip', lines=['(tree items %s)' % T])
        items = tree_items(t)
        count += 4
        try:
            rebuilt = _plain(items_to_tree(items))
        except Exception as e:
            rebuilt = 'raised %s' % type(e).__name__
        if rebuilt != t0:
            yield Finding('violation', case, 'items_to_tree(tree_items(t)) != t')
        if tree_keys(t) != [i[:-1] for i in items] or tree_values(t) != [i[-1] for i in items]:
            yield Finding('violation', case, 'tree_keys / tree_values are not the paths / leaves of tree_items in the same order')
        for it in items:
            try:
                ok = tree_getitem(t, list(it[:-1])) is it[-1] or tree_getitem(t, list(it[:-1])) == it[-1]
            except Exception:
                ok = False
            if not ok:
                yield Finding('violation', dict(tag='law-getitem', lines=['(tree get %s %s)' % (T, enc(tuple(it[:-1])))]), 'tree_getitem(t, path) is not the leaf')
        r = rng.random()
        u0 = t0 if r < 0.1 else ({} if r < 0.15 else rand_update(rng, t0))
        ig = rng.choice([[], [], [None], [None, 'x']])
        mixed = rng.random() < 0.34
        t, u = build(t0, cls, mixed), build(u0, cls, mixed)
        st, su = snapshot(t), snapshot(u)
        case = dict(tag='law-update', lines=['(tree update %s %s %s %d)' % (T, enc(u0), enc(ig), cls)])
        count += 3
        try:
            res = tree_update(t, u, ignore=ig) if ig else tree_update(t, u)
            idem = _plain(tree_update(t, t)) == t0 and _plain(tree_update(t, {})) == t0
        except Exception as e:
            yield Finding('violation', case, 'tree_update raised %s' % type(e).__name__)
            continue
        if snapshot(t) != st or snapshot(u) != su:
            yield Finding('violation', case, 'tree_update modified an operand: t=%s u=%s' % (enc(_plain(t)), enc(_plain(u))))
            t, u = build(t0, cls, mixed), build(u0, cls, mixed)
        want = ref_merge(t0, u0, ig)
        if _plain(res) != want:
            yield Finding('violation', case, 'tree_update = %s, recursive merge = %s' % (enc(_plain(res)), enc(want)))
        elif _items_ordered(res) != _items_ordered(want):
            yield Finding('divergence', case, 'tree_update = %s has the keys of the recursive merge %s in another ORDER' % (enc(_plain(res)), enc(want)))
        bad = _classes_update(res, t, type(t))
        if bad:
            yield Finding('violation', case, 'tree_update result holds a branch of class %s where the tree\'s own / the root\'s class is due' % bad)
        _scribble(res)
        if snapshot(t) != st or snapshot(u) != su:
            yield Finding('violation', case, 'the result of tree_update shares a branch with an operand (writing into the result changed it)')
            continue
        if type(res) is not type(t):
            yield Finding('violation', case, 'tree_update returned a %s for a %s' % (type(res).__name__, type(t).__name__))
        if not idem:
            yield Finding('violation', dict(tag='law-update-idem', lines=['(tree update %s %s (L) %d)' % (T, T, cls)]), 'tree_update(t, t) != t or tree_update(t, {}) != t')
    # table_to_tree / tree_to_table with the same pattern are inverse on rows with unique paths: patterns with 1..4 wildcards and
    # literal segments in any position (at least two segments: a one-segment pattern has no place for a leaf), both directions
    from pyg_base._table_to_tree import table_to_tree
    m = 300 if tier == 'quick' else 8000
    for _ in range(m):
        w = rng.choice([1, 2, 3, 4])
        segs = ['%%k%d' % i for i in range(w)]
        for _ in range(rng.choice([0, 0, 1, 2]) if w > 1 else rng.choice([1, 1, 2])):
            segs.insert(rng.randrange(len(segs) + 1), rng.choice(['lit', 'x', 'p', 'a.b']))
        pattern = '/'.join(segs)
        names = [sg[1:] for sg in segs if sg.startswith('%')]
        last_wild = segs[-1].startswith('%')
        rows, seen = [], set()
        # key cells are strings: the property quantifies over "trees over string keys" (an int / None key cell happens to work, a tuple
        # cell on a non-last wildcard raises KeyError under the default base dictattr, whose [] reads a tuple as several keys)
        kpool = ['p', 'q', 'r', 'lit']
        for _ in range(rng.choice([1, 2, 3, 5, 8])):
            row = {n: rng.choice(kpool) for n in names}
            if last_wild:
                row[names[-1]] = rng.choice(['p', 'q', 1, 2, None, [1, 2], 'lit'])
            path = tuple(row[sg[1:]] if sg.startswith('%') else sg for sg in segs[:-1])
            if path not in seen:
                seen.add(path)
                items = list(row.items())
                rng.shuffle(items)                     # the order of the columns in a row is immaterial
                rows.append(dict(items))
        count += 2
        case = dict(tag='law-table-tree-%d' % w, lines=['(tree totree %s %s)' % (enc(pattern), enc(rows))])
        try:
            tree = table_to_tree(None, pattern, _copy.deepcopy(rows))
            table = tree_to_table(tree, pattern)
            back = table_to_tree(None, pattern, table)
        except Exception as e:
            yield Finding('violation', case, 'table_to_tree / tree_to_table raised %s on rows with unique paths' % type(e).__name__)
            continue
        key = lambda r: repr(sorted(r.items()))
        if sorted(map(key, table)) != sorted(map(key, rows)):
            yield Finding('violation', case, 'tree_to_table(table_to_tree(rows, P), P) = %s does not give the rows %s back (pattern %s)' % (enc(table), enc(rows), pattern))
        if _plain(back) != _plain(tree) or list(paths(_plain(back))) != list(paths(_plain(tree))):
            yield Finding('violation', dict(tag='law-tree-table-%d' % w, lines=['(tree totable %s %s)' % (enc(_plain(tree)), enc(pattern))]),
                          'table_to_tree(tree_to_table(t, P), P) != t for a tree all of whose items match P (pattern %s)' % pattern)
    yield count


def _items_ordered(x):
    return [(k, _items_ordered(v)) for k, v in x.items()] if isinstance(x, dict) else ('leaf', repr(x))


MATCHERS = {}
