"""C20 - perdictable evaluates a function once per row of the keyed join of its inputs.

Protocol line (model `pd`, lean/PygModel/PerDictDriver.lean):
  (pd call (L S:param*) (L S:on*) (D (name cell)*) (D (name input)*) <expiry input> T:<today>)
      -> ok (T <result> (L (T arg*)*))       result = (T S:value v) | (T S:norows data|N) | (T S:table <table>)
  input = a cell (scalar) or a table; the lifted function is f(*args) = ('f',) + args, every call is logged.
  (pd calld ...same arguments...)   perdictable(f, on=...) WITHOUT `defaults=`: the (D (name cell)*) are the PYTHON defaults of f's
      parameters, which the code then takes for `defaults` (argspec_defaults, _perdictable.py:306); the model is `call` on them
"today" (dt(0) inside _value_output) is injected: the harness wraps the module-level name `dt` of pyg_base._perdictable for the
duration of the call so that exactly the call dt(0) returns the injected day (every other dt(...) call is the real one), so that
replays do not depend on the clock.
"""
import datetime, logging
import numpy as np
import pandas as pd
from collections import Counter
from .. import proto
from ..proto import enc, hexs, unhex
from ..engine import Finding, Timeout
from .c02 import guarded, enc_table, enc_dictable, dec_table, keq, cell, NAN
import pyg_base  # noqa: E402
from pyg_base import dictable
import pyg_base._perdictable as _pd

logging.getLogger('pyg').setLevel(logging.ERROR)

ID = 'C20'
TITLE = 'perdictable evaluates a function once per row of the keyed join of its inputs'
STATEMENT = ('perdictable(f, on=keys) returns f(...) itself for scalar inputs; with table inputs one row per key present in every table input '
             '(scalars broadcast), sorted by key, valued f(that key\'s values); inputs named in defaults are outer-joined with their default; '
             'rows with a supplied previous value and an expiry in the past keep it without a call of f, all other rows are computed exactly once')
LEAN_FILES = ['Basic', 'Cmp', 'Sort', 'TableBasic', 'Join', 'PerDict', 'PerDictDriver', 'Tri', 'CmpLemmas', 'JoinLemmas', 'PerDictLemmas', 'UnlistLemmas', 'PivotLemmas', 'GroupLemmas', 'C02', 'C07', 'C20',
              'KeyedRows', 'PerDictSem', 'PerDictStep', 'PerDictFold', 'PerDictTables', 'PerDictItem', 'PerDictJoin', 'PerDictTotal', 'PerDictRename',
              'PygModel/Table.lean', 'TableLemmas', 'TableRect', 'TableRows']
RULE = 'distinct protocol lines (one lifted call) with at least one table input on which the implementation returned'
TRUSTED = ['correspondence harness (pv.engine, pv.proto) and generators / reference evaluation of pv.props.c20',
           'Lean driver parser/printer (PygModel/Basic.lean, PerDictDriver.lean)']
ASSUMPTIONS = ['"today" is injected by wrapping pyg_base._perdictable.dt during the call: dt(0) - and only dt(0) - returns the injected MIDNIGHT (the code reads the clock through dt(0): "in the past" means before today 00:00, an expiry of today 09:00 is not past at 15:00)',
               '"defaults" of the statement is the `defaults=` argument or, when it is not given, the python keyword defaults of f (op calld); every parameter of f is supplied as an input',
               'the property quantifies expiry over PREVIOUSLY COMPUTED keys: a key that the `data` table lacks but that carries a past expiry (expiry scalar, or an expiry table wider than the data table) keeps the filled-in None without a call when if_none is False (documented: if_none) - such rows are generated (tag +expiry-beyond-data for expiry tables; any scalar expiry beside a data table), compared with the model (which follows the code), and exempt from the kept/computed law',
               'the lifted function is pure apart from the call log; python keyword binding of the row to f is assumed (kwargs_support, C18)',
               'renames None or a dict parameter -> column, if_none False or True, output_is_input=True, include_inputs=False, a function without .output; keys unique per table (the code only warns otherwise)',
               'row order among rows with equal `on` keys (only possible when a table lacks an `on` column) depends on a python set order in dict_concat and is not compared']
CALL_TIMEOUT = 8
D = datetime.datetime
TODAY = D(2024, 6, 15)
EXPIRIES = [D(2000, 1, 1), D(3000, 1, 1), TODAY, TODAY - datetime.timedelta(days=1), TODAY + datetime.timedelta(days=1), None,
            TODAY + datetime.timedelta(hours=9), TODAY - datetime.timedelta(minutes=1),                 # times of day around "today" = midnight
            datetime.date(2000, 1, 1), datetime.date(3000, 1, 1), TODAY.date()]                          # expiry DATES given as datetime.date
# "in any other spelling dt() accepts" (fix 7ea4860; review t2 V3: the model recomputed on these, the code keeps): date strings and
# yyyymmdd numbers, with the instant each denotes (the reference of the law; independent of pyg_base.dt).  Only spellings of an
# ABSOLUTE date: a small number is an offset from the wall clock (dt(-1) = yesterday by the REAL clock, not the injected today).
SPELLED = {'2000-01-01': D(2000, 1, 1), '20000101': D(2000, 1, 1), 20000101: D(2000, 1, 1), '3000-01-01': D(3000, 1, 1), 30000101: D(3000, 1, 1),
           '2024-06-15': TODAY, '14/06/2024': TODAY - datetime.timedelta(days=1), 20240614: TODAY - datetime.timedelta(days=1),
           '2024-06-15 09:00': TODAY + datetime.timedelta(hours=9), '1 Jan 2000': D(2000, 1, 1)}
EXPIRIES = EXPIRIES + list(SPELLED)
# the missing date (review v2 W4): what a None expiry becomes after a trip through pandas.  It is no "expiry date in the past": the row is
# recomputed, as with None (fix 9bff53a; before, dt(NaT) >= today being False, the old value was kept for ever).
# Wire (expiry slot only): NAT = pd.NaT, NAT64 = np.datetime64('NaT'), the string 'NaT' is S:4e6154; the driver reads all three as the
# model's cell for the missing date, Cell.str "NaT".
NATS = [pd.NaT, np.datetime64('NaT'), 'NaT']
EXPIRIES = EXPIRIES + NATS


def is_nat(v):
    return v is pd.NaT or (isinstance(v, np.datetime64) and bool(np.isnat(v))) or (isinstance(v, str) and v == 'NaT')


def ecell(v):
    return 'NAT' if v is pd.NaT else 'NAT64' if (isinstance(v, np.datetime64) and np.isnat(v)) else cell(v)


def enc_expiry(v):
    if isinstance(v, list):
        return '(D' + ''.join(' (%s (L%s))' % (hexs(k), ''.join(' ' + ecell(x) for x in vs)) for k, vs in v) + ')'
    return ecell(v)


def dec_expiry(sx):
    def d(x):
        if isinstance(x, str):
            return pd.NaT if x == 'NAT' else np.datetime64('NaT') if x == 'NAT64' else proto.dec_cell(x)
        return [d(y) for y in x[1:]]
    if isinstance(sx, list) and sx and sx[0] == 'D':
        t = {unhex(kv[0]): d(kv[1]) for kv in sx[1:]}
        return dictable(t) if t else dictable()
    return d(sx)
# True / False / 0 (review 5 w2 F1): a bool key beside a number - python orders True as 1, cmp ranks the bools below every number; the join walks
# its sorted key lists with cmp (fix C20-W2F1: sort no longer takes the native path there)
KUNIV = [1, 2, 3, 4, 'x', 'y', None, 2.0, 5.0, D(2020, 1, 1), True, False, 0]
JUNIV = ['u', 'v', 1]
VALS = [0, 1, 2, 7, 'p', 'q', None, 0.5, 2.5]
# (not `data` / `expiry`: reserved slots - a parameter of f of that name receives the previous value / the expiry AND is outer-joined
# with the default None, round k2 notes)
ARG_NAMES = ['self', 'self', 'function', 'on', 'key', 'col', 'columns']


def ckey(v):
    return proto.canon_cell(cell(v))


def uniq(keys):
    seen, out = set(), []
    for k in keys:
        c = tuple(ckey(x) for x in k)
        if c not in seen:
            seen.add(c)
            out.append(k)
    return out


def rand_keys(rng, on, base):
    """a key set related to `base`: the same, a subset, overlapping, disjoint or empty"""
    r = rng.random()
    def fresh(m):
        return [tuple(rng.choice(KUNIV if c == 'k' else JUNIV) for c in on) for _ in range(m)]
    if base is None or r < 0.15:
        ks = fresh(rng.choice([1, 2, 3, 4, 5]))
    elif r < 0.4:
        ks = list(base)
    elif r < 0.6:
        ks = [k for k in base if rng.random() < 0.6]
    elif r < 0.85:
        ks = [k for k in base if rng.random() < 0.6] + fresh(rng.choice([1, 2]))
    elif r < 0.93:
        ks = [k for k in fresh(4) if k not in base]
    else:
        ks = []
    ks = uniq(ks)
    rng.shuffle(ks)
    return ks


def make_table(rng, on, keys, valname, vals, partial=False):
    cols = list(on)
    if partial and len(on) == 2:
        cols = [rng.choice(on)]
        keys = uniq([tuple(k[on.index(c)] for c in cols) for k in keys])
    elif partial and len(on) == 1:
        # a table with NONE of the `on` columns (review t2, C20 item 6): a cross join - every row of it against every key
        cols = []
        keys = keys[:rng.choice([1, 2])]
    t = [(c, [k[i] for k in keys]) for i, c in enumerate(cols)]
    t.append((valname, [rng.choice(vals) for _ in keys]))
    if not cols and not keys:
        return [(valname, [rng.choice(vals)])]
    if rng.random() < 0.3:
        rng.shuffle(t)
    return t


def enc_input(v):
    return enc_table(v) if isinstance(v, list) else cell(v)


def gen_inner_two_keys(rng):
    """pure inner join of 2-3 tables on two key columns, key columns laid out in a different order than `on` in some table:
    the final sort by `on` is the only thing that orders the result"""
    on = ['k', 'j']
    params = ['a', 'b', 'c'][:rng.choice([2, 2, 3])]
    base = uniq([tuple(rng.choice(KUNIV if c == 'k' else JUNIV) for c in on) for _ in range(rng.choice([3, 4, 6]))])
    inputs = []
    for i, p in enumerate(params):
        keys = list(base) if rng.random() < 0.6 else [k for k in base if rng.random() < 0.8]
        rng.shuffle(keys)
        t = make_table(rng, on, keys, p, VALS)
        if i == 0 or rng.random() < 0.5:
            t = sorted(t, key=lambda c: {'j': 0, 'k': 1}.get(c[0], 2))      # j before k
        inputs.append((p, t))
    line = '(pd call (L%s) (L%s) (D) (D%s) N T:%d)' % (
        ''.join(' S:' + hexs(p) for p in params), ''.join(' S:' + hexs(c) for c in on),
        ''.join(' (%s %s)' % (hexs(k), enc_input(v)) for k, v in inputs), proto.dt2us(TODAY))
    return 'tables%d+two-keys-inner' % len(params), line


def gen_case(rng, full=False):
    if rng.random() < 0.08:
        return gen_inner_two_keys(rng)
    on = ['k'] if rng.random() < 0.6 else ['k', 'j']
    params = ['a', 'b', 'c', 'd'][:rng.choice([1, 2, 2, 3, 4])]
    odd_name = rng.random() < 0.12
    if odd_name:
        # a parameter of f called like a parameter of the machinery (review v2 W3; C16 has ARG_KEYS): bound by keyword all the way down
        params[rng.randrange(len(params))] = rng.choice(ARG_NAMES)
    base = rand_keys(rng, on, None)
    inputs, kinds = [], []
    all_scalar = rng.random() < 0.08
    for p in params:
        if all_scalar or rng.random() < 0.35:
            inputs.append((p, rng.choice(VALS)))
            kinds.append('s')
        else:
            keys = rand_keys(rng, on, base)
            vn = rng.choice([p, p, 'data', 'val'])
            inputs.append((p, make_table(rng, on, keys, vn, VALS, partial=(not full and rng.random() < 0.12))))
            kinds.append('t')
    defaults = [(p, rng.choice([0, None, 'D', -1])) for p in params if rng.random() < 0.35]
    has_table = 't' in kinds
    # renames (a dict parameter -> column): a second value column that only a rename can select, a rename onto the
    # existing value column / a key column / (not in the laws) a missing column; a rename for a scalar is ignored
    renames = []
    if has_table and rng.random() < 0.15:
        for i, p in enumerate(params):
            if rng.random() < 0.6:
                if kinds[i] == 's':
                    if rng.random() < 0.3:
                        renames.append((p, 'alt'))
                    continue
                t = inputs[i][1]
                r = rng.random()
                vcol = [c for c, _ in t if c not in on][0]
                if r < 0.6:
                    t.insert(rng.randrange(len(t) + 1), ('alt', [rng.choice(VALS) for _ in t[0][1]]))
                    renames.append((p, rng.choice(['alt', 'alt', vcol])))
                elif r < 0.8:
                    renames.append((p, vcol))
                elif r < 0.93 or full:
                    renames.append((p, rng.choice([c for c, _ in t if c in on] or [vcol])))
                else:
                    renames.append((p, 'missing'))
    expiry = None
    tag = 'scalars' if not has_table else 'tables%d' % kinds.count('t')
    dkeys = None
    if has_table and rng.random() < 0.5 and 'data' not in params:
        dkeys = rand_keys(rng, on, base)
        inputs.append(('data', make_table(rng, on, dkeys, 'data', ['old1', 'old2', 'old3', None])))
        tag += '+data'
    r = rng.random()
    if has_table and r < 0.45:
        # the property assigns an expiry to previously computed keys: mostly the expiry table is keyed inside the data table
        ekeys = [k for k in dkeys if rng.random() < 0.8] if (dkeys is not None and rng.random() < 0.7) else rand_keys(rng, on, base)
        expiry = make_table(rng, on, ekeys, rng.choice(['data', 'expiry']), EXPIRIES)
        tag += '+expiry-table'
        if dkeys is not None and any(tuple(ckey(x) for x in k) not in set(tuple(ckey(x) for x in q) for q in dkeys) for k in ekeys):
            tag += '+expiry-beyond-data'          # an expiry for a key without previous value: outside the quantifier, see ASSUMPTIONS
    elif r < 0.6:
        expiry = rng.choice(EXPIRIES)
        tag += '+expiry-scalar'
    if expiry is not None and (expiry in SPELLED if not isinstance(expiry, list) else any(x in SPELLED for c, xs in expiry if c not in on for x in xs if isinstance(x, (str, int)))):
        tag += '+expiry-spelled'
    if expiry is not None and (is_nat(expiry) if not isinstance(expiry, list) else any(is_nat(x) for c, xs in expiry if c not in on for x in xs)):
        tag += '+expiry-nat'
    if any(isinstance(v, list) and not any(c in on for c, _ in v) for _, v in inputs):
        tag += '+keyless-table'             # a table input without any key column: cross join
    if defaults:
        tag += '+defaults'
    if odd_name:
        tag += '+param-named-' + [q for q in params if q in ARG_NAMES][0]
    if renames:
        tag += '+renames'
    if_none = has_table and rng.random() < 0.15
    if if_none:
        tag += '+if_none'
    # perdictable(f, on=keys) as the statement spells it, without `defaults=`: the python defaults of f are the defaults
    fdef = not (renames or if_none) and rng.random() < 0.3
    if has_table and not fdef and not (renames or if_none) and rng.random() < 0.03:
        params = params + ['z']                 # a parameter of f without an input: TypeError as soon as f is called
        tag += '+param-without-input'
    if fdef:
        tag += '+function-defaults'
    if has_table and rng.random() < 0.03:
        on = on + [on[0]]                       # a repeated key column name: the code takes ulist(on)
        tag += '+on-repeated'
    line = '(pd %s (L%s) (L%s)%s (D%s) (D%s) %s T:%d)' % (
        'callr' if (renames or if_none) else 'calld' if fdef else 'call',
        ''.join(' S:' + hexs(p) for p in params), ''.join(' S:' + hexs(c) for c in on),
        (' (D%s) %s' % (''.join(' (%s %s)' % (hexs(k), cell(v)) for k, v in renames), cell(bool(if_none)))) if (renames or if_none) else '',
        ''.join(' (%s %s)' % (hexs(k), cell(v)) for k, v in defaults),
        ''.join(' (%s %s)' % (hexs(k), enc_input(v)) for k, v in inputs),
        enc_expiry(expiry), proto.dt2us(TODAY))
    return tag, line


def generate(rng, tier):
    n = 1000 if tier == 'quick' else 30000
    for _ in range(n):
        tag, line = gen_case(rng)
        yield dict(tag=tag, lines=[line])


# ------------------------------------------------------------------ implementation runner

def make_f(params, log, fdefaults=None):
    """f(*params) logging its calls; `fdefaults` (name -> value) become python keyword defaults (those parameters are moved
    behind the others in the SIGNATURE only: the log and the result keep the order of `params`)"""
    env = {'log': log, 'DEF': fdefaults or {}}
    sig = [q for q in params if q not in env['DEF']] + ['%s=DEF[%r]' % (q, q) for q in params if q in env['DEF']]
    exec('def f(%s):\n    log.append((%s,))\n    return ("f", %s,)' % (', '.join(sig), ', '.join(params), ', '.join(params)), env)
    return env['f']


def dec_input(sx):
    if isinstance(sx, list) and sx and sx[0] == 'D':
        return dec_table(sx)
    return proto.dec(sx)


def get_renames(sx):
    return ({unhex(kv[0]): proto.dec(kv[1]) for kv in sx[4][1:]} or None) if sx[1] == 'callr' else None


def call_impl(sx):
    params = [proto.dec_cell(a) for a in sx[2][1:]]
    on = [proto.dec_cell(a) for a in sx[3][1:]]
    renames = get_renames(sx)
    if_none = False
    if sx[1] == 'callr':
        if_none = proto.dec(sx[5])
        sx = sx[:4] + sx[6:]
    defaults = {unhex(kv[0]): proto.dec(kv[1]) for kv in sx[4][1:]}
    inputs = {unhex(kv[0]): dec_input(kv[1]) for kv in sx[5][1:]}
    expiry = dec_expiry(sx[6])
    today = proto.dec_cell(sx[7])
    log = []
    if sx[1] == 'calld':
        p = pyg_base.perdictable(make_f(params, log, defaults), on=on)
    else:
        p = pyg_base.perdictable(make_f(params, log), on=on, defaults=defaults, renames=renames, if_none=if_none)
    old = _pd.dt
    _pd.dt = lambda *a, **k: today if (a == (0,) and not k) else old(*a, **k)
    try:
        res = guarded(lambda: p(expiry=expiry, **inputs))
    finally:
        _pd.dt = old
    return res, log, inputs, on, params, defaults, expiry, today


def enc_result(res, inputs):
    if 'data' in inputs and res is inputs['data']:
        return '(T S:%s %s)' % (hexs('norows'), enc_dictable(res) if isinstance(res, dictable) else enc(res))
    if res is None:
        return '(T S:%s N)' % hexs('norows')
    if isinstance(res, dictable):
        return '(T S:%s %s)' % (hexs('table'), enc_dictable(res))
    return '(T S:%s %s)' % (hexs('value'), enc(res))


def run_line(state, sx):
    if sx[1] not in ('call', 'callr', 'calld'):
        return 'bad-op'
    res, log, inputs = call_impl(sx)[:3]
    return 'ok (T %s %s)' % (enc_result(res, inputs), enc([tuple(a) for a in log]))


# ------------------------------------------------------------------ comparison

def table_rows(sx):
    cols = sorted((unhex(kv[0]), [proto.canon(c) for c in kv[1][1:]]) for kv in sx[1:])
    n = max([len(v) for _, v in cols] or [0])
    return [k for k, _ in cols], [tuple(v[i] if i < len(v) else None for _, v in cols) for i in range(n)]


def compare(case, i, line, ir, mr):
    if ir == 'timeout':
        return 'the call did not return'
    if mr in ('bad-op', 'no-driver'):
        return ('divergence', 'model does not cover this call (impl: %s)' % ir[:100])
    if proto.same_reply(ir, mr):
        return None
    if _ragged(proto.parse(line)):
        return ('divergence', 'a table whose columns differ in length (only the shrinker arrives here): implementation %s, model %s' % (ir[:80], mr[:80]))
    if len(proto.parse(line)[2]) == 1:
        # f() without a parameter: outside the quantifier (1..4 inputs) - only the shrinker arrives here
        return ('divergence', 'a call without any input: implementation %s, model %s' % (ir[:80], mr[:80]))
    if ir.startswith('err') and mr.startswith('ok'):
        return 'the call raised (%s) where the statement prescribes a result (model: %s)' % (ir, mr[:150])
    if not (ir.startswith('ok') and mr.startswith('ok')):
        return ('divergence', 'implementation %s, model %s' % (ir[:120], mr[:120]))
    a, b = proto.parse(ir[3:]), proto.parse(mr[3:])
    ra, rb = a[1], b[1]
    if ra[1] != rb[1]:
        return 'result kind %s, model %s' % (unhex(ra[1][2:]), unhex(rb[1][2:]))
    kind = unhex(ra[1][2:])
    if kind == 'table':
        ca, rowsa = table_rows(ra[2])
        cb, rowsb = table_rows(rb[2])
        if ca != cb:
            return 'result columns %s, model %s' % (ca, cb)
        if Counter(rowsa) != Counter(rowsb):
            return 'result rows differ: %s, model %s' % (sorted(Counter(rowsa) - Counter(rowsb), key=repr)[:5], sorted(Counter(rowsb) - Counter(rowsa), key=repr)[:5])
    elif proto.canon(ra[2]) != proto.canon(rb[2]):
        return 'result %s, model %s' % (proto.render(ra[2])[:150], proto.render(rb[2])[:150])
    la, lb = Counter(proto.canon(x) for x in a[2][1:]), Counter(proto.canon(x) for x in b[2][1:])
    if la == lb and kind == 'table' and max(Counter(rowsa).values() or [1]) == 1 and _keys_unique(ra[2], line):
        # "each computed row once, IN ROW ORDER": with unique result keys the order of the calls is the (sorted) row order
        sa, sb = [proto.canon(x) for x in a[2][1:]], [proto.canon(x) for x in b[2][1:]]
        if sa != sb:
            return ('divergence', 'same calls of f in another ORDER: %s, model %s' % (sa[:6], sb[:6]))
    if la != lb:
        return 'calls of f differ: %d calls, model %d; extra %s, missing %s' % (sum(la.values()), sum(lb.values()), list(la - lb)[:4], list(lb - la)[:4])
    return None     # same rows and same calls; only an order among equal keys differs (python set order, see ASSUMPTIONS)


def _ragged(sx):
    if isinstance(sx, list):
        if sx and sx[0] == 'D' and all(isinstance(kv, list) and len(kv) == 2 and isinstance(kv[1], list) and kv[1][:1] == ['L'] for kv in sx[1:]):
            return len(set(len(kv[1]) for kv in sx[1:])) > 1
        return any(_ragged(y) for y in sx)
    return False


def _keys_unique(tsx, line):
    sx = proto.parse(line)
    on = [proto.dec_cell(a) for a in sx[3][1:]]
    cols = {unhex(kv[0]): [proto.canon(c) for c in kv[1][1:]] for kv in tsx[1:]}
    if not all(c in cols for c in on):
        return False
    ks = list(zip(*[cols[c] for c in on]))
    return len(set(ks)) == len(ks)


def nontrivial(line, reply):
    if not reply.startswith('ok'):
        return False
    sx = proto.parse(line)
    k = 7 if sx[1] == 'callr' else 5        # call / calld
    is_table = lambda v: isinstance(v, list) and len(v) > 0 and v[0] == 'D'   # noqa: E731
    return any(is_table(kv[1]) for kv in sx[k][1:]) or is_table(sx[k + 1])


# ------------------------------------------------------------------ laws: the statement on the implementation alone

def lookup(tbl, on, k, col=None):
    """value of the non-key column (of column `col` when renamed) of a keyed table at key k; (None, False) if absent"""
    cols = [c for c in tbl.keys() if c not in on]
    for i in range(len(tbl)):
        if all(keq(tbl[c][i], k[j]) for j, c in enumerate(on)):
            return tbl[col if col is not None else cols[0]][i], True
    return None, False


def tkeys(tbl, on):
    return list(zip(*[tbl[c] for c in on])) if len(tbl) else []


def _law_container_scalars(rng, tier):
    """inputs that are not tables are scalars for perdictable WHATEVER they are: a list / tuple / range / callable value is handed to
    f as given (all-scalar call) and broadcast whole into every row (beside a table), never dealt out element by element"""
    import pyg_base
    from pyg_base import dictable
    seen = []

    def f(a, b):
        seen.append((a, b))
        return ('f', a, b)
    pf = pyg_base.perdictable(f, on='k')
    for w in ([1, 2], (1, 2), [1, 2, 3], range(3), [], len, [[1, 2]]):
        del seen[:]
        try:
            r = pf(a=w, b=5)
        except Exception as e:
            yield Finding('violation', dict(tag='law-container-scalar', lines=[], values=[repr(w)]), 'all inputs scalar, a = %r: the call raised %s instead of returning f(a, b)' % (w, type(e).__name__))
            continue
        if not (isinstance(r, tuple) and len(r) == 3 and r[0] == 'f' and r[1] is w and r[2] == 5 and len(seen) == 1):
            yield Finding('violation', dict(tag='law-container-scalar', lines=[], values=[repr(w)]), 'all inputs scalar, a = %r: result %r after %d calls, not f(a, b)' % (w, r, len(seen)))
        for keys in ([1, 2], [1, 2, 3], [7]):
            del seen[:]
            t = dictable(k=keys, b=[10 * k for k in keys])
            try:
                r = pf(a=w, b=t)
                vals = list(r['data']) if isinstance(r, dictable) else None
            except Exception as e:
                yield Finding('violation', dict(tag='law-container-scalar', lines=[], values=[repr(w), repr(keys)]), 'a = %r beside a table with keys %r: the call raised %s' % (w, keys, type(e).__name__))
                continue
            want = [('f', w, 10 * k) for k in sorted(keys)]
            ok = vals is not None and len(vals) == len(want) and all(v[0] == 'f' and v[1] is w and v[2] == x[2] for v, x in zip(vals, want))
            if not ok:
                yield Finding('violation', dict(tag='law-container-scalar', lines=[], values=[repr(w), repr(keys)]), 'a = %r beside a table with keys %r: values %r, expected f(a as given, b of the row) per row' % (w, keys, vals))


def laws(rng, tier, ctx):
    n = 400 if tier == 'quick' else 6000
    count = 0
    for fnd in _law_container_scalars(rng, tier):
        yield fnd
    count += 28
    for _ in range(n):
        tag, line = gen_case(rng, full=True)
        if 'param-without-input' in tag:
            continue                                # the call raises TypeError by design of the case (correspondence only)
        case = dict(tag='law-' + tag.split('+')[0], lines=[line])
        sx = proto.parse(line)
        count += 1
        try:
            renames = get_renames(sx) or {}
            if_none = sx[1] == 'callr' and proto.dec(sx[5])
            res, log, inputs, on, params, defaults, expiry, today = call_impl(sx)
            on = list(dict.fromkeys(on))          # a repeated key column name counts once (ulist(as_list(on)))
        except Timeout:
            yield Finding('violation', case, 'the call did not return')
            continue
        except Exception as e:
            yield Finding('violation', case, 'the call raised %s' % type(e).__name__)
            continue
        tabs = {k: v for k, v in inputs.items() if isinstance(v, dictable)}
        ftabs = {k: v for k, v in tabs.items() if k in params}
        if not tabs and not isinstance(expiry, dictable):
            want = ('f',) + tuple(inputs[p] for p in params)
            if proto.canon(proto.parse(enc(res))) != proto.canon(proto.parse(enc(want))) or len(log) != 1:
                yield Finding('violation', case, 'scalar inputs: result %r after %d calls, f(...) = %r' % (res, len(log), want))
            continue
        if isinstance(expiry, dictable):
            tabs = dict(tabs, expiry=expiry)
        same = lambda p, q: all(keq(x, y) for x, y in zip(p, q))   # noqa: E731
        nd = [t for k, t in tabs.items() if k in params and k not in defaults]
        wd = [t for k, t in tabs.items() if not (k in params and k not in defaults)]
        if nd:
            K = [k for k in tkeys(nd[0], on) if all(any(same(k, q) for q in tkeys(t, on)) for t in nd[1:])]
        else:
            K = []
            for t in wd:
                K += [k for k in tkeys(t, on) if not any(same(k, q) for q in K)]
        rows = {}
        for k in K:
            vals = []
            for p in params:
                if p in ftabs:
                    v, ok = lookup(ftabs[p], on, k, renames.get(p))
                    vals.append(v if ok else defaults[p])
                else:
                    vals.append(inputs[p])
            # (a SCALAR `data` - only when f has a parameter of that name - is the previous value of every row)
            old, ok_data = (lookup(inputs['data'], on, k) if isinstance(inputs['data'], dictable) else (inputs['data'], True)) if 'data' in inputs else (None, False)
            ex = lookup(expiry, on, k)[0] if isinstance(expiry, dictable) else expiry
            if is_nat(ex):
                ex = None                                                    # the missing date is no expiry date
            if isinstance(ex, (str, int)) and not isinstance(ex, bool):
                ex = SPELLED[ex]                                             # a date string / yyyymmdd number
            if ex is not None and not isinstance(ex, datetime.datetime):
                ex = datetime.datetime(ex.year, ex.month, ex.day)            # an expiry date given as datetime.date
            # "a previously computed value is SUPPLIED" is read per row: the data table holds this key
            keep = ok_data and ex is not None and ex < today and not (if_none and old is None)
            # outside the quantifier (expiry assigned to a key that was not previously computed): not pinned, see ASSUMPTIONS
            free = 'data' in inputs and not ok_data and ex is not None and ex < today and not if_none
            rows[tuple(ckey2(x) for x in k)] = (tuple(vals), keep, old, free)     # by the canonical key: python's dict would take (False,) for (0,)
        if not K:
            if not (res is None or ('data' in inputs and res is inputs['data'])):
                yield Finding('violation', case, 'no key is present in every table input, yet the call returned %r' % (res,))
            elif log:
                yield Finding('violation', case, 'f was called %d times although no row exists' % len(log))
            continue
        if not isinstance(res, dictable):
            yield Finding('violation', case, 'expected %d rows, got %r' % (len(K), res))
            continue
        freek = set(k for k, r in rows.items() if r[3])
        got = Counter((tuple(ckey2(res[c][i]) for c in on), canon_any(res['data'][i])) for i in range(len(res))
                      if tuple(ckey2(res[c][i]) for c in on) not in freek)
        want = Counter((k, canon_any(old if keep else ('f',) + vals)) for k, (vals, keep, old, free) in rows.items() if not free)
        if len(res) != len(rows):
            yield Finding('violation', case, '%d rows, expected one per key: %d' % (len(res), len(rows)))
            continue
        if got != want:
            yield Finding('violation', case, 'rows %s, expected %s' % (sorted(got - want, key=repr)[:4], sorted(want - got, key=repr)[:4]))
            continue
        gl = Counter(canon_any(tuple(a)) for a in log)
        wl = Counter(canon_any(vals) for vals, keep, old, free in rows.values() if not keep and not free)
        fl = Counter(canon_any(vals) for vals, keep, old, free in rows.values() if free)
        if (gl - fl) - wl or wl - gl:                  # every row to compute exactly once; a free row at most once; nothing else
            yield Finding('violation', case, 'f was called on %s, the rows to compute are %s' % (sorted(gl.elements(), key=repr)[:6], sorted(wl.elements(), key=repr)[:6]))
            continue
        ks = [{c: res[c][i] for c in on} for i in range(len(res))]
        if any(pyg_base.cmp(ks[i], ks[i + 1]) == 1 for i in range(len(ks) - 1)):
            yield Finding('violation', case, 'result is not sorted by key: %r' % (ks,))
    yield count


def ckey2(v):
    return proto.canon_cell(enc(v)) if not (isinstance(v, float) and v != v) else ('F', 'nan')


def canon_any(v):
    if isinstance(v, (list, tuple)):
        return (type(v).__name__,) + tuple(canon_any(u) for u in v)
    return ckey2(v)


MATCHERS = {}
