"""C08 - timeseries operators equal the pointwise operation on aligned operands."""
import math
from fractions import Fraction
import numpy as np
import pandas as pd
from .. import proto
from ..engine import Finding
from . import _w5ts as W
from . import c03 as A

ID = 'C08'
TITLE = 'timeseries operators equal the pointwise operation on aligned operands'
LEAN_FILES = ['Basic', 'TSBasic', 'Fill', 'FillDriver', 'Align', 'AlignDriver', 'Ops', 'OpsF', 'OpsX', 'OpsFX', 'OpsDriver', 'FillLemmas', 'AlignLemmas', 'OpsLemmas',
              'OpsFLemmas', 'OpsXLemmas', 'OpsFXLemmas', 'OpsFoldLemmas', 'OpsMixedLemmas', 'OpsFCellLemmas', 'C08']
RULE = ('distinct protocol lines (operator / aggregate, operands, index policy, fill method) on which the implementation returned a '
        'value and at least two Series / DataFrame operands are involved')
TRUSTED = ['correspondence harness (pv.engine, pv.proto, pv.props._w5ts) and generators of pv.props.c08',
           'Lean driver parser/printer (PygModel/Basic.lean, AlignDriver.lean, OpsDriver.lean)']
ASSUMPTIONS = ['pandas arithmetic of two Series on one index is pointwise with NaN absorbing, a scalar broadcasts, x/NaN = NaN (reference kernel of PygModel/Ops.lean, sampled)',
               'alignment is the model of C03 (Index.intersection/union, reindex, as-of fill)',
               'values are exact multiples of 1/4 and divisors powers of two (means: multiples of 3/4), so no rounded float is ever compared; float rounding is not modelled',
               'DataFrames: without a fill method `DataFrame.reindex(index)` reads the row of the label; with ffill / bfill the repaired `_df_reindex` (C03-A2) joins '
               'every column as-of on its OWN non-NaN observations (model `lookF`: the source row of the one-column frame of the column) and concatenates; '
               '`pd.DataFrame(dict of Series)`; the name of `x op y` is the common Series name or None (PygModel/OpsF.lean, sampled)',
               'comparisons with NaN are False, np.minimum/np.maximum propagate NaN, x**0 = 1 and 1**y = 1 also for NaN (PygModel/OpsX.lean, sampled)',
               'not modelled: frames with duplicate column names / numpy arrays (positional columns), the object-dtype empty `pd.Series({})` '
               '(no common column) fed on into an operator with a fill method, ONE-column frames as operands of min_/max_ (mmx lines: statement only, known finding '
               'C08-A2), negative or fractional exponents, df_std, float rounding; aggregates over a mix of frames and Series / one-column frames are checked '
               'against the statement only (aggx, known finding C08-A1). Modelled since round g2: column policies lj/rj, DataFrame operands of pow_ / comparisons / min_ / max_',
               'aggregates: a scalar operand counts at every timestamp / in every cell, a NaN scalar never (PygModel/Ops.lean aggregate, OpsF.lean aggregateFS, sampled)',
               '"lists of operands reduce left to right": the MODEL (opList / opListF) copies the wrappers - add_ / mul_ are the left fold, sub_ / div_ reduce each side with add_ / mul_ first; '
               'the CLAUSE (left fold of the binary operator over as_list(a) + as_list(b), for all four operators) is checked on redx lines against binary calls of the implementation: '
               'sub_ / div_ fail it for a list on the left (known finding C08-A3, theorems sub/div_list_left_not_left_fold) and agree for a list on the right by value '
               '(sub_div_right_list_left_fold). sub_ / div_ / pow_ have no default b: a list alone (list-none) is generated for add_ / mul_ only; under columns = "oj" the neutral element '
               'is applied per step of the fold (oj_neutral_per_step)',
               'SCALARS IN NUMPY SPELLINGS (round l4, review w4 F1 / F2; npx lines, implementation only): np.int8 .. np.int64 / np.uint8 / np.uint16, np.float32, np.bool_ and 0-d arrays '
               'are scalars of the quantifier; the call must answer what it answers for the same numbers as python bool / int / float (that call is what the model is compared with) and '
               'add_ / mul_ / df_sum / df_mean / df_count of a list must not depend on its order. The arithmetic of NARROW FLOATS is float rounding and not generated: np.float16(2) * 70000 '
               'is inf and np.float32 products beyond 24 bits are rounded by numpy before they meet a Series (a np.float32 is drawn beside small integers only); two scalars without any '
               'timeseries (sub_(np.int8(100), np.int8(-100))) are numpy\'s own arithmetic, outside the quantifier',
               "COLUMN LABELS (round k4, review v4 2.1 / 2.2): names are strings in the model and single letters in the generators. Tuple labels (MultiIndex columns) are NOT modelled / generated: with exactly two operands presync's column loop hands a tuple-valued `column` keyword out member by member (loops._item_by_i) - add_(fa, fb) raises, columns='oj' answers a wrong Series silently; labels that cannot be ordered with one another (['a', 1] vs [1, 'b'], None) raise TypeError in sorted(columns) when the headers differ. 'arbitrary column sets' is read as sets of mutually orderable non-tuple labels"]
S = 4
nan = float('nan')
VALS = [0.0, 0.0, 1.0, -1.0, 2.0, 0.5, -0.25, 3.0, 1.5]
DIVS = [1.0, -1.0, 2.0, -2.0, 4.0, 0.5, 0.25, 0.0, 0.0]
MEANV = [0.0, 0.75, 1.5, -0.75, 3.0, 2.25]
OPS = ['add', 'sub', 'mul', 'div']
HOWS = ['ij', 'oj', 'ij', 'oj', 'lj', 'rj']
METHODS = ['N', 'N', 'ffill', 'bfill']
CHS = ['ij', 'oj', 'ij', 'oj', 'lj', 'rj']          # column policies: the two of the quantifier, and first / last frame's columns


# ------------------------------------------------------------------ wire

def enc_in(x):
    if isinstance(x, pd.DataFrame):
        return '(df %s)' % W.enc_frame(x, S)
    if isinstance(x, pd.Series):
        return '(ts %s)' % W.enc_series(x, S)
    if isinstance(x, list):
        return '(L' + ''.join(' ' + enc_in(v) for v in x) + ')'
    if x is None:
        return 'N'
    if isinstance(x, np.ndarray) and x.ndim == 0:     # npx lines only: a 0-d array as a scalar
        return '(npnum %s %s)' % ('arr0i' if x.dtype.kind in 'iu' else 'arr0f', W.enc_v(x.item(), S))
    if isinstance(x, np.bool_):
        return '(npnum bool %s)' % W.enc_v(int(x), S)
    if isinstance(x, np.generic) and type(x) is not np.float64:      # npx lines only: np.int8 .. np.float32 spellings of a scalar
        return '(npnum %s %s)' % (x.dtype.name, W.enc_v(float(x), S))
    return '(num %s)' % W.enc_v(x, S)


NPKINDS = {'int8': np.int8, 'uint8': np.uint8, 'int16': np.int16, 'uint16': np.uint16, 'int32': np.int32, 'int64': np.int64,
           'float32': np.float32, 'bool': np.bool_, 'arr0i': lambda v: np.array(int(v)), 'arr0f': lambda v: np.array(float(v))}


NPFLOATKINDS = ('float32', 'arr0f')


def dec_in(sx, numpy_spelling=True):
    if sx == 'N':
        return None
    if sx[0] == 'npnum':      # a scalar in a numpy spelling (npx lines); numpy_spelling = False: the SAME number as a python bool / int / float
        v = W.dec_v(sx[2], S)
        if numpy_spelling:
            return NPKINDS[sx[1]](v if (sx[1] in NPFLOATKINDS or math.isnan(v)) else int(v))
        return bool(v) if sx[1] == 'bool' else v if (sx[1] in NPFLOATKINDS or math.isnan(v)) else int(v)
    if sx[0] == 'ts':
        return W.dec_series(sx[1], S)
    if sx[0] == 'df':
        return W.dec_frame(sx[1], S)
    if sx[0] == 'num':
        v = W.dec_v(sx[1], S)
        return int(v) if not math.isnan(v) and v == int(v) and int(v) % 2 == 1 else v     # odd whole numbers travel as python ints
    if sx[0] == 'L':
        return [dec_in(v, numpy_spelling) for v in sx[1:]]
    raise ValueError('bad operand')


def enc_q(v):
    v = float(v)
    if math.isnan(v):
        return 'F:nan'
    if math.isinf(v):
        return 'F:inf' if v > 0 else 'F:-inf'
    q = Fraction(v)
    return 'Q:%d/%d' % (q.numerator, q.denominator)


def enc_out(r, sort_columns=False):
    if r is None:
        return 'N'
    if isinstance(r, pd.DataFrame) and r.shape[1] > 0 and all(dt == bool for dt in r.dtypes):
        return '(bdf (T (L%s) (D%s)))' % (''.join(' ' + W.enc_t(t) for t in r.index),
                                          ''.join(' (%s (L%s))' % (proto.hexs(str(r.columns[j])), ''.join(' true' if v else ' false' for v in r.iloc[:, j].values))
                                                  for j in range(r.shape[1])))
    if isinstance(r, pd.DataFrame):
        cols = list(range(r.shape[1]))
        if sort_columns:        # the aggregates: the order of the joint columns is pandas' business (Index.union / intersection)
            cols.sort(key=lambda j: str(r.columns[j]))
        return '(df (T (L%s) (D%s)))' % (''.join(' ' + W.enc_t(t) for t in r.index),
                                         ''.join(' (%s (L%s))' % (proto.hexs(str(r.columns[j])), ''.join(' ' + enc_q(v) for v in r.iloc[:, j].values)) for j in cols))
    if isinstance(r, pd.Series) and r.dtype == bool:
        return '(bts (L' + ''.join(' (T %s %s)' % (W.enc_t(t), 'true' if v else 'false') for t, v in zip(r.index, r.values)) + '))'
    if isinstance(r, (bool, np.bool_)):
        return '(flag %s)' % ('true' if r else 'false')
    if isinstance(r, pd.Series):
        return '(ts (L' + ''.join(' (T %s %s)' % (W.enc_t(t), enc_q(v)) for t, v in zip(r.index, r.values)) + '))'
    if isinstance(r, (int, float, np.integer, np.floating)):
        return '(num %s)' % enc_q(r)
    raise proto.Unencodable('result %s' % type(r).__name__)


# ------------------------------------------------------------------ generators

def rand_series(rng, days, vals, nan_rate=0.18):
    return pd.Series([nan if rng.random() < nan_rate else rng.choice(vals) for _ in days], pd.DatetimeIndex([W.day(d) for d in days]), dtype=float)


def rand_operands(rng, k, vals):
    rel = rng.choice(['disjoint', 'nested', 'super', 'overlap', 'overlap', 'empty'])
    base = A.rand_days(rng, 'overlap', [])
    out = []
    for j in range(k):
        days = base if j == 0 else A.rand_days(rng, rel if (rel != 'empty' or j == 1) else 'overlap', base)
        out.append(rand_series(rng, days, vals))
    rng.shuffle(out)
    return out, rel


COLSETS = [['a', 'b'], ['a', 'b'], ['a', 'b', 'c'], ['b', 'c'], ['b', 'a'], ['c', 'd'], ['b', 'd', 'a'], ['c', 'a', 'b']]
ONECOL = [['z'], ['a'], ['z'], ['w']]


def rand_frame(rng, days, vals, names, nan_rate=0.18):
    data = {c: [nan if rng.random() < nan_rate else rng.choice(vals) for _ in days] for c in names}
    for i in range(len(days)):
        if rng.random() < 0.15:          # rows that are entirely NaN: `_nona` drops them before an as-of reindex
            for c in names:
                data[c][i] = nan
    return pd.DataFrame({c: np.array(v, dtype=float) for c, v in data.items()}, index=pd.DatetimeIndex([W.day(d) for d in days]), columns=names, dtype=float)


def rand_fdays(rng, k):
    rel = rng.choice(['disjoint', 'nested', 'super', 'overlap', 'overlap', 'overlap', 'empty', 'same'])
    base = A.rand_days(rng, 'overlap', [])
    out = [base]
    for j in range(1, k):
        out.append(list(base) if rel == 'same' else A.rand_days(rng, rel if (rel != 'empty' or j == 1) else 'overlap', base))
    rng.shuffle(out)
    return out, rel


def rand_colsets(rng, k):
    crel = rng.choice(['same', 'any', 'any', 'any', 'perm'])
    first = rng.choice(COLSETS)
    out = [first]
    for _ in range(1, k):
        if crel == 'same':
            out.append(list(first))
        elif crel == 'perm':
            c = list(first)
            rng.shuffle(c)
            out.append(c)
        else:
            out.append(rng.choice(COLSETS))
    return out, crel


def gen_frames(rng, tier):
    n = 700 if tier == 'quick' else 16000
    for _ in range(n):
        op = rng.choice(OPS)
        how, m, ch = rng.choice(HOWS), rng.choice(METHODS), rng.choice(CHS)
        shape = rng.choice(['df-df', 'df-df', 'df-df', 'df-df', 'df-ts', 'ts-df', 'df-num', 'num-df', 'df1-df', 'df-df1', 'df1-df1', 'df1-ts', 'ts-df1',
                            'df1-num', 'list-none', 'list-none', 'list-df', 'df-list', 'mix-list'])
        k = 2 if '-list' not in shape and 'list-' not in shape else rng.choice([3, 3, 4])
        days, rel = rand_fdays(rng, k)
        cs, crel = rand_colsets(rng, k)
        if k > 2 and ch == 'ij' and m != 'N':
            # not modelled: frames without a common column give `pd.Series({})` (object dtype, no datetime index); reducing on with a
            # fill method makes `_nona` raise TypeError on it (np.isnan of an object array) - see docs/notes/C08.md
            cs = [c if 'b' in c else ['b', 'c'] for c in cs]
        num = lambda: rng.choice([0.0, 1.0, 2.0, -0.5, 4.0, 1, 0.25])
        dnum = lambda: rng.choice(DIVS)

        def mk(kind, j, div=False):
            vals = DIVS if div else VALS
            if kind == 'df':
                return rand_frame(rng, days[j], vals, cs[j])
            if kind == 'df1':
                return rand_frame(rng, days[j], vals, rng.choice(ONECOL))
            if kind == 'ts':
                return rand_series(rng, days[j], vals)
            return dnum() if div else num()
        if shape in ('list-none', 'list-df', 'df-list', 'mix-list'):
            kinds = ['df'] * k if shape != 'mix-list' else [rng.choice(['df', 'df', 'ts', 'num', 'df1']) for _ in range(k)]
            if shape == 'list-none':
                if op in ('sub', 'div'):
                    op = rng.choice(['add', 'mul'])
                a, b = [mk(kinds[j], j) for j in range(k)], None
            elif shape == 'df-list':
                a, b = mk('df', 0), [mk(kinds[j], j, op == 'div') for j in range(1, k)]
            else:
                a, b = [mk(kinds[j], j) for j in range(k - 1)], mk(kinds[-1], k - 1, op == 'div')
        else:
            ka, kb = shape.split('-')
            a, b = mk(ka, 0), mk(kb, 1, op == 'div')
        yield dict(tag='binf/%s/%s/%s/%s/%s/%s/%s' % (op, shape, rel, crel, how, m, ch),
                   lines=['(ops binf %s %s %s %s %s %s)' % (op, enc_in(a), enc_in(b), how, m, ch)])
    n = 250 if tier == 'quick' else 6000
    for _ in range(n):
        g = rng.choice(['sum', 'mean', 'count'])
        k = rng.choice([1, 2, 2, 3, 4])
        days, rel = rand_fdays(rng, k)
        cs, crel = rand_colsets(rng, k)
        fs = [rand_frame(rng, days[j], MEANV if g == 'mean' else VALS, cs[j]) for j in range(k)]
        how, m, ch = rng.choice(['oj', 'oj', 'oj', 'ij']), rng.choice(['N', 'N', 'ffill', 'bfill']), rng.choice(['oj', 'oj', 'ij'])
        sc = ''
        if rng.random() < 0.3:
            fs, sc = with_scalars(rng, fs, g), '+scalar'         # a scalar counts in every cell
        yield dict(tag='aggf/%s/%d/%s/%s/%s/%s/%s%s' % (g, k, rel, crel, how, m, ch, sc), lines=['(ops aggf %s %s %s %s %s)' % (g, enc_in(fs), how, m, ch)])
    # aggregates over MIXED operands (a Series or a one-column frame beside frames / other names): not in the Lean model, the
    # statement is checked directly (check_agg_mixed); known finding C08-A1 lives here
    n = 120 if tier == 'quick' else 3000
    for _ in range(n):
        g = rng.choice(['sum', 'mean', 'count'])
        xs, shape = rand_mixed(rng, g)
        yield dict(tag='aggx/%s/%s' % (g, shape), lines=['(ops aggx %s %s oj N oj)' % (g, enc_in(xs))])


MIXED = ['ts+df', 'ts+df', 'df+ts+num', 'df1x+df1y', 'df1x+df1y', 'df1+ts', 'df+df1', 'df+df1-other', 'df1x+df1x', 'df+num+df']


def rand_mixed(rng, g):
    shape = rng.choice(MIXED)
    vals = MEANV if g == 'mean' else VALS
    days, rel = rand_fdays(rng, 3)
    ts = lambda j: rand_series(rng, days[j], vals)
    df = lambda j, names: rand_frame(rng, days[j], vals, names)
    if shape == 'ts+df':
        xs = [ts(0), df(1, rng.choice(COLSETS))]
    elif shape == 'df+ts+num':
        xs = [df(0, rng.choice(COLSETS)), ts(1), rng.choice(vals)]
    elif shape == 'df1x+df1y':
        xs = [df(0, ['x']), df(1, ['y'])]
    elif shape == 'df1+ts':
        xs = [df(0, ['x']), ts(1)]
    elif shape == 'df+df1':
        xs = [df(0, ['a', 'b']), df(1, ['a'])]
    elif shape == 'df+df1-other':
        xs = [df(0, ['a', 'b']), df(1, ['z'])]
    elif shape == 'df1x+df1x':
        xs = [df(0, ['x']), df(1, ['x'])]                       # control: works (pandas adds by name)
    else:
        xs = [df(0, ['a', 'b']), rng.choice(vals), df(1, rng.choice([['a', 'b'], ['b', 'c']]))]      # control: modelled shape
    if rng.random() < 0.5:
        xs = xs[::-1]
    return xs, shape


POWB = [0.0, 1.0, 1.0, -1.0, 2.0, 0.5, -0.5, 3.0, 1.5, -0.25]
POWE = [0.0, 0.0, 1.0, 2.0, 3.0, 2.0]


def gen_others(rng, tier):
    """comparisons, min_/max_, pow_ (non-negative integer exponents) on Series and scalars"""
    n = 450 if tier == 'quick' else 9000
    for _ in range(n):
        kind = rng.choice(['cmp', 'cmp', 'mm', 'mm', 'pow'])
        how, m = rng.choice(HOWS), rng.choice(METHODS)
        num = lambda: rng.choice([0.0, 1.0, 2.0, -0.5, 4.0, 1, 0.25, nan])
        if kind == 'mm':
            k = rng.choice([1, 2, 2, 3, 4])
            ss, rel = rand_operands(rng, k, VALS)
            shape = rng.choice(['list-none', 'ts-ts', 'ts-list', 'ts-num', 'num-ts', 'list-num', 'num-num', 'none'])
            if shape == 'list-none':
                a, b = ss + ([num()] if rng.random() < 0.3 else []), None
            elif shape == 'ts-ts':
                a, b = ss[0], ss[-1]
            elif shape == 'ts-list':
                a, b = ss[0], ss[1:]
            elif shape == 'ts-num':
                a, b = ss[0], num()
            elif shape == 'num-ts':
                a, b = num(), ss[0]
            elif shape == 'list-num':
                a, b = ss, num()
            elif shape == 'num-num':
                a, b = num(), num()
            else:
                a, b = [], None
            yield dict(tag='mm/%s/%s/%s/%s' % (shape, rel, how, m), lines=['(ops mm %s %s %s %s %s)' % (rng.choice(['min', 'max']), enc_in(a), enc_in(b), how, m)])
            continue
        shape = rng.choice(['ts-ts', 'ts-ts', 'ts-ts', 'ts-num', 'num-ts', 'num-num'])
        if kind == 'cmp':
            ss, rel = rand_operands(rng, 2, [0.0, 1.0, 1.0, -1.0, 2.0, 0.5])
            a = ss[0] if shape[:2] == 'ts' else num()
            b = ss[1] if shape[-2:] == 'ts' else num()
            yield dict(tag='cmp/%s/%s/%s/%s' % (shape, rel, how, m), lines=['(ops cmp %s %s %s %s %s)' % (rng.choice(['gt', 'ge', 'lt', 'le']), enc_in(a), enc_in(b), how, m)])
        else:
            rel = rng.choice(['disjoint', 'nested', 'super', 'overlap', 'overlap'])
            da = A.rand_days(rng, 'overlap', [])
            db = A.rand_days(rng, rel, da)
            a = rand_series(rng, da, POWB) if shape[:2] == 'ts' else rng.choice(POWB + [nan, 1])
            b = rand_series(rng, db, POWE) if shape[-2:] == 'ts' else rng.choice(POWE + [nan, 1, 3])
            yield dict(tag='pow/%s/%s/%s/%s' % (shape, rel, how, m), lines=['(ops pow %s %s %s %s)' % (enc_in(a), enc_in(b), how, m)])


FSHAPES = ['df-df', 'df-df', 'df-df', 'df-df', 'df-ts', 'ts-df', 'df-num', 'num-df', 'df1-df', 'df-df1', 'df1-df1', 'df1-ts', 'ts-df1', 'df1-num']


def gen_others_frames(rng, tier):
    """pow_ and the comparisons with DataFrame operands (the presync column loop with default = nan)"""
    n = 400 if tier == 'quick' else 9000
    for _ in range(n):
        kind = rng.choice(['cmpf', 'cmpf', 'powf'])
        how, m, ch = rng.choice(HOWS), rng.choice(METHODS), rng.choice(CHS)
        shape = rng.choice(FSHAPES)
        days, rel = rand_fdays(rng, 2)
        cs, crel = rand_colsets(rng, 2)

        def mk(kind_, j, vals, nums):
            if kind_ == 'df':
                return rand_frame(rng, days[j], vals, cs[j])
            if kind_ == 'df1':
                return rand_frame(rng, days[j], vals, rng.choice(ONECOL))
            if kind_ == 'ts':
                return rand_series(rng, days[j], vals)
            return rng.choice(nums)
        ka, kb = shape.split('-')
        if kind == 'cmpf':
            cv = [0.0, 1.0, 1.0, -1.0, 2.0, 0.5]
            nums = [0.0, 1.0, 2.0, -0.5, 1, 0.25, nan]
            a, b = mk(ka, 0, cv, nums), mk(kb, 1, cv, nums)
            yield dict(tag='cmpf/%s/%s/%s/%s/%s/%s' % (shape, rel, crel, how, m, ch),
                       lines=['(ops cmpf %s %s %s %s %s %s)' % (rng.choice(['gt', 'ge', 'lt', 'le']), enc_in(a), enc_in(b), how, m, ch)])
        else:
            a, b = mk(ka, 0, POWB, POWB + [nan, 1]), mk(kb, 1, POWE, POWE + [nan, 1, 3])
            yield dict(tag='powf/%s/%s/%s/%s/%s/%s' % (shape, rel, crel, how, m, ch), lines=['(ops powf %s %s %s %s %s)' % (enc_in(a), enc_in(b), how, m, ch)])


def gen_mm_frames(rng, tier):
    """min_ / max_ over scalars, Series and frames with several columns (df_sync of all operands, then the left fold)"""
    n = 300 if tier == 'quick' else 7000
    for _ in range(n):
        how, m, ch = rng.choice(HOWS), rng.choice(METHODS), rng.choice(CHS)
        shape = rng.choice(['df-df', 'df-df', 'df-df', 'df-ts', 'ts-df', 'df-num', 'num-df', 'list-none', 'list-none', 'df-list', 'list-df'])
        k = 2 if 'list' not in shape else rng.choice([3, 3, 4])
        days, rel = rand_fdays(rng, k)
        cs, crel = rand_colsets(rng, k)
        num = lambda: rng.choice([0.0, 1.0, 2.0, -0.5, 4.0, 1, 0.25, nan])

        def mk(kind, j):
            return rand_frame(rng, days[j], VALS, cs[j]) if kind == 'df' else rand_series(rng, days[j], VALS) if kind == 'ts' else num()
        if 'list' in shape:
            kinds = [rng.choice(['df', 'df', 'ts', 'num']) for _ in range(k)]
            kinds[rng.randrange(k)] = 'df'
            if 'ts' in kinds and ch == 'ij' and rng.random() < 0.9:
                cs = [c if 'b' in c else ['b', 'c'] for c in cs]     # mostly keep a common column: a frame without columns beside a Series raises
            xs = [mk(kinds[j], j) for j in range(k)]
            a, b = (xs, None) if shape == 'list-none' else (xs[0], xs[1:]) if shape == 'df-list' else (xs[:-1], xs[-1])
        else:
            ka, kb = shape.split('-')
            a, b = mk(ka, 0), mk(kb, 1)
        yield dict(tag='mmf/%s/%s/%s/%s/%s/%s' % (shape, rel, crel, how, m, ch),
                   lines=['(ops mmf %s %s %s %s %s %s)' % (rng.choice(['min', 'max']), enc_in(a), enc_in(b), how, m, ch)])


MMX = ['df1x+df1y', 'df1x+df1y', 'df1x+df1x', 'df1+df', 'df1+ts', 'df1+num', 'dfab+dfxy+ts', 'dfab+dfxy+num']


def gen_mm_mixed(rng, tier):
    """min_ / max_ with ONE-column frames, and frames without a common column beside a Series: not in the Lean model (the driver
    answers bad-op), the statement is checked directly (check_mm_mixed); known finding C08-A2 lives here"""
    n = 80 if tier == 'quick' else 2000
    for _ in range(n):
        shape = rng.choice(MMX)
        days, rel = rand_fdays(rng, 3)
        ts = lambda j: rand_series(rng, days[j], VALS)
        df = lambda j, names: rand_frame(rng, days[j], VALS, names)
        xs = {'df1x+df1y': lambda: [df(0, ['x']), df(1, ['y'])], 'df1x+df1x': lambda: [df(0, ['x']), df(1, ['x'])],
              'df1+df': lambda: [df(0, ['z']), df(1, rng.choice(COLSETS))], 'df1+ts': lambda: [df(0, ['z']), ts(1)],
              'df1+num': lambda: [df(0, ['z']), rng.choice(VALS)], 'dfab+dfxy+ts': lambda: [df(0, ['a', 'b']), df(1, ['x', 'y']), ts(2)],
              'dfab+dfxy+num': lambda: [df(0, ['a', 'b']), df(1, ['x', 'y']), rng.choice(VALS)]}[shape]()
        if rng.random() < 0.5:
            xs = xs[::-1]
        yield dict(tag='mmx/%s' % shape, lines=['(ops mmx %s %s)' % (rng.choice(['min', 'max']), enc_in(xs))])


def gen_reduce(rng, tier):
    """"lists of operands reduce left to right" checked against the statement itself (redx lines, `check_reduce`): the call with
    a list on the left, on the right or on both sides must equal the LEFT FOLD of the binary operator over `as_list(a) + as_list(b)`.
    add_ / mul_ do (they are `reducer`); sub_ / div_ reduce each side with add_ / mul_ first - known finding C08-A3.
    Index policies ij / oj and column policies ij / oj (the quantifier's), every fill method; with columns = 'ij' every frame has
    column b (the chain through the object-dtype `pd.Series({})` of frames without a common column is not modelled, see notes)."""
    n = 260 if tier == 'quick' else 6000
    for _ in range(n):
        op = rng.choice(OPS)
        how, m, ch = rng.choice(['ij', 'oj']), rng.choice(METHODS), rng.choice(['ij', 'oj'])
        shape = rng.choice(['list-x', 'list-x', 'x-list', 'list-list'] + (['list-none'] if op in ('add', 'mul') else []))
        na = 1 if shape == 'x-list' else rng.choice([2, 2, 3])
        nb = 0 if shape == 'list-none' else 1 if shape == 'list-x' else rng.choice([1, 2, 2]) if shape == 'x-list' else rng.choice([1, 2])
        k = na + nb
        kind = rng.choice(['ts', 'ts', 'df', 'df', 'mix'])
        days, rel = rand_fdays(rng, k)
        if kind == 'ts':
            cs = [None] * k
            kinds = ['ts'] * k
        else:
            cs, crel = rand_colsets(rng, k)
            if ch == 'ij':
                cs = [c if 'b' in c else ['b', 'c'] for c in cs]
            kinds = ['df'] * k if kind == 'df' else [rng.choice(['df', 'df', 'ts', 'df1']) for _ in range(k)]
        if rng.random() < 0.25:
            kinds[rng.randrange(k)] = 'num'           # scalars inside the lists / on either side
        xs = []
        for j in range(k):
            vals = DIVS if (op == 'div' and j > 0) else VALS      # every divisor of the left fold is a power of two: nothing is rounded
            xs.append(rand_frame(rng, days[j], vals, cs[j]) if kinds[j] == 'df' else rand_frame(rng, days[j], vals, rng.choice(ONECOL)) if kinds[j] == 'df1'
                      else rand_series(rng, days[j], vals) if kinds[j] == 'ts' else rng.choice(vals + [1, 0.25]))
        a = xs[0] if shape == 'x-list' else xs[:na]
        b = None if nb == 0 else xs[na] if (shape == 'list-x' or (nb == 1 and rng.random() < 0.5)) else xs[na:]
        yield dict(tag='redx/%s/%s/%s/%s/%s/%s' % (op, shape, kind, how, m, ch),
                   lines=['(ops redx %s %s %s %s %s %s)' % (op, enc_in(a), enc_in(b), how, m, ch)])


NPINTS = [np.int8(100), np.int8(100), np.int8(64), np.int8(-128), np.int8(127), np.int8(3), np.uint8(200), np.uint8(200), np.uint8(255), np.uint8(16),
          np.int16(300), np.int16(30000), np.uint16(65535), np.int32(70000), np.int64(100), np.int64(3)]
NPFLOATS = [np.float32(0.5), np.float32(1.5), np.float32(-0.25), np.float32(256.0)]
NPSMALL = [np.int8(3), np.int8(64), np.uint8(16), np.int64(3), np.int16(-4)]     # beside a np.float32: python int * np.float32 is a float32 (24 bits), nothing may be rounded
NPDIVS = [np.bool_(False), np.bool_(True), np.array(0), np.array(2), np.array(0.), np.array(0.5), np.int8(0), np.int8(2), np.uint8(0), np.uint8(4), np.int64(0),
          np.float32(0.0), np.float32(0.5), np.float32(-2.0), np.int16(-4)]


def gen_npscalars(rng, tier):
    """SCALARS IN THEIR NUMPY SPELLINGS (review w4 F1 / F2; npx lines, implementation only - the model's scalars are numbers, the
    spelling of a number is not on its wire): "scalars broadcast", "lists of operands reduce left to right", "add_ and mul_ are
    commutative", "division by zero yields NaN" are stated for scalars, and a np.int8 / np.uint8 / np.int16 / np.float32 / np.bool_ /
    0-d array IS a scalar (is_num admits every np.integer since e030b7f).  `check_np`: the call must return what the call with the same
    numbers as python bool / int / float returns (that call is what the bin / agg / redx lines compare with the model), and add_ /
    mul_ / df_sum / df_mean / df_count of a list must not depend on the order of the list.  The integers are large for their width
    (100 * 100, 200 + 200: numpy's scalar arithmetic wraps around silently), the divisors include every spelling of zero."""
    n = 200 if tier == 'quick' else 5000
    for _ in range(n):
        name = rng.choice(['add', 'mul', 'add', 'mul', 'sub', 'div', 'div', 'sum', 'mean', 'count'])
        how, m = rng.choice(['ij', 'oj']), rng.choice(['N', 'N', 'N', 'ffill'])
        kind = rng.choice(['ts', 'ts', 'df'])
        cs = rng.choice(COLSETS)
        mk = lambda vals: (rand_series(rng, A.rand_days(rng, 'overlap', []), vals) if kind == 'ts' else rand_frame(rng, A.rand_days(rng, 'overlap', []), vals, cs))
        if name == 'div':
            z = rng.choice(NPDIVS)
            shape = rng.choice(['x-num', 'x-num', 'x-num', 'num-x', 'list-num'])
            a, b = (mk(VALS), z) if shape == 'x-num' else (z, mk(DIVS)) if shape == 'num-x' else ([mk(VALS), rng.choice(NPINTS)], z)
        else:
            k = rng.choice([1, 1, 2])
            xs = [mk(VALS) for _ in range(k)]
            sc = [rng.choice(NPINTS + NPINTS + NPFLOATS) for _ in range(rng.choice([1, 2, 2, 3]) if k == 1 else rng.choice([1, 2]))]
            if any(isinstance(x, np.floating) for x in sc):
                sc = [x if isinstance(x, np.floating) else rng.choice(NPSMALL) for x in sc]
            if len(sc) >= 2 and rng.random() < 0.5:      # two narrow integers of one width next to one another: the fold meets them before a Series
                sc[1] = type(sc[0])(sc[0])
            shape = rng.choice(['nums-first', 'nums-first', 'nums-last', 'shuffled'])
            lst = sc + xs if shape == 'nums-first' else xs + sc
            if shape == 'shuffled':
                rng.shuffle(lst)
            if name in ('sum', 'mean', 'count') or rng.random() < 0.6:
                a, b = lst, None
            else:
                cut = rng.randrange(1, len(lst))
                a, b = (lst[:cut] if cut > 1 or rng.random() < 0.5 else lst[0]), (lst[cut:] if len(lst) - cut > 1 or rng.random() < 0.5 else lst[cut])
            if b is None and name == 'sub':
                a, b = lst[:-1] if len(lst) > 2 else lst[0], lst[-1]
        yield dict(tag='npx/%s/%s/%s/%s/%s' % (name, shape, kind, how, m), lines=['(ops npx %s %s %s %s %s)' % (name, enc_in(a), enc_in(b), how, m)])


def generate(rng, tier):
    yield from gen_npscalars(rng, tier)
    yield from gen_reduce(rng, tier)
    yield from gen_mm_frames(rng, tier)
    yield from gen_mm_mixed(rng, tier)
    yield from gen_series(rng, tier)
    yield from gen_frames(rng, tier)
    yield from gen_others(rng, tier)
    yield from gen_others_frames(rng, tier)


def gen_series(rng, tier):
    n = 900 if tier == 'quick' else 20000
    for _ in range(n):
        op = rng.choice(OPS)
        how, m = rng.choice(HOWS), rng.choice(METHODS)
        shape = rng.choice(['ts-ts', 'ts-ts', 'ts-ts', 'ts-num', 'num-ts', 'list-none', 'list-ts', 'ts-list', 'num-num'])
        k = {'ts-ts': 2, 'ts-num': 1, 'num-ts': 1, 'num-num': 0}.get(shape, rng.choice([2, 3, 4]))
        ss, rel = rand_operands(rng, max(k, 1), VALS)
        dv = lambda: rand_series(rng, A.rand_days(rng, 'overlap', []), DIVS)
        num = lambda: rng.choice([0.0, 1.0, 2.0, -0.5, 4.0, 1, 0.25])
        if shape == 'ts-ts':
            a, b = ss[0], (dv() if op == 'div' else ss[1])
        elif shape == 'ts-num':
            a, b = ss[0], (rng.choice(DIVS) if op == 'div' else num())
        elif shape == 'num-ts':
            a, b = num(), (dv() if op == 'div' else ss[0])
        elif shape == 'num-num':
            a, b = num(), (rng.choice(DIVS) if op == 'div' else num())
        elif shape == 'list-none':
            if op in ('sub', 'div'):
                op = rng.choice(['add', 'mul'])
            a, b = ss + ([num()] if rng.random() < 0.3 else []), None
        elif shape == 'list-ts':
            a, b = ss[:-1], (dv() if op == 'div' else ss[-1])
        else:
            a, b = ss[0], ([dv() for _ in ss[1:]] if op == 'div' else ss[1:])
        yield dict(tag='bin/%s/%s/%s/%s/%s' % (op, shape, rel, how, m),
                   lines=['(ops bin %s %s %s %s %s)' % (op, enc_in(a), enc_in(b), how, m)])
    n = 300 if tier == 'quick' else 8000
    for _ in range(n):
        g = rng.choice(['sum', 'mean', 'count'])
        ss, rel = rand_operands(rng, rng.choice([1, 2, 3, 4]), MEANV if g == 'mean' else VALS)
        how, m = rng.choice(['oj', 'oj', 'oj', 'ij']), rng.choice(['N', 'N', 'ffill'])
        sc = ''
        r = rng.random()
        if r < 0.35:
            # scalar operands: a number counts at every timestamp, a NaN scalar never (r4: the model used to drop them)
            ss, sc = with_scalars(rng, ss, g), '+scalar'
        elif r < 0.4:
            ss, sc = [agg_scalar(rng, g) for _ in ss], '+scalars-only'
        yield dict(tag='agg/%s/%d/%s/%s/%s%s' % (g, len(ss), rel, how, m, sc), lines=['(ops agg %s %s %s %s)' % (g, enc_in(ss), how, m)])


def agg_scalar(rng, g):
    return rng.choice((MEANV if g == 'mean' else VALS) + [nan, nan, 3])


def with_scalars(rng, xs, g):
    xs = list(xs)
    for _ in range(rng.choice([1, 1, 2])):
        if len(xs) < 4:
            xs.insert(rng.randrange(len(xs) + 1), agg_scalar(rng, g))
    return xs


# ------------------------------------------------------------------ implementation runner

def _fn(name):
    import pyg_base
    return getattr(pyg_base, name, None) or getattr(__import__('pyg_base._pandas', fromlist=[name]), name)


def run_line(state, sx):
    op, args = sx[1], sx[2:]
    if op == 'bin':
        a, b = dec_in(args[1]), dec_in(args[2])
        before = A.snapshot_tree([a, b])
        f = _fn(args[0] + '_')
        res = f(a, b, join=args[3], method=A.dec_method(args[4]))
        if not A.same_tree([a, b], before):
            return 'violation input-modified'
        return 'ok ' + enc_out(res)
    if op == 'agg':
        xs = dec_in(args[1])
        before = A.snapshot_tree(xs)
        res = _fn('df_' + args[0])(xs, join=args[2], method=A.dec_method(args[3]))
        if not A.same_tree(xs, before):
            return 'violation input-modified'
        return 'ok ' + enc_out(res)
    if op in ('cmp', 'mm'):
        a, b = dec_in(args[1]), dec_in(args[2])
        before = A.snapshot_tree([a, b])
        res = _fn(args[0] + '_')(a, b, join=args[3], method=A.dec_method(args[4]))
        if not A.same_tree([a, b], before):
            return 'violation input-modified'
        return 'ok ' + enc_out(res)
    if op == 'pow':
        a, b = dec_in(args[0]), dec_in(args[1])
        before = A.snapshot_tree([a, b])
        res = _fn('pow_')(a, b, join=args[2], method=A.dec_method(args[3]))
        if not A.same_tree([a, b], before):
            return 'violation input-modified'
        return 'ok ' + enc_out(res)
    if op == 'binf':
        a, b = dec_in(args[1]), dec_in(args[2])
        before = A.snapshot_tree([a, b])
        res = _fn(args[0] + '_')(a, b, join=args[3], method=A.dec_method(args[4]), columns=args[5])
        if not A.same_tree([a, b], before):
            return 'violation input-modified'
        return 'ok ' + enc_out(res)
    if op == 'powf':
        a, b = dec_in(args[0]), dec_in(args[1])
        before = A.snapshot_tree([a, b])
        res = _fn('pow_')(a, b, join=args[2], method=A.dec_method(args[3]), columns=args[4])
        if not A.same_tree([a, b], before):
            return 'violation input-modified'
        return 'ok ' + enc_out(res)
    if op == 'cmpf':
        a, b = dec_in(args[1]), dec_in(args[2])
        before = A.snapshot_tree([a, b])
        res = _fn(args[0] + '_')(a, b, join=args[3], method=A.dec_method(args[4]), columns=args[5])
        if not A.same_tree([a, b], before):
            return 'violation input-modified'
        if isinstance(res, pd.Series) and len(res) == 0:
            return 'ok (bts (L))'                # no common column: `pd.Series({})`, an empty Series of no particular dtype
        return 'ok ' + enc_out(res)
    if op == 'mmf':
        a, b = dec_in(args[1]), dec_in(args[2])
        before = A.snapshot_tree([a, b])
        res = _fn(args[0] + '_')(a, b, join=args[3], method=A.dec_method(args[4]), columns=args[5])
        if not A.same_tree([a, b], before):
            return 'violation input-modified'
        return 'ok ' + enc_out(res, sort_columns=True)
    if op == 'aggf':
        xs = dec_in(args[1])
        before = A.snapshot_tree(xs)
        res = _fn('df_' + args[0])(xs, join=args[2], method=A.dec_method(args[3]), columns=args[4])
        if not A.same_tree(xs, before):
            return 'violation input-modified'
        return 'ok ' + enc_out(res, sort_columns=True)
    if op == 'redx':       # lists of operands: the call against the left fold of the binary operator (the statement itself)
        bad = check_reduce(args[0], dec_in(args[1]), dec_in(args[2]), args[3], A.dec_method(args[4]), args[5])
        return 'violation ' + bad if bad else 'ok redx-checked'
    if op == 'npx':        # scalars in numpy spellings: checked against the call with python numbers and against permutations (statement itself)
        bad = check_np(args[0], args[1], args[2], args[3], A.dec_method(args[4]))
        return 'violation ' + bad if bad else 'ok npx-checked'
    if op == 'mmx':        # min_ / max_ with one-column frames: checked against the statement itself
        bad = check_mm_mixed(args[0], dec_in(args[1]))
        return 'violation ' + bad if bad else 'ok mmx-checked'
    if op == 'aggx':       # aggregates over mixed operands: checked against the statement itself
        bad = check_agg_mixed(args[0], dec_in(args[1]))
        return 'violation ' + bad if bad else 'ok aggx-checked'
    if op == 'frames':     # DataFrame operands: not in the Lean model, checked against the python reference of the statement
        bad = check_frames(args[0], W.dec_frame(args[1], S), W.dec_frame(args[2], S), args[3], args[4])
        return 'violation ' + bad if bad else 'ok frames-checked'
    return 'bad-op'


def compare(case, i, line, ir, mr):
    if line.startswith(('(ops frames ', '(ops aggx ', '(ops mmx ', '(ops redx ', '(ops npx ')):
        return ir if ir.startswith('violation') else None
    if proto.same_reply(ir, mr):
        # same_reply compares (D ..) nodes as sets: the ORDER of the result columns of the operators (theorems
        # binopF_columns_sorted / "the common header in its own order") is compared here; the aggregates' order is pandas' business
        if line.startswith(('(ops binf ', '(ops powf ', '(ops cmpf ')) and _header(ir) != _header(mr):
            return ('divergence', 'same frame, columns in the order %s; the model gives %s' % (_header(ir), _header(mr)))
        return None
    if ir.startswith('violation'):
        return ir
    if 'F:inf' in ir or 'F:-inf' in ir:
        return 'the result holds +-inf: %s' % ir
    return 'implementation %s, model %s' % (ir, mr)


def _header(reply):
    if not reply.startswith(('ok (df ', 'ok (bdf ')):
        return None
    sx = proto.parse(reply[3:])
    return [proto.unhex(kv[0]) for kv in sx[1][2][1:]]


def nontrivial(line, reply):
    return reply.startswith('ok') and line.count('(ts ') + line.count('(df ') >= 2


# ------------------------------------------------------------------ the statement, checked directly on the implementation

PYOP = {'add': lambda x, y: x + y, 'sub': lambda x, y: x - y, 'mul': lambda x, y: x * y,
        'div': lambda x, y: nan if y == 0 else x / y}
NEUTRAL = {'add': 0.0, 'sub': 0.0, 'mul': 1.0, 'div': 1.0}


def _isnan(v):
    return isinstance(v, float) and math.isnan(v)


def ref_bin(op, a, b, how, method):
    """expected result of one operator on Series / scalars: (index or None, values or scalar)"""
    tss = [x for x in (a, b) if isinstance(x, pd.Series)]
    if not tss:
        return None, (nan if (_isnan(float(a)) or _isnan(float(b))) else PYOP[op](float(a), float(b)))
    idx = A.expected_index(tss, how)
    va = A.expected_series(a, idx, method) if isinstance(a, pd.Series) else [float(a)] * len(idx)
    vb = A.expected_series(b, idx, method) if isinstance(b, pd.Series) else [float(b)] * len(idx)
    return idx, [nan if (_isnan(x) or _isnan(y)) else PYOP[op](x, y) for x, y in zip(va, vb)]


def check_series(res, idx, vals):
    if idx is None:
        return not isinstance(res, pd.Series) and ((_isnan(float(res)) and _isnan(vals)) or float(res) == vals)
    return isinstance(res, pd.Series) and list(res.index) == list(idx) and A.same_vals(list(map(float, res.values)), vals)


def check_frames(op, fa, fb, how, cols):
    """the statement for two DataFrames: common index, column policy, neutral element of a missing column"""
    ca, cb = list(fa.columns), list(fb.columns)
    f = _fn(op + '_')
    try:
        res = f(fa, fb, join=how, columns=cols)
    except Exception as e:
        return '%s_ on DataFrames raised %s: %s' % (op, type(e).__name__, str(e)[:100])
    want_cols = want_columns(ca, cb, cols)
    idx = A.expected_index([fa, fb], how)
    if not want_cols:
        return None
    if not isinstance(res, pd.DataFrame):
        return 'result is a %s' % type(res).__name__
    if sorted(res.columns) != want_cols or list(res.index) != list(idx):
        return 'columns %s / index %s instead of %s / %s' % (list(res.columns), [t.day for t in res.index], want_cols, [t.day for t in idx])
    for c in want_cols:
        x = fa[c] if c in ca else NEUTRAL[op]
        y = fb[c] if c in cb else NEUTRAL[op]
        if isinstance(x, pd.Series) and isinstance(y, pd.Series):
            _, vals = ref_bin(op, x, y, how, None)
        else:
            # one side lacks the column: it acts as the neutral element on the JOINT index
            sv = A.expected_series(x if isinstance(x, pd.Series) else y, idx, None)
            vals = [nan if _isnan(v) else (PYOP[op](v, NEUTRAL[op]) if isinstance(x, pd.Series) else PYOP[op](NEUTRAL[op], v)) for v in sv]
        if not A.same_vals(list(map(float, res[c].values)), vals):
            return 'column %s: got %s, the statement gives %s' % (c, list(res[c].values), vals)
    return None


def want_columns(ca, cb, cols):
    return sorted(set(ca) & set(cb) if cols == 'ij' else set(ca) | set(cb) if cols == 'oj' else ca if cols == 'lj' else cb)


def _py_pow(x, y):
    return 1.0 if (y == 0 or x == 1) else nan if (_isnan(x) or _isnan(y)) else x ** y


XOPS = {'pow': _py_pow,
        'gt': lambda x, y: not (_isnan(x) or _isnan(y)) and x > y, 'ge': lambda x, y: not (_isnan(x) or _isnan(y)) and x >= y,
        'lt': lambda x, y: not (_isnan(x) or _isnan(y)) and x < y, 'le': lambda x, y: not (_isnan(x) or _isnan(y)) and x <= y,
        'min': lambda x, y: nan if (_isnan(x) or _isnan(y)) else min(x, y), 'max': lambda x, y: nan if (_isnan(x) or _isnan(y)) else max(x, y)}


def check_frames_x(name, fa, fb, how, cols):
    """the statement for pow_ / a comparison / min_ / max_ of two DataFrames: joint index, column policy, cell (t, c) = the
    pointwise function of the two cells, a cell that a frame does not have (no row, no such column) being NaN"""
    ca, cb = list(fa.columns), list(fb.columns)
    try:
        res = _fn(name + '_')(fa, fb, join=how, columns=cols)
    except Exception as e:
        return '%s_ on DataFrames raised %s: %s' % (name, type(e).__name__, str(e)[:100])
    want_cols = want_columns(ca, cb, cols)
    idx = A.expected_index([fa, fb], how)
    if not want_cols and name not in ('min', 'max'):
        return None
    if not isinstance(res, pd.DataFrame):
        return 'result is a %s' % type(res).__name__
    if sorted(res.columns) != want_cols or list(res.index) != list(idx):
        return 'columns %s / index %s instead of %s / %s' % (list(res.columns), [t.day for t in res.index], want_cols, [t.day for t in idx])
    f = XOPS[name]
    for c in want_cols:
        va = A.expected_series(fa[c], idx, None) if c in ca else [nan] * len(idx)
        vb = A.expected_series(fb[c], idx, None) if c in cb else [nan] * len(idx)
        want = [f(x, y) for x, y in zip(va, vb)]
        got = list(res[c].values)
        ok = (got == want) if name in ('gt', 'ge', 'lt', 'le') else A.same_vals(list(map(float, got)), [float(w) for w in want])
        if not ok:
            return 'column %s: got %s, the statement gives %s' % (c, got, want)
    return None


def check_agg_mixed(g, xs):
    """df_sum / df_mean / df_count over any mix of Series, frames and scalars, in the part of the statement that does not
    depend on how a Series combines with named columns: the result lives on the union index, its columns are column names
    of the operands, and a row is NaN (count 0) throughout only where NO operand has data at that timestamp"""
    pds = [x for x in xs if isinstance(x, (pd.Series, pd.DataFrame))]
    try:
        res = _fn('df_' + g)(xs)
    except Exception as e:
        return 'df_%s raised %s: %s' % (g, type(e).__name__, str(e)[:100])
    if not pds:
        return None
    idx = A.expected_index(pds, 'oj')
    if not isinstance(res, (pd.Series, pd.DataFrame)):
        return 'df_%s returned a %s' % (g, type(res).__name__)
    if list(res.index) != list(idx):
        return 'df_%s: index %s, the union index is %s' % (g, [str(t)[:10] for t in res.index], [t.day for t in idx])
    names = set(c for x in pds if isinstance(x, pd.DataFrame) for c in x.columns)
    if isinstance(res, pd.DataFrame):
        odd = [c for c in res.columns if c not in names and c != 0]
        if odd:
            return 'df_%s: the result has columns %s that no operand has' % (g, [str(c)[:10] for c in odd][:4])
    scalar_data = any(not isinstance(x, (pd.Series, pd.DataFrame)) and not _isnan(float(x)) for x in xs)
    for t in idx:
        has = scalar_data
        for x in pds:
            if t in x.index:
                row = x.loc[t]
                has = has or (not _isnan(float(row)) if isinstance(x, pd.Series) else bool(row.notna().any()))
        row = res.loc[t]
        vals = [float(row)] if isinstance(res, pd.Series) else [float(v) for v in row.values]
        shows = any(not _isnan(v) and (g != 'count' or v > 0) for v in vals)
        if has and not shows:
            return 'df_%s: the row of day %d is NaN / 0 throughout although an operand has data there (result %s)' % (
                g, t.day, enc_out(res, True) if len(res.columns if isinstance(res, pd.DataFrame) else []) < 6 else 'wide frame')
        if not has and shows and g != 'count':
            return 'df_%s: the row of day %d holds a value although no operand has data there' % (g, t.day)
    return None


def check_mm_mixed(name, xs):
    """min_ / max_ (default policies: inner index, common columns) over any mix of one-column frames, frames, Series and scalars:
    the result lives on the common index; each of its columns is a column of the frames with several columns (or the one value
    column when there is none), and cell (t, c) is the pointwise min / max of what every operand shows there - a one-column
    frame and a Series their value at t whatever the column, a scalar itself - NaN if any of them is NaN"""
    pds = [x for x in xs if isinstance(x, (pd.Series, pd.DataFrame))]
    try:
        res = _fn(name + '_')(xs)
    except Exception as e:
        return '%s_ raised %s: %s' % (name, type(e).__name__, str(e)[:100])
    idx = A.expected_index(pds, 'ij')
    if not isinstance(res, (pd.Series, pd.DataFrame)):
        return '%s_ returned a %s' % (name, type(res).__name__)
    if list(res.index) != list(idx):
        return '%s_: index %s, the common index is %s' % (name, [str(t)[:10] for t in res.index], [t.day for t in idx])
    multi = [x for x in pds if isinstance(x, pd.DataFrame) and x.shape[1] > 1]
    cols = sorted(set.intersection(*[set(x.columns) for x in multi])) if multi else [None]
    got_cols = sorted(res.columns) if isinstance(res, pd.DataFrame) else [None]
    if multi and got_cols != cols:
        return '%s_: columns %s, the common columns are %s' % (name, got_cols, cols)
    if not multi and len(got_cols) != 1:
        return '%s_ of one-column operands has the columns %s (%s)' % (name, got_cols, enc_out(res, True))
    f = XOPS[name]
    for c, gc in zip(cols, got_cols):
        want = None
        for x in xs:
            if isinstance(x, pd.DataFrame):
                v = A.expected_series(x[c] if x.shape[1] > 1 else x.iloc[:, 0], idx, None)
            elif isinstance(x, pd.Series):
                v = A.expected_series(x, idx, None)
            else:
                v = [float(x)] * len(idx)
            want = v if want is None else [f(p, q) for p, q in zip(want, v)]
        got = list(map(float, (res[gc] if isinstance(res, pd.DataFrame) else res).values))
        if not A.same_vals(got, want):
            return '%s_: column %s holds %s, the statement gives %s' % (name, gc, got, want)
    return None


A1_NAN_ROW = 'is NaN / 0 throughout although an operand has data there'
A1_ODD_COLUMNS, A1_ODD_COLUMNS_END = ': the result has columns ', ' that no operand has'
A3_NOT_LEFT = ' of a list of operands is not the left fold of the binary '
A3_SIDES_FIRST = '; it IS each side reduced first: '


def _as_list(x):
    return [] if x is None else list(x) if isinstance(x, list) else [x]


def _fold(f, xs):
    res = xs[0]
    for x in xs[1:]:
        res = f(res, x)
    return res


def check_reduce(op, a, b, how, method, cols):
    """"lists of operands reduce left to right": `op_(a, b)` with lists on either side against the left fold of the BINARY `op_` over
    `as_list(a) + as_list(b)` (binary calls only, so the reference does not pass through the list handling it checks)"""
    f = _fn(op + '_')
    kw = dict(join=how, method=method, columns=cols)
    xs = _as_list(a) + _as_list(b)
    before = A.snapshot_tree(xs)
    try:
        res = f(a, **kw) if b is None else f(a, b, **kw)
    except Exception as e:
        return '%s_ on lists raised %s: %s' % (op, type(e).__name__, str(e)[:100])
    if not A.same_tree(xs, before):
        return 'input-modified'
    try:
        fold = _fold(lambda x, y: f(x, y, **kw), xs)
    except Exception as e:
        return '%s_ on lists returned, the left fold of the binary %s_ raised %s: %s' % (op, op, type(e).__name__, str(e)[:100])
    got, want = _enc_any(res), _enc_any(fold)
    if got == want:
        return None
    msg = '%s_%s%s_: got %s, the left fold gives %s' % (op, A3_NOT_LEFT, op, got[:300], want[:300])
    if op in ('sub', 'div'):
        g = _fn('add_' if op == 'sub' else 'mul_')
        try:
            alt = f(_fold(lambda x, y: g(x, y, **kw), _as_list(a)), _fold(lambda x, y: g(x, y, **kw), _as_list(b)), **kw)
            if _enc_any(alt) == got:
                msg += A3_SIDES_FIRST + ('(a1 + a2 ..) - (b1 + b2 ..)' if op == 'sub' else '(a1 * a2 ..) / (b1 * b2 ..)')
        except Exception:
            pass
    return msg


def check_np(name, sa, sb, how, method):
    """scalars in numpy spellings (np.int8 .. np.float32, np.bool_, 0-d arrays): the operator / aggregate must answer what it answers
    for the same numbers as python bool / int / float, and add_ / mul_ / df_sum / df_mean / df_count of a LIST must show the same
    result whatever the order of the list (no fill method; 'ij' / 'oj': the index is the same set)"""
    import warnings
    f = _fn(name + '_' if name in OPS else 'df_' + name)
    kw = dict(join=how, method=method)
    a, b, pa, pb = dec_in(sa), dec_in(sb), dec_in(sa, False), dec_in(sb, False)
    call = lambda x, y: f(x, **kw) if y is None else f(x, y, **kw)
    with warnings.catch_warnings():
        warnings.simplefilter('ignore')          # numpy WARNS (RuntimeWarning: overflow encountered in scalar multiply) - and carries on
        try:
            want = call(pa, pb)
        except Exception as e:
            return None                               # not an input of this law: the python spelling is not answered either
        before = A.snapshot_tree([a, b])
        try:
            res = call(a, b)
        except Exception as e:
            return '%s of scalars in a numpy spelling raised %s: %s; the same numbers as python numbers give %s' % (f.__name__, type(e).__name__, str(e)[:100], _enc_any(want)[:200])
        if not A.same_tree([a, b], before):
            return 'input-modified'
        got = _enc_any(res)
        if got != _enc_any(want):
            return '%s%s%s, the same numbers as python numbers give %s' % (f.__name__, NP_SPELLING, got[:300], _enc_any(want)[:300])
        if name in ('add', 'mul', 'sum', 'mean', 'count') and method is None:
            xs = _as_list(a) + _as_list(b)
            for perm in (xs[::-1], xs[1:] + xs[:1]):
                if len(xs) < 2:
                    break
                try:
                    alt = f(list(perm), **kw)
                except Exception as e:
                    return '%s of the same operands in another order raised %s: %s' % (f.__name__, type(e).__name__, str(e)[:100])
                if _enc_any(alt) != got:
                    return '%s%s: %s, in the order %s it gives %s' % (f.__name__, NP_ORDER, got[:300], [type(x).__name__ for x in perm], _enc_any(alt)[:300])
    return None


NP_SPELLING = ' of scalars in a numpy spelling gives '
NP_ORDER = ' of a list of operands depends on the order of the list'


def _enc_any(r):
    try:
        return enc_out(r)
    except proto.Unencodable:
        return 'unencodable %s' % type(r).__name__


def sub_div_sides_first(f):
    """C08-A3: sub_ / div_ with a LIST of two or more operands on a side, whose result is not the left fold but exactly
    `sub_(add_ of the left operands, add_ of the right operands)` resp. `div_(mul_ .., mul_ ..)` (the detail says so: it was
    recomputed with binary calls).  Any other deviation from the left fold - add_ / mul_, another value, a raise - stays a violation"""
    line = f.case['lines'][0]
    if not line.startswith(('(ops redx sub ', '(ops redx div ')):
        return False
    sx = proto.parse(line)
    sides = [x for x in (sx[3], sx[4]) if isinstance(x, list) and x and x[0] == 'L' and len(x) >= 3]
    return bool(sides) and A3_NOT_LEFT in f.detail and A3_SIDES_FIRST in f.detail


A2_BOTH_NAMES = ' of one-column operands has the columns '
A2_NO_OBJECTS = '_ raised ValueError: No objects to concatenate'


def mm_one_column_frames(f):
    """C08-A2: min_ / max_ whose operands hold two one-column frames of different names (np.minimum aligns them BY NAME), or
    frames without a common column beside a Series (`_align_columns` concatenates zero copies of the Series)"""
    line = f.case['lines'][0]
    if not line.startswith('(ops mmx '):
        return False
    ts, one, multi = _kinds(proto.parse(line)[3])
    sx = proto.parse(line)[3]
    heads = [set(kv[0] for kv in x[1][2][1:]) for x in sx[1:] if x[0] == 'df' and len(x[1][2]) > 2]
    # the finding must show the SYMPTOM of its input class; any other failure on such a line (another exception, a wrong
    # index, wrong values in a one-column result) is not C08-A2 and stays a violation
    if len(set(one)) >= 2 and A2_BOTH_NAMES in f.detail:
        return True
    return ts >= 1 and len(heads) >= 2 and not set.intersection(*heads) and A2_NO_OBJECTS in f.detail


def _kinds(sx):
    """(series, one-column frames [names], multi-column frames) among the operands of an agg line"""
    ts = sum(1 for x in sx[1:] if x[0] == 'ts')
    one = [x[1][2][1][0] for x in sx[1:] if x[0] == 'df' and len(x[1][2]) == 2]
    multi = sum(1 for x in sx[1:] if x[0] == 'df' and len(x[1][2]) > 2)
    return ts, one, multi


def agg_mixed_operands(f):
    """C08-A1: an aggregate whose operands mix a Series with frames, a one-column frame with a frame of several columns, or
    one-column frames of different names - after df_sync they are added with pandas' own alignment"""
    line = f.case['lines'][0]
    if not line.startswith('(ops aggx '):
        return False
    ts, one, multi = _kinds(proto.parse(line)[3])
    if not ((ts >= 1 and (len(one) + multi) >= 1) or (len(one) >= 1 and multi >= 1) or len(set(one)) >= 2):
        return False
    # ... and the finding must be one of the two symptoms of C08-A1 (all-NaN rows where operands have data; timestamps as extra
    # columns).  A raise, a wrong index, a value where nobody has data on such a line is NOT this finding and stays a violation
    return A1_NAN_ROW in f.detail or (A1_ODD_COLUMNS in f.detail and A1_ODD_COLUMNS_END in f.detail)


def laws(rng, tier, ctx):
    count = 0
    n = 400 if tier == 'quick' else 6000
    for _ in range(n):
        op = rng.choice(OPS)
        how, m = rng.choice(['ij', 'oj']), rng.choice(METHODS)
        ss, rel = rand_operands(rng, 3, VALS)
        a = ss[0] if rng.random() < 0.85 else rng.choice([1.0, 2.0, 0.0, -0.5])
        b = rand_series(rng, A.rand_days(rng, 'overlap', []), DIVS) if op == 'div' else ss[1]
        if rng.random() < 0.15:
            b = rng.choice(DIVS) if op == 'div' else rng.choice([1.0, 2.0, 0.0, 0.25])
        f = _fn(op + '_')
        case = dict(tag='law-bin', lines=['(ops bin %s %s %s %s %s)' % (op, enc_in(a), enc_in(b), how, m)])
        try:
            res = f(a, b, join=how, method=A.dec_method(m))
        except Exception as e:
            yield Finding('violation', case, '%s_ raised %s: %s' % (op, type(e).__name__, str(e)[:100]))
            continue
        count += 1
        idx, vals = ref_bin(op, a, b, how, A.dec_method(m))
        if not check_series(res, idx, vals):
            yield Finding('violation', case, 'result is not the pointwise operation on the aligned operands: got %s, expected index %s values %s' % (
                enc_out(res) if isinstance(res, (pd.Series, float, int, np.floating)) else type(res).__name__, None if idx is None else [t.day for t in idx], vals))
            continue
        if isinstance(res, pd.Series) and np.isinf(res.values.astype(float)).any():
            yield Finding('violation', case, 'division produced +-inf')
        if op in ('add', 'mul'):
            rev = f(b, a, join=how, method=A.dec_method(m))
            count += 1
            if enc_out(rev) != enc_out(res):
                yield Finding('violation', dict(tag='law-comm', lines=case['lines'] + ['(ops bin %s %s %s %s %s)' % (op, enc_in(b), enc_in(a), how, m)], atomic=True),
                              '%s_ is not commutative on this input' % op)
            c = ss[2]
            lst = f([a, b, c], join=how, method=A.dec_method(m))
            step = f(f(a, b, join=how, method=A.dec_method(m)), c, join=how, method=A.dec_method(m))
            count += 1
            if enc_out(lst) != enc_out(step):
                yield Finding('violation', dict(tag='law-reduce', lines=['(ops bin %s %s N %s %s)' % (op, enc_in([a, b, c]), how, m)]),
                              'a list of operands is not reduced left to right')
    # DataFrames: column policies and the neutral element of a missing column
    for _ in range(n // 2):
        op = rng.choice(OPS)
        days_a, days_b = A.rand_days(rng, 'overlap', []), A.rand_days(rng, 'overlap', [])
        ca, cb = rng.choice([['a', 'b'], ['a', 'b', 'c'], ['b', 'c']]), rng.choice([['a', 'b'], ['b', 'c'], ['b', 'd'], ['c', 'a']])
        fa = pd.DataFrame({c: rand_series(rng, days_a, VALS).values for c in ca}, index=pd.DatetimeIndex([W.day(d) for d in days_a]), columns=ca, dtype=float)
        fb = pd.DataFrame({c: rand_series(rng, days_b, DIVS if op == 'div' else VALS).values for c in cb}, index=pd.DatetimeIndex([W.day(d) for d in days_b]), columns=cb, dtype=float)
        how, cols = rng.choice(['ij', 'oj']), rng.choice(['ij', 'oj', 'ij', 'oj', 'lj', 'rj'])
        case = dict(tag='law-frames', lines=['(ops frames %s %s %s %s %s)' % (op, W.enc_frame(fa, S), W.enc_frame(fb, S), how, cols)])
        count += 1
        bad = check_frames(op, fa, fb, how, cols)
        if bad:
            yield Finding('violation', case, bad)
            continue
        if op in ('add', 'mul') and cols in ('ij', 'oj'):       # theorems add_comm_frames / mul_comm_frames, reduce_left_frames
            f = _fn(op + '_')
            line = lambda a, b: '(ops binf %s %s %s %s N %s)' % (op, enc_in(a), enc_in(b), how, cols)
            res, rev = f(fa, fb, join=how, columns=cols), f(fb, fa, join=how, columns=cols)
            count += 1
            if enc_out(res) != enc_out(rev):
                yield Finding('violation', dict(tag='law-comm-frames', lines=[line(fa, fb), line(fb, fa)], atomic=True), '%s_ is not commutative on these frames' % op)
            days_c = A.rand_days(rng, 'overlap', [])
            cc = rng.choice([['a', 'b'], ['b', 'c'], ['b', 'a', 'd']])
            fc = rand_frame(rng, days_c, VALS, cc)
            if isinstance(res, pd.DataFrame):
                lst, step = f([fa, fb, fc], join=how, columns=cols), f(res, fc, join=how, columns=cols)
                count += 1
                if enc_out(lst) != enc_out(step):
                    yield Finding('violation', dict(tag='law-reduce-frames', lines=[line([fa, fb, fc], None)]), 'a list of frames is not reduced left to right')
    # pow_, comparisons, min_ / max_ on frames (theorems powF_value, cmpF_value, mmF_two): default NaN, every column policy
    for _ in range(n // 2):
        name = rng.choice(['pow', 'gt', 'ge', 'lt', 'le', 'min', 'max'])
        days, rel = rand_fdays(rng, 2)
        cs, crel = rand_colsets(rng, 2)
        fa = rand_frame(rng, days[0], POWB if name == 'pow' else VALS, cs[0])
        fb = rand_frame(rng, days[1], POWE if name == 'pow' else VALS, cs[1])
        how, cols = rng.choice(['ij', 'oj']), rng.choice(CHS)
        line = ('(ops powf %s %s %s N %s)' % (enc_in(fa), enc_in(fb), how, cols) if name == 'pow' else
                '(ops %s %s %s %s %s N %s)' % ('mmf' if name in ('min', 'max') else 'cmpf', name, enc_in(fa), enc_in(fb), how, cols))
        count += 1
        bad = check_frames_x(name, fa, fb, how, cols)
        if bad:
            yield Finding('violation', dict(tag='law-frames-x', lines=[line]), bad)
            continue
        if name in ('min', 'max'):     # np.minimum / np.maximum commute cell by cell (mmF_cell_comm); the header order is pandas' own
            f = _fn(name + '_')
            count += 1
            if enc_out(f(fa, fb, join=how, columns=cols), True) != enc_out(f(fb, fa, join=how, columns=cols), True) and cols in ('ij', 'oj'):
                yield Finding('violation', dict(tag='law-comm-mm', lines=[line]), '%s_ is not commutative on these frames' % name)
    # aggregates
    for _ in range(n // 2):
        g = rng.choice(['sum', 'mean', 'count'])
        ss, rel = rand_operands(rng, rng.choice([2, 3]), MEANV if g == 'mean' else VALS)
        xs = with_scalars(rng, ss, g) if rng.random() < 0.3 else ss
        case = dict(tag='law-agg', lines=['(ops agg %s %s oj N)' % (g, enc_in(xs))])
        try:
            res = _fn('df_' + g)(xs)
        except Exception as e:
            yield Finding('violation', case, 'df_%s raised %s: %s' % (g, type(e).__name__, str(e)[:100]))
            continue
        count += 1
        idx = A.expected_index(ss, 'oj')
        exp = []
        for t in idx:
            vs = [float(s[t]) for s in xs if isinstance(s, pd.Series) and t in s.index and not _isnan(float(s[t]))]
            vs += [float(q) for q in xs if not isinstance(q, pd.Series) and not _isnan(float(q))]
            exp.append(float(len(vs)) if g == 'count' else nan if not vs else sum(vs) if g == 'sum' else sum(vs) / len(vs))
        if not (isinstance(res, pd.Series) and list(res.index) == list(idx) and A.same_vals(list(map(float, res.values)), exp)):
            yield Finding('violation', case, 'df_%s: got %s, the statement gives %s on %s' % (g, enc_out(res) if isinstance(res, pd.Series) else res, exp, [t.day for t in idx]))
    # aggregates on frames: union index, union of the columns, NaN-skipping cell by cell (theorems aggF_value, aggF_no_data)
    for _ in range(n // 2):
        g = rng.choice(['sum', 'mean', 'count'])
        k = rng.choice([2, 3])
        days, rel = rand_fdays(rng, k)
        cs, crel = rand_colsets(rng, k)
        fs = [rand_frame(rng, days[j], MEANV if g == 'mean' else VALS, cs[j]) for j in range(k)]
        case = dict(tag='law-aggf', lines=['(ops aggf %s %s oj N oj)' % (g, enc_in(fs))])
        try:
            res = _fn('df_' + g)(fs)
        except Exception as e:
            yield Finding('violation', case, 'df_%s on frames raised %s: %s' % (g, type(e).__name__, str(e)[:100]))
            continue
        count += 1
        idx = A.expected_index(fs, 'oj')
        want_cols = sorted(set(c for f in fs for c in f.columns))
        if not (isinstance(res, pd.DataFrame) and sorted(res.columns) == want_cols and list(res.index) == list(idx)):
            yield Finding('violation', case, 'df_%s on frames: wrong header / index: %s' % (g, enc_out(res, True) if isinstance(res, pd.DataFrame) else type(res).__name__))
            continue
        for c in want_cols:
            exp = []
            for t in idx:
                vs = [float(f.at[t, c]) for f in fs if c in f.columns and t in f.index and not _isnan(float(f.at[t, c]))]
                exp.append(float(len(vs)) if g == 'count' else nan if not vs else sum(vs) if g == 'sum' else sum(vs) / len(vs))
            if not A.same_vals(list(map(float, res[c].values)), exp):
                yield Finding('violation', case, 'df_%s column %s: got %s, the statement gives %s' % (g, c, list(res[c].values), exp))
                break
    yield count


shrink = W.shrink
MATCHERS = {'agg_mixed_operands': agg_mixed_operands, 'mm_one_column_frames': mm_one_column_frames, 'sub_div_sides_first': sub_div_sides_first}
