"""Wire helpers shared by the pandas-facing properties C12, C03, C08 (series / frames / arrays on the line protocol).

Times are whole days from 2020-01-01 (sent as T:<microseconds since 0001-01-01>); values are floats that are exact
multiples of 1/SCALE and travel as the integer SCALE*x (`I:<n>`), NaN as `F:nan` - so nothing rounded is ever compared.

series : (L (T T:<t> <cell>)*)      frame : (T (L T:<t>*) (D (<hexname> (L <cell>*))*))
array  : 1-d (L <cell>*), 2-d (L (L <cell>*)*) = list of COLUMNS
"""
import datetime, math
from fractions import Fraction
import numpy as np
import pandas as pd
from .. import proto
from ..proto import hexs, unhex, Unencodable

T0 = datetime.datetime(2020, 1, 1)
DAY = datetime.timedelta(days=1)


def day(i):
    return T0 + i * DAY


def enc_t(t):
    if isinstance(t, pd.Timestamp):
        t = t.to_pydatetime()
    return 'T:%d' % proto.dt2us(t)


def dec_t(a):
    assert a.startswith('T:'), a
    return proto.us2dt(int(a[2:]))


def enc_v(x, scale):
    if x is None:
        return 'F:nan'
    x = float(x)
    if math.isnan(x):
        return 'F:nan'
    if math.isinf(x):
        return 'F:inf' if x > 0 else 'F:-inf'
    q = Fraction(x) * scale
    if q.denominator != 1:
        raise Unencodable('value %r is not a multiple of 1/%d' % (x, scale))
    return 'I:%d' % q.numerator


def dec_v(a, scale):
    if a in ('F:nan', 'N'):
        return np.nan
    if a in ('F:inf', 'F:-inf'):      # law-only inputs (the models have no infinities: the driver answers bad-op)
        return float(a[2:])
    assert a.startswith('I:'), a
    return int(a[2:]) / float(scale)


def enc_series(s, scale):
    return '(L' + ''.join(' (T %s %s)' % (enc_t(t), enc_v(v, scale)) for t, v in zip(s.index, s.values)) + ')'


# Index objects: real code very often hands the SAME Index object to several series (`price * 0.5`, `pd.Series(v, price.index)`).
# On every other protocol line the decoder therefore shares one Index object between all series / frames of that line whose
# index contents are equal; on the remaining lines every series gets its own object.
_SHARE = [False, {}]


def begin_line(sx):
    import zlib
    _SHARE[0] = zlib.crc32(repr(sx).encode()) % 2 == 0
    _SHARE[1] = {}


def _intern(idx):
    if not _SHARE[0]:
        return idx
    return _SHARE[1].setdefault(tuple(idx.asi8), idx)


def dec_series(sx, scale):
    rows = sx[1:]
    idx = _intern(pd.DatetimeIndex([dec_t(r[1]) for r in rows]))
    return pd.Series([dec_v(r[2], scale) for r in rows], idx, dtype=float)


def enc_col(xs, scale):
    return '(L' + ''.join(' ' + enc_v(v, scale) for v in xs) + ')'


def dec_col(sx, scale):
    return [dec_v(a, scale) for a in sx[1:]]


def enc_frame(df, scale):
    return '(T (L%s) (D%s))' % (''.join(' ' + enc_t(t) for t in df.index),
                                ''.join(' (%s %s)' % (hexs(str(c)), enc_col(df.iloc[:, j].values, scale)) for j, c in enumerate(df.columns)))


def dec_frame(sx, scale):
    assert sx[0] == 'T'
    idx = _intern(pd.DatetimeIndex([dec_t(a) for a in sx[1][1:]]))
    cols = [(unhex(kv[0]), dec_col(kv[1], scale)) for kv in sx[2][1:]]
    return pd.DataFrame({k: np.array(v, dtype=float) for k, v in cols}, index=idx, columns=[k for k, _ in cols], dtype=float)


def enc_arr(a, scale):
    a = np.asarray(a)
    if a.ndim == 1:
        return enc_col(a, scale)
    return '(L' + ''.join(' ' + enc_col(a[:, j], scale) for j in range(a.shape[1])) + ')'


def dec_arr1(sx, scale):
    return np.array(dec_col(sx, scale), dtype=float)


def dec_arr2(sx, scale):
    cols = [dec_col(c, scale) for c in sx[1:]]
    n = len(cols[0]) if cols else 0
    return np.array(cols, dtype=float).T.reshape(n, len(cols))


def same_pd(a, b):
    """exact equality of two pandas / numpy objects incl. index, columns and NaN positions"""
    if type(a) is not type(b):
        return False
    if isinstance(a, np.ndarray):
        return a.shape == b.shape and bool(np.array_equal(a, b, equal_nan=True))
    if isinstance(a, pd.DataFrame):
        return list(a.columns) == list(b.columns) and list(a.index) == list(b.index) and bool(np.array_equal(a.values.astype(float), b.values.astype(float), equal_nan=True))
    if isinstance(a, pd.Series):
        return list(a.index) == list(b.index) and bool(np.array_equal(a.values.astype(float), b.values.astype(float), equal_nan=True))
    return a == b


def snapshot(x):
    return x.copy()


# ------------------------------------------------------------------ structure-aware shrinking

def _is_series(sx):
    return isinstance(sx, list) and len(sx) > 1 and sx[0] == 'L' and all(isinstance(e, list) and len(e) == 3 and e[0] == 'T' and isinstance(e[1], str) and e[1].startswith('T:') for e in sx[1:])


def _is_frame(sx):
    return isinstance(sx, list) and len(sx) == 3 and sx[0] == 'T' and isinstance(sx[1], list) and sx[1][:1] == ['L'] \
        and isinstance(sx[2], list) and sx[2][:1] == ['D'] and all(isinstance(a, str) and a.startswith('T:') for a in sx[1][1:])


def _is_arr1(sx):
    return isinstance(sx, list) and len(sx) > 1 and sx[0] == 'L' and all(isinstance(e, str) and (e.startswith('I:') or e == 'F:nan') for e in sx[1:])


def _is_arr2(sx):
    return isinstance(sx, list) and len(sx) > 1 and sx[0] == 'L' and all(_is_arr1(e) or e == ['L'] for e in sx[1:])


TREE_HEADS = ('ts', 'df', 'arr', 'o', 'L', 'T', 'D')


def obj_candidates(sx):
    """smaller variants of a series / frame / array / method list; containers (L/T/D of objects) are descended into"""
    if isinstance(sx, str):
        return
    if _is_series(sx) or _is_arr1(sx):
        for i in range(1, len(sx)):
            yield sx[:i] + sx[i + 1:]
        return
    if _is_frame(sx):
        n = len(sx[1]) - 1
        for i in range(1, n + 1):
            yield ['T', sx[1][:i] + sx[1][i + 1:], ['D'] + [[kv[0], kv[1][:i] + kv[1][i + 1:]] for kv in sx[2][1:]]]
        if len(sx[2]) > 2:
            for j in range(1, len(sx[2])):
                yield ['T', sx[1], sx[2][:j] + sx[2][j + 1:]]
        return
    if _is_arr2(sx):
        n = max(len(c) for c in sx[1:]) - 1
        for i in range(1, n + 1):
            yield ['L'] + [c[:i] + c[i + 1:] for c in sx[1:]]
        if len(sx) > 2:
            for j in range(1, len(sx)):
                yield sx[:j] + sx[j + 1:]
        return
    if sx and sx[0] in ('ts', 'df', 'arr') and len(sx) == 2:
        for sub in obj_candidates(sx[1]):
            yield [sx[0], sub]
        return
    if sx and sx[0] == 'o':
        return
    if sx and sx[0] in ('L', 'T') and len(sx) > 2 and all(isinstance(e, list) and e and e[0] in TREE_HEADS for e in sx[1:]):
        for i in range(1, len(sx)):
            yield sx[:i] + sx[i + 1:]
    if sx and sx[0] == 'D' and len(sx) > 2 and all(isinstance(e, list) and len(e) == 2 and isinstance(e[1], list) and e[1] and e[1][0] in TREE_HEADS for e in sx[1:]):
        for i in range(1, len(sx)):
            yield sx[:i] + sx[i + 1:]
    if sx and sx[0] in ('M', 'MT') and len(sx) > 2:
        for i in range(1, len(sx)):
            yield sx[:i] + sx[i + 1:]
        return
    if sx and sx[0] in ('L', 'T'):
        for i in range(1, len(sx)):
            for sub in obj_candidates(sx[i]):
                yield sx[:i] + [sub] + sx[i + 1:]
    elif sx and sx[0] == 'D':
        for i in range(1, len(sx)):
            for sub in obj_candidates(sx[i][1]):
                yield sx[:i] + [[sx[i][0], sub]] + sx[i + 1:]


def shrink(case, still_fails, budget=250):
    best = case
    tries = 0
    improved = True
    while improved and tries < budget:
        improved = False
        for li, line in enumerate(best['lines']):
            sx = proto.parse(line)
            for ai in range(2, len(sx)):
                for cand in obj_candidates(sx[ai]):
                    tries += 1
                    if tries > budget:
                        break
                    c = dict(best, lines=best['lines'][:li] + [proto.render(sx[:ai] + [cand] + sx[ai + 1:])] + best['lines'][li + 1:])
                    try:
                        if still_fails(c):
                            best, improved = c, True
                            break
                    except Exception:
                        pass
                if improved or tries > budget:
                    break
            if improved or tries > budget:
                break
    return best
