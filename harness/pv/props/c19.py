"""C19 - container lifting maps leaf-wise, preserves shape, and is schedule independent (loop, zipper, as_list/as_tuple, waiter)."""
import asyncio, itertools, copy, logging
logging.getLogger('asyncio').setLevel(logging.CRITICAL)      # cancelled gather children of partial schedules are expected
from .. import proto
from ..proto import enc
from ..engine import Finding
from . import _c19x as X

ID = 'C19'
TITLE = 'container lifting maps leaf-wise, preserves shape, and is schedule independent'
LEAN_FILES = ['Basic', 'Lift', 'Zip', 'Waiter', 'LiftDriver', 'WaiterDriver', 'LiftLemmas', 'ZipLemmas', 'WaiterLemmas', 'ResDec', 'C19',
              'LiftX', 'LiftXDriver', 'Txt', 'LiftXLemmas', 'TxtLemmas', 'WaiterF', 'WaiterFDriver', 'WaiterFLemmas', 'WaiterLog', 'WaiterLogLemmas', 'LiftXRecLemmas']
RULE = ('distinct protocol lines on which the implementation returned a value and whose looped argument is a non-empty container '
        '(lift), whose arguments hold at least one sequence (zipper/lens/as_list/as_tuple), or whose structure holds at least one '
        'awaitable (waiter; every completion order is a distinct line)')
TRUSTED = ['correspondence harness (pv.engine, pv.proto) and generators of pv.props.c19',
           'Lean driver parser/printer (PygModel/Basic.lean, LiftDriver.lean, WaiterDriver.lean)',
           'the python reference used by the laws (structural map with same-path companion selection)']
ASSUMPTIONS = ['asyncio.gather returns the results of its arguments positionally once all of them are done (model assumption; the harness '
               'drives real asyncio futures resolved in a chosen order)',
               'CPython: dict insertion order, sorted() on string keys is codepoint order, zip stops at the shortest input',
               'containers: list, tuple, namedtuple, dict with string keys, and (callx lines, laws 6-7) dicts with int / string / None keys mixed; the model has plain tuples and string keys only - callx lines are run on the implementation through a fixed bijection (every tuple a namedtuple, keys through KEYMAP) and the result, checked for its container types, is mapped back; pandas/numpy branches of loops, dict subclasses and ndarray/Series companions are a MODEL EXTENSION (liftx lines, pv.props._c19x; beyond the property text: disagreements there are divergences)',
               'model extension: pandas 3 / numpy semantics of df[key], df.loc, .T, .iloc, pd.Series(dict), DataFrame(dict of Series / of scalars), np.array(list), integer lookup on string labels (KeyError); int64 cells, distinct string labels, non-timeseries Series; leaf results opaque objects or columns',
               'closed text helpers: on ASCII text str.lower / str.upper change exactly A-Z / a-z and str.strip() removes the characters str.isspace accepts (9-13, 28-32)',
               'failing awaitables: asyncio.gather propagates the first exception raised to the awaiting task at once (waiterf lines drive real futures with set_exception)',
               'the library leaf functions other than lower / upper / strip (proper, replace, split, f12, as_float) are applied by the harness to the leaf '
               'calls the model predicts; the model does not contain them']
EXHAUSTIVE = {'quick': False, 'thorough': False}
EXTRA = {}

TOP = 'a'          # name of the first parameter of the recorded function
LEAVES = [0, 1, 2, 3, -1, 2.5, None, True, 'x', 'y', 'Ab', 'hello World', '', ' pad ']
KEYS = ['a', 'b', 'c', 'd', 'k']
KWNAMES = ['b', 'c', 'old', 'axis']


def rec(a, *args, **kw):
    """the recorded function: returns what it was called with; `!` strings raise (order of evaluation is observable)"""
    if isinstance(a, str) and a.startswith('!'):
        raise {'v': ValueError, 'k': KeyError}.get(a[1:2], TypeError)(a)
    return (a, args, kw)


def named(a, b='b0', c='c0'):
    return (a, b, c)


def with_axis(a, axis='axis0'):
    """a function whose second parameter is CALLED axis"""
    return (a, axis)


_LIFT = {}


def lifted(fn):
    if fn not in _LIFT:
        from pyg_base import loop
        _LIFT[fn] = loop(list, tuple, dict)(fn)
    return _LIFT[fn]


# ---------------------------------------------------------------- generators

def rand_leaf(rng, bad=0.0):
    if bad and rng.random() < bad:
        return rng.choice(['!v', '!k', '!t'])
    return rng.choice(LEAVES)


def rand_struct(rng, depth, bad=0.0, top=False, dicts=False):
    """nested lists / tuples / dicts, depth <= `depth` (a leaf has depth 0); `dicts`: mostly dicts, of 2-4 keys"""
    if depth == 0 or (not top and rng.random() < 0.3):
        return rand_leaf(rng, bad)
    n = rng.choice([0, 1, 2, 2, 3, 3])
    r = rng.random()
    if dicts:
        n = rng.choice([1, 2, 3, 3, 4])
        r = 0.2 + 0.8 * r
    if r < 0.4:
        return [rand_struct(rng, depth - 1, bad, dicts=dicts) for _ in range(n)]
    if r < 0.65:
        return tuple(rand_struct(rng, depth - 1, bad, dicts=dicts) for _ in range(n))
    return {k: rand_struct(rng, depth - 1, bad, dicts=dicts) for k in rng.sample(KEYS, n)}


def same_shape(rng, v, stop=99, swap=True, deeper=0.0):
    """a structure of the same shape (lists/tuples interchangeable when `swap`, dict keys in another order) with fresh
    leaves; below depth `stop` a scalar replaces the sub-structure"""
    if not isinstance(v, (list, tuple, dict)) or stop == 0:
        if deeper and rng.random() < deeper:
            # the companion is DEEPER than v here: the leaf is matched with a container, which f receives whole
            return rng.choice([[10, 20], (30,), {'p': 1}, [], [[1, 2], [3, 4]], {'a': [5], 'b': 6}, [7, 8, 9]])
        return rng.choice([10, 20, 30, 'p', 'q', None, 7.5])
    if isinstance(v, dict):
        ks = list(v)
        rng.shuffle(ks)
        return {k: same_shape(rng, v[k], stop - 1, swap, deeper) for k in ks}
    items = [same_shape(rng, x, stop - 1, swap, deeper) for x in v]
    tp = type(v)
    if swap and rng.random() < 0.25:
        tp = tuple if tp is list else list
    return tp(items)


def diff_shape(rng, v):
    """a container that does not match `v` at the top: other length / other keys; sometimes it holds, one level down,
    a container that does match (the code then searches inside it)"""
    if isinstance(v, dict):
        other = {k: rng.choice([1, 'z']) for k in rng.sample(['p', 'q', 'r'] + list(v), rng.choice([1, 2]))}
        if sorted(other) == sorted(v):
            other['zz'] = 0
        r = rng.random()
        if r < 0.3:
            other[rng.choice(list(other))] = same_shape(rng, v, 1)
        elif r < 0.45:
            return [same_shape(rng, v, 1), 5]
        return other
    n = len(v) if isinstance(v, (list, tuple)) else 2
    m = rng.choice([k for k in (0, 1, 2, 3, 4) if k != n])
    out = [rng.choice([1, 'z', None]) for _ in range(m)]
    r = rng.random()
    if out and r < 0.35:
        out[rng.randrange(m)] = same_shape(rng, v, 1) if isinstance(v, (list, tuple)) else [8, 9]
    elif r < 0.5:
        return {'p': same_shape(rng, v, 1), 'q': 3}
    return tuple(out) if rng.random() < 0.3 else out


def rand_companion(rng, v):
    """returns (kind, value)"""
    r = rng.random()
    if r < 0.22:
        # scalars; strings as long as the looped container are scalars too (never indexed)
        return 'scalar', rng.choice([5, 'z', None, 2.5, 'text', 'ab', 'abc', 'x' * len(v) if isinstance(v, (list, tuple, dict)) else 'q'])
    if r < 0.4:
        return 'same', same_shape(rng, v)
    if r < 0.5:
        return 'deeper', same_shape(rng, v, deeper=0.5)
    if r < 0.65:
        return 'partial', same_shape(rng, v, rng.choice([1, 2]))
    if r < 0.9:
        return 'diff', diff_shape(rng, v)
    return 'deep-diff', [diff_shape(rng, x) if isinstance(x, (list, tuple, dict)) else 4 for x in v] if isinstance(v, (list, tuple)) and v else 'scalar2'


def depth_of(v):
    if isinstance(v, dict):
        return 1 + max([depth_of(x) for x in v.values()], default=0)
    if isinstance(v, (list, tuple)):
        return 1 + max([depth_of(x) for x in v], default=0)
    return 0


def call_line(args, kw):
    return '(lift call %s %s %s)' % (proto.hexs(TOP), enc(list(args)), enc(dict(kw)))


def gen_call(rng, bad=0.0, dicts=False):
    d = rng.choice([1, 2, 2, 3, 3, 4])
    v = rand_struct(rng, d, bad, top=True, dicts=dicts)
    npos, nkw = rng.choice([(0, 0), (1, 0), (0, 1), (1, 1), (2, 0), (0, 2), (2, 1), (1, 2)])
    kinds, pos, kw = [], [], {}
    for _ in range(npos):
        k, c = rand_companion(rng, v)
        kinds.append(k)
        pos.append(c)
    for name in rng.sample(KWNAMES, nkw):
        k, c = rand_companion(rng, v)
        kinds.append(k)
        kw[name] = c
    bykw = npos == 0 and rng.random() < 0.3
    clash = not bykw and rng.random() < 0.03
    if clash:
        # the looped argument positionally AND a keyword named like the first parameter: every leaf call is f(leaf, ..., a=...) =
        # python's TypeError "multiple values for argument 'a'" (no leaf call, no error: an empty container comes back)
        kw = dict(kw)
        kw[TOP] = rand_companion(rng, v)[1]
    if bykw:
        kw = dict(kw)
        kw[TOP] = v
        args = []
    else:
        args = [v] + pos
    kind = 'none' if not kinds else ('diff' if any(k in ('diff', 'deep-diff') for k in kinds) else
                                     'partial' if 'partial' in kinds else 'deeper' if 'deeper' in kinds else 'same' if 'same' in kinds else 'scalar')
    tag = 'lift depth=%d companions=%s%s%s' % (depth_of(v), kind, ' pos' if npos else '', ' kw' if nkw else '')
    if bykw:
        tag += ' first-by-keyword'
    if clash:
        tag = 'lift keyword-named-like-first-parameter'
    if bad:
        tag = 'lift raising-leaf'
    return dict(tag=tag, lines=[call_line(args, kw)])


TEXTS = ['Hello World', ' pad ', 'aBc', 'x y  z', '', 'UPPER', 'a,b', 3, None, 2.5, 'the quick  brown']
LIBS = ['lower', 'upper', 'strip', 'proper', 'f12', 'as_float', 'replace', 'split']
FLOATS = ['1k', '2.5m', '100%', '25%', '1,234', '-3', 'abc', '', ' 7 ', '1.5', 4, None, '2bn', '1 mln']


def text_struct(rng, depth, pool, top=False):
    if depth == 0 or (not top and rng.random() < 0.3):
        return rng.choice(pool)
    n = rng.choice([1, 2, 2, 3])
    r = rng.random()
    if r < 0.45:
        return [text_struct(rng, depth - 1, pool) for _ in range(n)]
    if r < 0.65:
        return tuple(text_struct(rng, depth - 1, pool) for _ in range(n))
    return {k: text_struct(rng, depth - 1, pool) for k in rng.sample(KEYS, n)}


def gen_lib(rng):
    name = rng.choice(LIBS)
    pool = FLOATS if name == 'as_float' else ([1.25, 2.0, -0.5, 3, 'txt', None] if name == 'f12' else TEXTS)
    v = text_struct(rng, rng.choice([0, 1, 2, 3]), pool, top=rng.random() < 0.9)
    kw = {}
    if name == 'replace':
        # `old` a string, or a list of strings: a list as long as the text container is matched element by element
        n = len(v) if isinstance(v, (list, tuple)) else 2
        old = rng.choice([' ', 'o', 'l', [' ', 'o'], [' ', 'o', 'l'], ['l'] * n, [[' ', 'l']] * n])
        if isinstance(v, dict) and rng.random() < 0.4:
            old = {k: rng.choice([' ', 'o', ['l', ' ']]) for k in v}
        kw = dict(old=old, new=rng.choice([None, '_', '', '-']))
    if name == 'split':
        n = len(v) if isinstance(v, (list, tuple)) else 2
        kw = dict(sep=rng.choice([' ', ',', 'l', [' ', ','], [' '] * n if n != 2 else ' ']), dedup=rng.choice([False, True]))
    return dict(tag='lib %s depth=%d' % (name, depth_of(v)), lines=['(lift lib %s %s %s)' % (proto.hexs(name), enc(v), enc(kw))])


def rand_seq(rng, n):
    r = rng.random()
    xs = [rng.choice([0, 1, 2, 'a', None, 2.5, [1], (2, 3)]) for _ in range(n)]
    if r < 0.6:
        return xs
    if r < 0.85:
        return tuple(xs)
    return {k: 1 for k in KEYS[:n]}


def zunmark(v):
    """round j6: a value that is neither a sequence nor a python scalar - the 0-dimensional array np.array(5) - is the string cell
    `~0d:5` on the wire (a string is a scalar for the model, as the 0-d array is for the text: it has no length and cannot be iterated)"""
    import numpy as np
    if isinstance(v, str) and v.startswith('~0d:'):
        return np.array(int(v[4:]))
    if isinstance(v, (list, tuple)):
        return type(v)(zunmark(x) for x in v)
    return v


def zmark(v):
    import numpy as np
    if isinstance(v, np.ndarray) and v.ndim == 0:
        return '~0d:%d' % int(v)
    if isinstance(v, (list, tuple)):
        return type(v)(zmark(x) for x in v)
    return v


def gen_zip(rng, op):
    # scalars: python scalars, and for zipper a 0-dimensional array (lens measures len0 of what it is given: a string has a length there)
    sc = [5, 'str', None, 2.5] + (['~0d:5', '~0d:5'] if op == 'zipper' else [])
    k = rng.choice([0, 1, 2, 2, 3, 3, 4])
    n = rng.choice([0, 2, 3, 3, 4])
    mode = rng.choice(['equal', 'broadcast', 'broadcast', 'mismatch', 'free'])
    vs = []
    for _ in range(k):
        r = rng.random()
        if mode == 'equal':
            vs.append(rand_seq(rng, n))
        elif mode == 'broadcast':
            vs.append(rand_seq(rng, n) if r < 0.45 else rand_seq(rng, 1) if r < 0.7 else rng.choice(sc))
        elif mode == 'mismatch':
            vs.append(rand_seq(rng, rng.choice([n, n + 1, 1])) if r < 0.8 else rng.choice([7] + sc[4:]))
        else:
            vs.append(rand_seq(rng, rng.choice([0, 1, 2, 3])) if r < 0.7 else rng.choice(sc[:3] + sc[4:]))
    return dict(tag='%s %s' % (op, mode if k else 'no-arguments'), lines=['(lift %s %s)' % (op, enc(vs))])


AS_UNIVERSE = [None, 0, 5, 'ab', '', 2.5, [], (), [1], (1,), [1, 2], (1, 2), ([1, 2],), ([],), [[1, 2]], [[1], [2]], ([1], [2]),
               ([[1, 2]],), ((1, 2),), [(1, 2)], [None], (None,), {'a': 1}, ({'a': 1},), [{'a': 1}], ([1, 2], 3), [[[1]]], (([1],),), ('ab',), ['ab']]


def gen_as(rng):
    for v in AS_UNIVERSE:
        for op in ('aslist', 'astuple'):
            yield dict(tag=op, lines=['(lift %s %s)' % (op, enc(v))])


# ---- waiter

class Aw(object):
    def __init__(self, n):
        self.n = n


class DCW(object):
    """generator-side marker: an instance of dict SUBCLASS number n (WAITER_DICTS) holding these items"""
    def __init__(self, n, items):
        self.n, self.items = n, items


class Dict2(dict):
    """a user dict subclass whose constructor does not take a mapping: Dict2(name, items)"""
    def __init__(self, name, items=()):
        super().__init__(items)
        self.name = name


# review w5 F2 (C19-F17): the dict classes `waiter` opens (isinstance(value, dict)): a class whose constructor does not take a single mapping
# (defaultdict: first argument the default factory; Dict2) cannot be rebuilt as type(value)(dict), Counter.update ADDS instead of assigning
WAITER_DICTS = {1: 'OrderedDict', 2: 'defaultdict', 3: 'Counter', 4: 'Dict2', 5: 'Dict', 6: 'dictattr'}


def waiter_dict(n, items):
    import pyg_base
    if n == 2:
        return collections.defaultdict(int, items)
    if n == 4:
        return Dict2('its-name', items)
    return {1: collections.OrderedDict, 3: collections.Counter, 5: pyg_base.Dict, 6: pyg_base.dictattr}[n](items)


_AWAITED = object()


def same_classes(orig, res):
    """'the same nested structure': wherever the awaited structure holds a list / tuple / dict, the result holds a container of exactly that
    class with the same keys (a defaultdict with its default_factory, a Dict2 with its name); the positions of awaitables hold whatever they returned"""
    if orig is _AWAITED:
        return True
    if isinstance(orig, dict):
        return (type(res) is type(orig) and list(res.keys()) == list(orig.keys()) and getattr(res, 'default_factory', None) is getattr(orig, 'default_factory', None)
                and getattr(res, 'name', None) == getattr(orig, 'name', None) and all(same_classes(orig[k], res[k]) for k in orig))
    if isinstance(orig, (list, tuple)):
        return type(res) is type(orig) and len(res) == len(orig) and all(same_classes(x, y) for x, y in zip(orig, res))
    return True


def enc_w(v):
    if isinstance(v, Aw):
        return '(A %d)' % v.n
    if isinstance(v, DCW):
        return '(DC %d' % v.n + ''.join(' (%s %s)' % (proto.hexs(k), enc_w(x)) for k, x in v.items.items()) + ')'
    if isinstance(v, list):
        return '(L' + ''.join(' ' + enc_w(x) for x in v) + ')'
    if isinstance(v, tuple):
        return '(T' + ''.join(' ' + enc_w(x) for x in v) + ')'
    if isinstance(v, dict):
        return '(D' + ''.join(' (%s %s)' % (proto.hexs(k), enc_w(x)) for k, x in v.items()) + ')'
    return enc(v)


def dec_w(sx, mk):
    if isinstance(sx, str):
        return proto.dec_cell(sx)
    head, rest = sx[0], sx[1:]
    if head == 'A':
        return mk(int(rest[0]))
    if head == 'L':
        return [dec_w(y, mk) for y in rest]
    if head == 'T':
        return tuple(dec_w(y, mk) for y in rest)
    if head == 'D':
        return {proto.unhex(kv[0]): dec_w(kv[1], mk) for kv in rest}
    if head == 'DC':
        return waiter_dict(int(rest[0]), {proto.unhex(kv[0]): dec_w(kv[1], mk) for kv in rest[1:]})
    raise ValueError(head)


def w_struct(rng, k, depth, classes=False):
    """a structure of depth <= depth holding awaitables 0..k-1 (each at least once) among plain leaves; classes: about every third dict is
    an instance of a dict subclass (WAITER_DICTS)"""
    ids = list(range(k))
    if k and rng.random() < 0.2:
        ids.append(rng.randrange(k))   # the same awaitable awaited twice
    rng.shuffle(ids)

    def build(ids, depth, top):
        if depth == 0 or (not top and len(ids) <= 1 and rng.random() < 0.5):
            if len(ids) == 1:
                return Aw(ids[0])
            if not ids:
                return rng.choice([0, 1, 'x', None, 2.5])
        n = min(5, max(rng.choice([1, 2, 3, 4]), 1 if depth > 1 else len(ids)))
        parts = [[] for _ in range(n)]
        for i in ids:
            parts[rng.randrange(n)].append(i)
        if depth == 1:
            parts = [[i] for i in ids] + [[] for _ in range(rng.choice([0, 1, 2]))]
            rng.shuffle(parts)
        kids = [build(p, depth - 1, False) for p in parts]
        r = rng.random()
        if r < 0.45:
            return kids
        if r < 0.7:
            return tuple(kids)
        d = dict(zip(rng.sample(['k%d' % j for j in range(len(kids))], len(kids)), kids))   # insertion order is not sorted order
        return DCW(rng.choice([1, 2, 2, 3, 4, 4, 5, 6]), d) if classes and rng.random() < 0.35 else d
    return build(ids, depth, True)


RESULTS = [100, 101, 'r2', [103, 'in-a-list'], None, 105.5, {'r': 6}]


def gen_waiter(rng, tier):
    # fixed cases: every dict subclass once, holding an awaitable and a plain leaf, bare and inside a list; a defaultdict without any awaitable
    for n in sorted(WAITER_DICTS):
        for ws in (enc_w(DCW(n, {'k1': Aw(0), 'k0': 7})), enc_w([DCW(n, {'k1': Aw(0), 'k0': 7}), {'a': DCW(n, {})}])):
            yield dict(tag='waiter dict subclass %s' % WAITER_DICTS[n], lines=['(waiter events %s %s)' % (ws, enc([(0, RESULTS[0])]))])
    yield dict(tag='waiter dict subclass defaultdict', lines=['(waiter events %s %s)' % (enc_w([DCW(2, {'a': 1})]), enc([]))])
    kmax = 4 if tier == 'quick' else 6
    per_k = ({0: 3, 1: 3, 2: 4, 3: 4, 4: 2} if tier == 'quick' else {0: 4, 1: 4, 2: 6, 3: 6, 4: 6, 5: 4, 6: 3})
    for k in range(kmax + 1):
        for s in range(per_k[k]):
            w = w_struct(rng, k, rng.choice([1, 2, 3, 4]), classes=True)
            ws = enc_w(w)
            for order in itertools.permutations(range(k)):
                evs = [(i, RESULTS[i]) for i in order]
                yield dict(tag='waiter k=%d all-orders' % k, lines=['(waiter events %s %s)' % (ws, enc(evs))])
            # prefixes: the caller must still be suspended while an awaitable is pending
            for _ in range(min(k, 3)):
                order = rng.sample(range(k), rng.randrange(0, k))
                evs = [(i, RESULTS[i]) for i in order]
                yield dict(tag='waiter incomplete', lines=['(waiter events %s %s)' % (ws, enc(evs))])


def generate(rng, tier):
    q = tier == 'quick'
    # corpus-like fixed cases first: F9 (nested container with positional companions)
    yield dict(tag='lift depth=2 companions=scalar pos', lines=[call_line([[[1, 2]], 5], {})])
    yield dict(tag='lift depth=2 companions=same pos', lines=[call_line([[[1, 2], [3, 4]], [[5, 6], [7, 8]]], {'b': [[0, 0], [1, 1]]})])
    for _ in range(4000 if q else 40000):
        yield gen_call(rng)
    for _ in range(400 if q else 4000):
        yield gen_call(rng, bad=0.2)
    # the same calls on namedtuples and dicts with keys of several types (`callx`, see run_line)
    yield dict(tag='liftx namedtuple', lines=['(lift callx %s %s (D))' % (proto.hexs(TOP), enc([('A', 'B')]))])
    yield dict(tag='liftx mixed keys', lines=['(lift callx %s %s (D))' % (proto.hexs(TOP), enc([{'a': 'A', 'b': 'B'}, {'b': 1, 'a': 2}]))])
    for _ in range(800 if q else 8000):
        c = gen_call(rng, bad=0.05)
        yield dict(tag=c['tag'].replace('lift ', 'liftx ', 1), lines=[l.replace('(lift call ', '(lift callx ', 1) for l in c['lines']])
    # dict keys that are equal but spelt differently in the companion (1 / 1.0), and keys that cannot be sorted at all
    yield dict(tag='lifty companion keys spelt as floats', lines=['(lift cally %s %s (D))' % (proto.hexs(TOP), enc([{'a': 'A', 'b': 'B', 'd': 'D'}, {'a': 10, 'b': 20, 'd': 30}]))])
    yield dict(tag='liftz tuple keys of mixed content', lines=['(lift callz %s %s (D))' % (proto.hexs(TOP), enc([{'a': 'A', 'b': 'B'}, {'b': 1, 'a': 2}]))])
    for j in range(600 if q else 6000):
        c = gen_call(rng, dicts=True)
        op = 'cally' if j % 3 else 'callz'
        yield dict(tag=c['tag'].replace('lift ', 'lifty ' if op == 'cally' else 'liftz ', 1), lines=[l.replace('(lift call ', '(lift %s ' % op, 1) for l in c['lines']])
    # the factory's dict classes with keys on which they overload __getitem__ (`callq`)
    yield dict(tag='liftq dictattr with a tuple key made of its other keys', lines=['(lift callq %s %s (D))' % (proto.hexs(TOP), enc([{'a': 'P', 'b': 'Q', 'c': 'X'}]))])
    yield dict(tag='liftq dictattr companion with a tuple key', lines=['(lift callq %s %s (D))' % (proto.hexs(TOP), enc([{'c': 1, 'a': 2, 'b': 3, 'k': 4}, {'c': 10, 'a': 20, 'b': 30, 'k': 40}]))])
    for j in range(500 if q else 5000):
        c = gen_call(rng, dicts=True)
        yield dict(tag=c['tag'].replace('lift ', 'liftq ', 1), lines=[l.replace('(lift call ', '(lift callq ', 1) for l in c['lines']])
    # round k6: a range key (a sub-dict for dictattr) and the empty string as a key (`callr`, KEYMAP_R)
    yield dict(tag='liftr dictattr with a range key and the empty key', lines=['(lift callr %s %s (D))' % (proto.hexs(TOP), enc([{'a': 'P', 'b': 'Q', 'c': 'X', 'd': 'Y'}]))])
    yield dict(tag='liftr companion with a range key and the empty key', lines=['(lift callr %s %s (D))' % (proto.hexs(TOP), enc([{'c': 1, 'a': 2, 'd': 3, 'k': 4}, {'c': 10, 'a': 20, 'd': 30, 'k': 40}]))])
    for j in range(200 if q else 3000):
        c = gen_call(rng, dicts=True)
        yield dict(tag=c['tag'].replace('lift ', 'liftr ', 1), lines=[l.replace('(lift call ', '(lift callr ', 1) for l in c['lines']])
    for _ in range(1200 if q else 12000):
        yield gen_lib(rng)
    for _ in range(1200 if q else 12000):
        yield gen_zip(rng, 'zipper')
    for _ in range(400 if q else 4000):
        yield gen_zip(rng, 'lens')
    for c in gen_as(rng):
        yield c
    for c in gen_waiter(rng, tier):
        yield c
    # model extension: dict subclasses, pandas / numpy branches, closed text helpers, failing awaitables
    for c in X.generate(rng, tier):
        yield c
    for c in X.gen_waiterf(rng, tier, w_struct, enc_w):
        yield c


# ---------------------------------------------------------------- implementation runner

SPIN = 60


def run_waiter(wsx, events):
    from pyg_base import waiter
    loop = asyncio.new_event_loop()
    try:
        futs = {}

        def mk(n):
            if n not in futs:
                futs[n] = loop.create_future()
            return futs[n]

        async def main():
            struct = dec_w(wsx, mk)
            task = asyncio.ensure_future(waiter(struct))
            # let the loop run until everything that can finish has finished: a nested gather needs about three
            # iterations per level (task start, child completion callbacks, wake-up), depth <= 5 here
            for _ in range(SPIN):
                await asyncio.sleep(0)
            for i, v in events:
                futs[i].set_result(v)
                for _ in range(SPIN):
                    await asyncio.sleep(0)
            if task.done():
                return True, task.result()
            task.cancel()
            try:
                await task
            except BaseException:
                pass
            return False, None
        return loop.run_until_complete(main())
    finally:
        loop.close()


def run_waiter_chain(wsx, events):
    """the same schedule with LAZY awaitables that hand over to one another: every awaitable is a coroutine that waits for
    its gate and, when it finishes, opens the gate of the next one in the completion order.  The completion order is then
    enforced by the awaitables themselves, so a waiter that does not start all of them concurrently (e.g. awaits dict values
    one after the other) cannot realise an order in which a later member must finish first."""
    from pyg_base import waiter
    loop = asyncio.new_event_loop()
    try:
        order = [i for i, _ in events]
        vals = dict(events)
        nxt = {order[k]: order[k + 1] for k in range(len(order) - 1)}
        gates = {}

        def gate(n):
            if n not in gates:
                gates[n] = loop.create_future()
            return gates[n]

        async def co(n):
            await gate(n)
            if n in nxt and not gate(nxt[n]).done():       # (the same awaitable may occur at several places of the structure)
                gate(nxt[n]).set_result(None)
            return vals[n]

        async def main():
            struct = dec_w(wsx, lambda n: co(n))
            task = asyncio.ensure_future(waiter(struct))
            if order:
                gate(order[0]).set_result(None)
            for _ in range(SPIN * (len(order) + 1)):
                await asyncio.sleep(0)
                if task.done():
                    break
            if task.done():
                return True, task.result()
            task.cancel()
            try:
                await task
            except BaseException:
                pass
            return False, None
        return loop.run_until_complete(main())
    finally:
        loop.close()


def lib_leaf(name):
    import pyg_base._txt as T, pyg_base._as_float as A
    return getattr(A if name == 'as_float' else T, '_' + name).function


def run_line(state, sx):
    import pyg_base
    model, op, args = sx[0], sx[1], sx[2:]
    if model == 'liftx':
        return X.run_line(sx)
    if model == 'waiterf':
        evs = [(int(e[1].split(':')[1]), (e[2][1] == 'B:1', proto.dec(e[2][2]))) for e in args[1][1:]]
        return 'ok ' + enc(X.run_waiterf(args[0], evs, dec_w))
    if model == 'waiter':
        evs = [(int(e[1].split(':')[1]), proto.dec(e[2])) for e in args[1][1:]]
        done, res = run_waiter(args[0], evs)
        done2, res2 = run_waiter_chain(args[0], evs)
        # the model's dict has no class (the wire reply spells every dict as (D ..)): the class, the key order and the attributes are checked here
        orig = dec_w(args[0], lambda n: _AWAITED)
        for d, r in ((done, res), (done2, res2)):
            if d and not same_classes(orig, r):
                raise AssertionError('waiter did not return the same nested structure: %r for %r' % (r, orig))
        if enc((done2, res2)) != enc((done, res)):
            return 'ok ' + enc((done2, res2))          # lazy hand-over awaitables behave differently from plain futures: report that outcome
        return 'ok ' + enc((done, res))
    if op == 'callx':
        # the same call on containers the wire cannot spell: every tuple of 1..5 items is a namedtuple, dict keys are ints /
        # strings / None mixed (KEYMAP); the result is checked for the container types and mapped back
        a, kw = exo(proto.dec(args[1])), {n: exo(c) for n, c in proto.dec(args[2]).items()}
        before = typed([a, kw])
        res = lifted(rec)(*a, **kw)
        if typed([a, kw]) != before:
            raise AssertionError('arguments were modified')
        same_types(a[0] if a else kw[TOP], res)
        return 'ok ' + enc(unexo(res))
    if op in ('cally', 'callz'):
        # cally: the looped argument has its keys through KEYMAP_Y, the COMPANIONS spell the same keys differently (1.0 for 1, 3.0
        # for 3): the same key set under python ==.  callz: keys are tuples of mixed content (cannot be sorted, not even by type name)
        m1, m2 = (KEYMAP_Y, KEYMAP_Y2) if op == 'cally' else (KEYMAP_Z, KEYMAP_Z)
        a0, kw0 = proto.dec(args[1]), proto.dec(args[2])
        a = [exo(x, m1 if j == 0 else m2) for j, x in enumerate(a0)]
        kw = {n: exo(c, m1 if (n == TOP and not a0) else m2) for n, c in kw0.items()}
        res = lifted(rec)(*a, **kw)
        same_types(a[0] if a else kw[TOP], res)
        back = {v: k for k, v in m1.items()}            # 1.0 == 1 and hash(1.0) == hash(1): both spellings map back
        return 'ok ' + enc(unexo(res, back))
    if op in ('callq', 'callr'):
        km, back = (KEYMAP_Q, _KEYBACK_Q) if op == 'callq' else (KEYMAP_R, _KEYBACK_R)
        # the dict classes the `loop` factory adds (_dict.py:163-173: Dict, dictattr, OrderedDict) as looped argument and as
        # companions, with keys on which these classes overload `__getitem__` (a tuple key = multi-get, a callable key = apply):
        # a lifted function must read its dicts as the mappings they are (review t5: `lower(dictattr({'a':'P','b':'Q',('a','b'):'X'}))`
        # lost the leaf 'X')
        a0, kw0 = proto.dec(args[1]), proto.dec(args[2])
        a = [exq(x, 0, 0 if j == 0 else 1, km) for j, x in enumerate(a0)]
        kw = {n: exq(c, 0, 0 if (n == TOP and not a0) else 1, km) for n, c in kw0.items()}
        res = lifted(rec)(*a, **kw)
        same_types_q(a[0] if a else kw[TOP], res)
        return 'ok ' + enc(unexq(res, back))
    if op == 'call':
        a, kw = proto.dec(args[1]), proto.dec(args[2])
        before = enc([a, kw])
        res = lifted(rec)(*a, **kw)
        if enc([a, kw]) != before:
            raise AssertionError('arguments were modified')
        return 'ok ' + enc(res)
    if op == 'lib':
        name = proto.unhex(args[0])
        return 'ok ' + enc(getattr(pyg_base, name)(proto.dec(args[1]), **proto.dec(args[2])))
    if op == 'zipper':
        return 'ok ' + enc(zmark(list(pyg_base.zipper(*zunmark(proto.dec(args[0]))))))
    if op == 'lens':
        return 'ok ' + enc(pyg_base.lens(*proto.dec(args[0])))
    if op == 'aslist':
        r = pyg_base.as_list(proto.dec(args[0]))
        assert isinstance(r, list)
        return 'ok ' + enc(r)
    if op == 'astuple':
        r = pyg_base.as_tuple(proto.dec(args[0]))
        assert isinstance(r, tuple)
        return 'ok ' + enc(r)
    return 'bad-op'


# ---------------------------------------------------------------- the statement, in python (used by compare and laws)

def is_box(v):
    return isinstance(v, (list, tuple, dict))


def clear_kind(v, c):
    """is companion `c` of a kind whose treatment the property text fixes without interpretation?  'scalar' (holds no
    container at all), 'same' (same shape as v: every container of v is matched by a sequence of the same length / a dict of
    the same keys; may stop early with a scalar), 'flat-other' (v is one flat container and c is a flat container that does NOT
    match it - other length, other key set, list against dict: "everything else is broadcast", so every leaf gets c whole),
    else None"""
    if not is_box(c):
        return 'scalar'
    if _matches(v, c):
        return 'same'
    if is_box(v) and _flat(v) and _flat(c) and not _level_match(v, c):
        return 'flat-other'
    return None


def _flat(x):
    return not any(is_box(m) for m in (x.values() if isinstance(x, dict) else x))


def _level_match(v, c):
    if isinstance(v, dict):
        return isinstance(c, dict) and sorted(c) == sorted(v)
    return isinstance(c, (list, tuple)) and len(c) == len(v)


def _matches(v, c):
    if not is_box(c):
        return True           # a scalar where v continues: broadcast from here on
    if isinstance(v, dict):
        return isinstance(c, dict) and sorted(c) == sorted(v) and all(_matches(v[k], c[k]) for k in v)
    if isinstance(v, (list, tuple)):
        return isinstance(c, (list, tuple)) and len(c) == len(v) and all(_matches(x, y) for x, y in zip(v, c))
    return True               # v is a leaf: whatever was matched down to here (scalar or container) is what f receives, whole


def holds_seq(c, n):
    """a list/tuple of another length than n that holds, inside nested lists/tuples, a list/tuple of length n"""
    return isinstance(c, (list, tuple)) and len(c) != n and any(
        isinstance(e, (list, tuple)) and (len(e) == n or holds_seq(e, n)) for e in c)


def holds_dict(c, keys):
    """a dict with other keys that holds, inside nested dict values, a dict with exactly these keys"""
    return isinstance(c, dict) and sorted(c) != keys and any(
        isinstance(e, dict) and (sorted(e) == keys or holds_dict(e, keys)) for e in c.values())


def searched(v, c):
    """finding K3: somewhere on the way down `v` the companion `c` (or the part of it selected so far) is a container that does
    NOT match the level (the statement: broadcast) but holds a matching container further inside - the code then looks inside it
    (`_item_by_i` maps over the elements of a sequence of another length, `_item_by_key` over the values of a dict with other keys)"""
    if not is_box(v) or not is_box(c):
        return False
    if isinstance(v, dict):
        keys = sorted(v)
        if isinstance(c, dict) and sorted(c) == keys:
            return any(searched(v[k], c[k]) for k in v)
        return holds_dict(c, keys) or any(searched(x, c) for x in v.values())
    n = len(v)
    if isinstance(c, (list, tuple)) and len(c) == n:
        return any(searched(x, y) for x, y in zip(v, c))
    return holds_seq(c, n) or any(searched(x, c) for x in v)


def ref_lift_k3(fn, v, kw):
    """what finding K3 describes: like the statement, but a sequence of another length is mapped over its elements and a dict
    with other keys over its values when looking for the matching container (used only to recognise K3 precisely)"""
    def by_i(c, i, n):
        if isinstance(c, (list, tuple)):
            return c[i] if len(c) == n else type(c)([by_i(e, i, n) for e in c])
        return c

    def by_key(c, k, keys):
        if isinstance(c, dict):
            return c[k] if sorted(c) == keys else {kk: by_key(e, k, keys) for kk, e in c.items()}
        return c
    if isinstance(v, dict):
        keys = sorted(v)
        return {k: ref_lift_k3(fn, v[k], {n: by_key(c, k, keys) for n, c in kw.items()}) for k in v}
    if isinstance(v, (list, tuple)):
        return type(v)([ref_lift_k3(fn, x, {n: by_i(c, i, len(v)) for n, c in kw.items()}) for i, x in enumerate(v)])
    return fn(v, **kw)


def ref_lift(fn, v, pos, kw):
    """the property statement for scalar / same-shape companions: same containers, leaves = fn(leaf, matched companions)"""
    def pick(c, step):
        if not is_box(c) or not _level_match(v, c):
            return c                          # a scalar, or a container that does not match this level: broadcast whole
        return c[step]
    if isinstance(v, dict):
        return {k: ref_lift(fn, v[k], [pick(c, k) for c in pos], {n: pick(c, k) for n, c in kw.items()}) for k in v}
    if isinstance(v, (list, tuple)):
        return type(v)([ref_lift(fn, x, [pick(c, i) for c in pos], {n: pick(c, i) for n, c in kw.items()}) for i, x in enumerate(v)])
    return fn(v, *pos, **kw)


CALL_OPS = ('call', 'callx', 'cally', 'callz', 'callq', 'callr')


def clear_expected(line, pop_axis=False):
    """expected reply of a `lift call` line when all its companions are clear, else None.  The statement treats a keyword
    called `axis` like any other ("everything else is broadcast, whether passed positionally or by keyword"); `pop_axis=True`
    gives what finding K7 describes instead (the keyword never reaches f)"""
    sx = proto.parse(line)
    if sx[0] != 'lift' or sx[1] not in CALL_OPS:
        return None
    a, kw = proto.dec(sx[3]), proto.dec(sx[4])
    kw = dict(kw)
    if a:
        v, pos = a[0], a[1:]
    elif TOP in kw:
        v, pos = kw.pop(TOP), []
    else:
        return None
    if pop_axis:
        kw.pop('axis', None)
    if any(clear_kind(v, c) is None for c in list(pos) + list(kw.values())):
        return None
    try:
        return 'ok ' + enc(ref_lift(rec, v, pos, kw))
    except Exception as e:
        return proto.err_reply(e)


def has_axis_kw(line):
    """a `lift call` line that passes a keyword called `axis` together with a looped argument"""
    sx = proto.parse(line)
    a, kw = proto.dec(sx[3]), proto.dec(sx[4])
    return 'axis' in kw and (len(a) > 0 or TOP in kw)


def lib_expected(line, mr):
    """library text functions: the model predicts the leaf calls (leaf, args, kw); the harness applies the library's own
    leaf function to them"""
    sx = proto.parse(line)
    name = proto.unhex(sx[2])
    v = proto.dec(sx[3])
    if not mr.startswith('ok '):
        return mr
    rec_out = proto.dec(proto.parse(mr[3:]))
    fn = lib_leaf(name)

    def walk(v, r):
        if isinstance(v, dict):
            return {k: walk(v[k], r[k]) for k in v}
        if isinstance(v, (list, tuple)):
            return type(v)([walk(x, y) for x, y in zip(v, r)])
        leaf, args, kw = r
        return fn(v, *args, **kw)
    try:
        return 'ok ' + enc(walk(v, rec_out))
    except Exception as e:
        return proto.err_reply(e)


def compare(case, i, line, ir, mr):
    if line.startswith('(liftx '):
        return X.compare(line, ir, mr)
    if line.startswith('(waiterf '):
        if proto.same_reply(ir, mr, numeric=False):
            return None
        return ('divergence', 'failing awaitables (model extension, the statement speaks of results): implementation %s, model %s' % (ir, mr))
    if line.startswith('(lift lib '):
        exp = lib_expected(line, mr)
        if proto.same_reply(ir, exp, numeric=False):
            return None
        return 'library function returned %s; leaf function applied to the leaf calls of the model gives %s' % (ir, exp)
    is_call = line.startswith('(lift call') and proto.parse(line)[1] in CALL_OPS
    if is_call and has_axis_kw(line):
        # the model copies the code here (`dropAxis`), so agreement with the model proves nothing: judge the line by the statement
        exp = clear_expected(line)
        if exp is not None and not proto.same_reply(ir, exp, numeric=False):
            return 'lifted call with a keyword called axis returned %s, the statement (a keyword companion is matched / broadcast like a positional one) requires %s' % (ir, exp)
    if proto.same_reply(ir, mr, numeric=False):
        return None
    if is_call:
        exp = clear_expected(line)
        if exp is not None:
            if not proto.same_reply(ir, exp, numeric=False):
                return 'lifted call returned %s, the statement (same shape, leaves = f(leaf, matched companions)) requires %s' % (ir, exp)
            return ('divergence', 'implementation satisfies the statement (%s) but the model says %s' % (ir, mr))
        return ('divergence', 'companion of a shape the property does not pin down: implementation %s, model %s' % (ir, mr))
    return 'implementation %s, model %s' % (ir, mr)


def shrink(case, still_fails):
    """a waiter line is reported as generated: the generic shrinker also drops members of the (T id result) events, which leaves a line
    neither side can read (model bad-op, runner IndexError) and reports THAT instead of the failure found.  Any other case: the generic shrinker"""
    if any(l.startswith('(waiter ') for l in case.get('lines') or []):
        return case
    raise NotImplementedError('generic shrinking')


def nontrivial(line, reply):
    if not reply.startswith('ok'):
        return False
    sx = proto.parse(line)
    if sx[0] == 'liftx':
        return X.nontrivial(line, reply)
    if sx[0] == 'waiterf':
        return '(A ' in line
    if sx[0] == 'waiter':
        return '(A ' in line
    if sx[1] in CALL_OPS:
        a = sx[3]
        return len(a) > 1 and isinstance(a[1], list) and len(a[1]) > 1
    if sx[1] == 'lib':
        return isinstance(sx[3], list) and len(sx[3]) > 1
    return '(L (' in line or '(T' in line



# ---------------------------------------------------------------- containers the wire format cannot spell (laws only)

import collections
_NT = {n: collections.namedtuple('NT%d' % n, ['f%d' % i for i in range(n)]) for n in range(1, 6)}
KEYMAP = {'a': 1, 'b': 'b', 'c': 3, 'd': 'd', 'k': None}      # string keys -> ints, strings and None mixed in one dict


def exotic(rng, v, nt, keys):
    """the same structure with (some) tuples as namedtuples (`nt`) and dict keys of several types (`keys`)"""
    if isinstance(v, dict):
        return {(KEYMAP[k] if keys else k): exotic(rng, x, nt, keys) for k, x in v.items()}
    if isinstance(v, list):
        return [exotic(rng, x, nt, keys) for x in v]
    if isinstance(v, tuple):
        items = [exotic(rng, x, nt, keys) for x in v]
        if nt and 1 <= len(items) <= 5 and rng.random() < 0.7:
            return _NT[len(items)](*items)
        return tuple(items)
    return v


KEYMAP_Y = {'a': 1, 'b': 'b', 'c': 3, 'd': 2.5, 'k': None}          # the looped argument of a `cally` line
KEYMAP_Y2 = {'a': 1.0, 'b': 'b', 'c': 3.0, 'd': 2.5, 'k': None}     # its companions: the same keys (1 == 1.0), spelt as floats
KEYMAP_Z = {'a': (1, 'x'), 'b': ('x', 1), 'c': (None, 2), 'd': 'd', 'k': (2.5,)}    # `callz`: tuple keys of mixed content


KEYMAP_Q = {'a': 'a', 'b': 'b', 'c': ('a', 'b'), 'd': int, 'k': ('a',)}      # `callq`: keys on which dictattr / Dict overload __getitem__
_KEYBACK_Q = {v: k for k, v in KEYMAP_Q.items()}
# `callr` (round k6): a RANGE key (dictattr reads `d[range(2)]` as a sub-dict), the EMPTY string as a key (the wire format cannot
# spell it: `(D ( v))` does not parse) and a 1-tuple of another key
KEYMAP_R = {'a': 'a', 'b': 'b', 'c': range(2), 'd': '', 'k': ('b',)}
_KEYBACK_R = {v: k for k, v in KEYMAP_R.items()}


def _classes_q():
    from pyg_base import Dict, dictattr
    return [dictattr, Dict, dict, collections.OrderedDict]


def exq(v, depth, salt, km=None):
    """deterministic: every dict becomes one of dictattr / Dict / dict / OrderedDict (by size, depth and role), keys through KEYMAP_Q"""
    km = KEYMAP_Q if km is None else km
    if isinstance(v, dict):
        cls = _classes_q()[(len(v) + depth + salt) % 4]
        return cls({km.get(k, k): exq(x, depth + 1, salt, km) for k, x in v.items()})
    if isinstance(v, list):
        return [exq(x, depth + 1, salt, km) for x in v]
    if isinstance(v, tuple):
        return tuple(exq(x, depth + 1, salt, km) for x in v)
    return v


def unexq(v, back=None):
    back = _KEYBACK_Q if back is None else back
    if isinstance(v, dict):
        return {back.get(k, k): unexq(x, back) for k, x in dict.items(v)}
    if isinstance(v, list):
        return [unexq(x, back) for x in v]
    if isinstance(v, tuple):
        return tuple(unexq(x, back) for x in v)
    return v


def same_types_q(v, r):
    """the result has the container classes and keys (in order) of the looped argument; dicts are read with dict.__getitem__"""
    if isinstance(v, dict):
        if type(r) is not type(v) or list(dict.keys(r)) != list(dict.keys(v)):
            raise AssertionError('container type / keys not kept: %s -> %s' % (type(v).__name__, type(r).__name__))
        for k in dict.keys(v):
            same_types_q(dict.__getitem__(v, k), dict.__getitem__(r, k))
    elif isinstance(v, (list, tuple)):
        if type(r) is not type(v) or len(r) != len(v):
            raise AssertionError('container type / length not kept: %s -> %s' % (type(v).__name__, type(r).__name__))
        for x, y in zip(v, r):
            same_types_q(x, y)


def exo(v, keymap=None):
    """deterministic: EVERY tuple of 1..5 items becomes a namedtuple, every dict key goes through KEYMAP"""
    keymap = KEYMAP if keymap is None else keymap
    if isinstance(v, dict):
        return {keymap.get(k, k): exo(x, keymap) for k, x in v.items()}
    if isinstance(v, list):
        return [exo(x, keymap) for x in v]
    if isinstance(v, tuple):
        items = [exo(x, keymap) for x in v]
        return _NT[len(items)](*items) if 1 <= len(items) <= 5 else tuple(items)
    return v


_KEYBACK = {v: k for k, v in KEYMAP.items()}


def unexo(v, back=None):
    back = _KEYBACK if back is None else back
    if isinstance(v, dict):
        return {back.get(k, k): unexo(x, back) for k, x in v.items()}
    if isinstance(v, list):
        return [unexo(x, back) for x in v]
    if isinstance(v, tuple):
        return tuple(unexo(x, back) for x in v)
    return v


def same_types(v, r):
    """the result has the container types of the looped argument (a namedtuple must come back as that namedtuple)"""
    if isinstance(v, dict):
        if type(r) is not type(v) or list(r) != list(v):
            raise AssertionError('container type / keys not kept: %s -> %s' % (typed(v), typed(r)))
        for k in v:
            same_types(v[k], r[k])
    elif isinstance(v, (list, tuple)):
        if type(r) is not type(v) or len(r) != len(v):
            raise AssertionError('container type / length not kept: %s -> %s' % (typed(v), typed(r)))
        for x, y in zip(v, r):
            same_types(x, y)


def typed(v):
    """a printable form that shows container TYPES (a namedtuple is not a tuple here) and keys of any type"""
    if isinstance(v, dict):
        return '{%s}' % ', '.join('%r: %s' % (k, typed(x)) for k, x in v.items())
    if isinstance(v, (list, tuple)):
        return '%s(%s)' % (type(v).__name__, ', '.join(typed(x) for x in v))
    return repr(v)


def rebuild(v, items):
    return type(v)(*items) if hasattr(v, '_fields') else type(v)(items)


def ref_lift_typed(fn, v, kw):
    """the statement for scalar / same-shape keyword companions, for containers of any tuple subclass and keys of any type"""
    def match(c):
        if isinstance(v, dict):
            return isinstance(c, dict) and set(c) == set(v)
        return isinstance(c, (list, tuple)) and len(c) == len(v)
    if isinstance(v, dict):
        return {k: ref_lift_typed(fn, v[k], {n: (c[k] if match(c) else c) for n, c in kw.items()}) for k in v}
    if isinstance(v, (list, tuple)):
        return rebuild(v, [ref_lift_typed(fn, x, {n: (c[i] if match(c) else c) for n, c in kw.items()}) for i, x in enumerate(v)])
    return fn(v, **kw)

# ---------------------------------------------------------------- laws on the implementation alone

def laws(rng, tier, ctx):
    import pyg_base
    from pyg_base import zipper, as_list, as_tuple
    count = 0
    n = 2000 if tier == 'quick' else 20000
    L = lifted(named)
    LR = lifted(rec)
    for _ in range(n):
        v = rand_struct(rng, rng.choice([1, 2, 3, 4]), top=True)
        kb, b = rand_companion(rng, v)
        kc, c = rand_companion(rng, v)
        # (1) positional = keyword passing, for any companions
        calls = [('pos,pos', lambda: L(v, b, c)), ('pos,kw', lambda: L(v, b, c=c)), ('kw,kw', lambda: L(v, b=b, c=c)), ('all-kw', lambda: L(a=v, c=c, b=b))]
        outs = []
        for nm, fn in calls:
            try:
                outs.append('ok ' + enc(fn()))
            except Exception as e:
                outs.append(proto.err_reply(e))
        count += 1
        if len(set(outs)) != 1:
            j = [o != outs[2] for o in outs].index(True)
            line = call_line([v, b, c], {}) if j == 0 else call_line([v, b], {'c': c}) if j == 1 else call_line([], {TOP: v, 'b': b, 'c': c})
            yield Finding('violation', dict(tag='law-pos-kw', lines=[line]),
                          'companions passed %s give %s but passed by keyword %s' % (calls[j][0], outs[j], outs[2]))
            continue
        # (2) the statement, level by level, for ANY companions: a companion that is a sequence of the length / a dict of the keys of
        # the container being looped is matched element by element, everything else is passed on whole
        count += 1
        exp = 'ok ' + enc(ref_lift(named, v, [], dict(b=b, c=c)))
        if outs[2] != exp:
            k3 = (searched(v, b) or searched(v, c)) and outs[2] == 'ok ' + enc(ref_lift_k3(named, v, dict(b=b, c=c)))
            yield Finding('violation', dict(tag='law-broadcast-searched-inside' if k3 else 'law-leaves', lines=[call_line([v], {'b': b, 'c': c})]),
                          'lifted call gives %s, the statement requires %s' % (outs[2], exp))
    # (1b) positional = keyword passing when the keyword is called `axis` (finding K7: the lifted function never receives it)
    LA = lifted(with_axis)
    for _ in range(n // 4):
        v = rand_struct(rng, rng.choice([1, 2, 3]), top=True)
        kc, c = rand_companion(rng, v)
        count += 1
        outs = []
        for fn in (lambda: LA(v, c), lambda: LA(v, axis=c)):
            try:
                outs.append('ok ' + enc(fn()))
            except Exception as e:
                outs.append(proto.err_reply(e))
        if outs[0] != outs[1]:
            swallowed = outs[1] == 'ok ' + enc(ref_lift(with_axis, v, [], {}))       # every leaf call got the default: axis never arrived
            yield Finding('violation', dict(tag='law-axis-keyword-swallowed' if swallowed else 'law-pos-kw', lines=[call_line([v], {'axis': c})]),
                          'with_axis(a, axis) lifted: companion passed positionally gives %s, passed as axis= gives %s' % (outs[0], outs[1]))
    # (3) zipper: equal lengths zip, scalars and length-1 broadcast, ValueError iff two lengths differ and neither is 1
    for _ in range(n):
        case = gen_zip(rng, 'zipper')
        vs = proto.dec(proto.parse(case['lines'][0])[2])
        seqs = [list(x) if is_box(x) else [x] for x in vs]
        lens_ = set(len(s) for s in seqs) - {1}
        count += 1
        try:
            out = zmark(list(zipper(*zunmark(copy.deepcopy(vs)))))
        except ValueError:
            out = 'ValueError'
        except Exception as e:
            out = type(e).__name__
        if len(lens_) > 1:
            exp = 'ValueError'
        elif not vs:
            exp = []
        else:
            m = list(lens_)[0] if lens_ else 1
            exp = [tuple(s[0] if len(s) == 1 else s[i] for s in seqs) for i in range(m)]
        if enc_or(out) != enc_or(exp):
            yield Finding('violation', dict(case, tag='law-zipper'), 'zipper gives %s, the statement requires %s' % (enc_or(out), enc_or(exp)))
    # (4) as_list / as_tuple are idempotent
    pool = list(AS_UNIVERSE) + [rand_struct(rng, 3, top=True) for _ in range(100 if tier == 'quick' else 2000)]
    for v in pool:
        for nm, fn, op in (('as_list', as_list, 'aslist'), ('as_tuple', as_tuple, 'astuple')):
            count += 1
            once = fn(copy.deepcopy(v))
            twice = fn(copy.deepcopy(once))
            if enc(once) != enc(twice) or type(once) is not type(twice):
                yield Finding('violation', dict(tag='law-%s-idem' % op, lines=['(lift %s %s)' % (op, enc(v))]),
                              '%s(v) = %s but %s(%s(v)) = %s' % (nm, enc(once), nm, nm, enc(twice)))
    # (4b) ... also on the iterables `is_rng` accepts, which the wire cannot spell (review t5): dict key / value views, ranges, zips (an items view is not `is_rng`: it is wrapped like a scalar).  They are
    # read as the list of their items, so the replay line (and the K2 class: exactly one item, a list) is that of `list(v)`
    for mkv, what in [(lambda: {'a': [1, 2]}.values(), "{'a':[1,2]}.values()"), (lambda: {'a': 1, 'b': 2}.keys(), "{'a':1,'b':2}.keys()"),
                      (lambda: range(3), 'range(3)'), (lambda: range(0), 'range(0)'),
                      (lambda: range(1), 'range(1)'), (lambda: zip([1, 2], [3, 4]), 'zip([1,2],[3,4])'), (lambda: {'a': [[1]]}.values(), "{'a':[[1]]}.values()"),
                      (lambda: {}.values(), '{}.values()'), (lambda: {'a': (1, 2)}.values(), "{'a':(1,2)}.values()")]:
        for nm, fn, op in (('as_list', as_list, 'aslist'), ('as_tuple', as_tuple, 'astuple')):
            count += 1
            once = fn(mkv())
            twice = fn(copy.deepcopy(once))
            if enc(once) != enc(fn(list(mkv()))) or type(once) is not (list if op == 'aslist' else tuple):
                yield Finding('violation', dict(tag='law-%s-iterable' % op, lines=[], values=[what]),
                              '%s(%s) = %s but %s of the list of its items = %s' % (nm, what, enc(once), nm, enc(fn(list(mkv())))))
            elif enc(once) != enc(twice) or type(once) is not type(twice):
                yield Finding('violation', dict(tag='law-%s-idem' % op, lines=['(lift %s %s)' % (op, enc(list(mkv())))], values=[what]),
                              '%s(v) = %s but %s(%s(v)) = %s for v = %s' % (nm, enc(once), nm, nm, enc(twice), what))
    # (5) the public text / number helpers are the lifted leaf functions (shape and leaves), on same-shape / scalar companions
    for _ in range(n // 2):
        name = rng.choice(['lower', 'upper', 'strip', 'proper', 'f12', 'as_float', 'split', 'replace'])
        pool_ = FLOATS if name == 'as_float' else ([1.25, 2.0, -0.5, 3, 'txt', None] if name == 'f12' else TEXTS)
        v = text_struct(rng, rng.choice([1, 2, 3, 4]), pool_, top=True)
        kw = {}
        if name == 'split':
            kw = dict(sep=rng.choice([' ', ',', 'l']), dedup=rng.choice([False, True]))
        if name == 'replace':
            kw = dict(old=rng.choice([' ', 'o', 'l']), new=rng.choice([None, '_', '-']))
            if isinstance(v, (list, tuple)) and v and rng.random() < 0.3:
                kw['old'] = [rng.choice([' ', 'o', 'l']) for _ in v]      # as long as the text container: matched element by element
        count += 1
        out = getattr(pyg_base, name)(copy.deepcopy(v), **copy.deepcopy(kw))
        exp = ref_lift(lib_leaf(name), v, [], kw)
        if enc(out) != enc(exp):
            yield Finding('violation', dict(tag='law-lib', lines=['(lift lib %s %s %s)' % (proto.hexs(name), enc(v), enc(kw))]),
                          '%s gives %s, leaf-wise application gives %s' % (name, enc(out), enc(exp)))
            continue
        # the VALUE of the call may not depend on what the caller did to an earlier result: every list in the result is edited in
        # place and the same call is made again (seeded C19-u2: the per-leaf split memoised, the cached list handed out)
        from pv import alias
        e_exp = enc(exp)            # encoded BEFORE the edit: the reference applies the library's own leaf function and may hold the same objects
        alias.scribble(out)
        count += 1
        again = getattr(pyg_base, name)(copy.deepcopy(v), **copy.deepcopy(kw))
        if enc(again) != e_exp:
            yield Finding('violation', dict(tag='law-lib-again', lines=['(lift lib %s %s %s)' % (proto.hexs(name), enc(v), enc(kw))]),
                          'after its first result was edited in place, the same %s call gives %s, leaf-wise application gives %s' % (name, enc(again), e_exp))
    # (6) the same statement on containers the wire format cannot spell: namedtuples (a tuple subclass built from separate
    # fields) and dicts whose keys are ints / strings / None mixed; companions scalar or of the same shape
    for j in range(n // 2):
        v0 = rand_struct(rng, rng.choice([1, 2, 3]), top=True)
        nt, keys = [(True, False), (False, True), (True, True)][j % 3]
        srng = __import__('random').Random(rng.random())
        st = srng.getstate()
        v = exotic(srng, v0, nt, keys)
        b0 = same_shape(rng, v0, swap=False) if rng.random() < 0.6 else rng.choice([5, 'z', None])
        srng.setstate(st)
        b = exotic(srng, b0, nt, keys)
        count += 1
        try:
            exp = 'ok ' + typed(ref_lift_typed(named, v, dict(b=b)))
        except Exception as e:
            exp = proto.err_reply(e)
        try:
            out = 'ok ' + typed(L(copy.deepcopy(v), b=copy.deepcopy(b)))
        except Exception as e:
            out = proto.err_reply(e)
        if out != exp:
            yield Finding('violation', dict(tag='law-leaves-namedtuple' if nt and not keys else 'law-leaves-mixed-keys' if keys and not nt else 'law-leaves-namedtuple-mixed-keys',
                                            lines=[], values=[typed(v), typed(b)]),
                          'lifted named(%s, b=%s) gives %s, the statement requires %s' % (typed(v), typed(b), out, exp))
    # (7) waiter on namedtuples: the same structure with every awaitable replaced by its result
    from pyg_base import waiter

    async def _co(x):
        await asyncio.sleep(0)
        return x
    for j in range(40 if tier == 'quick' else 400):
        v0 = rand_struct(rng, rng.choice([1, 2, 3]), top=True)
        v = exotic(rng, v0, True, False)

        def with_co(x):
            if isinstance(x, dict):
                return {k: with_co(y) for k, y in x.items()}
            if isinstance(x, (list, tuple)):
                return rebuild(x, [with_co(y) for y in x])
            return _co(x) if isinstance(x, int) else x
        count += 1
        w = with_co(v)
        try:
            out = 'ok ' + typed(asyncio.run(waiter(w)))
        except Exception as e:
            out = proto.err_reply(e)

            def close(x):
                for y in (x.values() if isinstance(x, dict) else x if isinstance(x, (list, tuple)) else []):
                    close(y)
                if asyncio.iscoroutine(x):
                    x.close()
            close(w)
        if out != 'ok ' + typed(v):
            yield Finding('violation', dict(tag='law-waiter-namedtuple', lines=[], values=[typed(v)]),
                          'waiter(%s with its ints as coroutines) gives %s, the statement requires %s' % (typed(v), out, typed(v)))
    yield count


def enc_or(x):
    return x if isinstance(x, str) else enc(x)


def _k2(f):
    """as_tuple applied to a list holding exactly one list (or to a 1-tuple holding such a list): the result is a 1-tuple
    holding a list, which as_tuple unwraps when applied again"""
    if f.case.get('tag') != 'law-astuple-idem':
        return False
    v = proto.dec(proto.parse(f.case['lines'][0])[2])

    def one_list(x):
        return isinstance(x, list) and len(x) == 1 and isinstance(x[0], list)
    return one_list(v) or (isinstance(v, tuple) and len(v) == 1 and one_list(v[0]))


def _k3(f):
    return f.case.get('tag') == 'law-broadcast-searched-inside'


def _k7(f):
    """a keyword called `axis` is consumed by the decorator: recognised only when the reply is exactly the statement's result of
    the same call WITHOUT that keyword (a correspondence line), or when law (1b) found every leaf call without it"""
    if f.kind != 'violation':
        return False
    if f.case.get('tag') == 'law-axis-keyword-swallowed':
        return True
    i = getattr(f, 'line_index', None)
    lines = f.case.get('lines') or []
    if i is None or not f.impl or i >= len(lines) or not lines[i].startswith('(lift call'):
        return False
    if not has_axis_kw(lines[i]):
        return False
    exp = clear_expected(lines[i], pop_axis=True)
    return exp is not None and proto.same_reply(f.impl[i], exp, numeric=False)


MATCHERS = {'as_tuple_list_of_one_list': _k2, 'companion_of_other_shape_is_searched_inside': _k3,
            'lifted_function_never_receives_keyword_called_axis': _k7}
