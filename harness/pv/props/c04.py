"""C04 - dt() maps every supported spelling of an instant to the same datetime."""
import datetime, calendar, re
import numpy as np
import pandas as pd
from .. import proto
from ..proto import enc, hexs
from ..engine import Finding

ID = 'C04'
TITLE = 'dt() maps every supported spelling of an instant to the same datetime'
STATEMENT = ("for every date t in [1900, 2300): dt(t), dt of its date, of its (y,m,d[,h,m,s]) parts, yyyymmdd integer, ordinal, numpy/pandas "
             "timestamps, ISO / yyyymmdd / day-month-year (UK) / month-day-year (US) / month-name strings all equal t; dt(dt2str(t)) == t; "
             "ymd() drops the time of day; an unambiguous (day > 12) string in the other dialect raises ValueError; dt(y,m,d) with month or "
             "day out of range is the first day of the normalised month plus d-1 days")
LEAN_FILES = ['Basic', 'Greg', 'GenTypes', 'Bump', 'DateParse', 'NpDate', 'DateParseDriver', 'PygGen', 'Sweep', 'GregLemmas', 'GregPeriod', 'BumpLemmas',
              'MonthLemmas', 'TokenLemmas', 'DateLemmas', 'DateStrLemmas', 'DateTextLemmas', 'NpDateLemmas', 'MonthNameLemmas', 'MonthNameStrLemmas', 'SqueezeLemmas', 'AmbiguityLemmas', 'SlashesLemmas', 'DialectLemmas', 'IsoAnyLemmas', 'C04']
GENERATED = ['PygGen.Ym', 'PygGen.Num2dt', 'PygGen.Tables', 'PygGen.Np2dt', 'PygGen.DuMonths']
RULE = ('distinct protocol lines (one spelling of one instant, or one (y, m, d) overflow triple, or one translator-grid integer) on which '
        'dt()/ymd()/dt2str() returned a value')
TRUSTED = ['harness/pv/translate.py (python ast -> Lean, validated each run on the threshold grid; np2dt: its isinstance chain only; '
           'dateutil parserinfo.MONTHS lifted as a constant table)',
           'correspondence harness (pv.engine, pv.proto) and generators of pv.props.c04',
           'Lean driver parser/printer (PygModel/Basic.lean, DateParseDriver.lean)']
ASSUMPTIONS = ['CPython datetime constructors / ordinals behave as PygModel/Greg.lean (sampled on every line)',
               'dateutil.parser.parse reads a/b/yyyy (all it gets for a numeric triple since fix C04-D4: uk2dt / us2dt rewrite the separators) month-first unless a > 12, and ISO / yyyymmdd / month-name spellings as written '
               '(month names looked up, lower-cased, in its own MONTHS table, which is lifted into the generated Gen.duMonths); '
               'this is assumed by the model (duResolve, parseTokens) and sampled by correspondence',
               'numpy: x.astype(datetime.datetime) gives a date for Y/M/W/D, a datetime for h..us, an int for ns or outside year 1..9999; '
               'np.datetime64(t, unit) floors to the unit; pd.Timestamp(datetime64[ns]) / pd.Timestamp(t) is that instant, is a datetime.datetime '
               'and compares equal to a datetime of the same instant (PygModel/NpDate.lean: hand-modelled integer arithmetic on (value, unit), '
               'sampled by the ops np / np64 / pd / pdns over every unit and the whole datetime range); only the class dispatch of np2dt is generated',
               'time zones, dt() without arguments, two-digit years (century = within 50 years of today: laws on day / month / rejection only) '
               'and yyyy-mm forms are not modelled']

D = datetime.datetime
TD = datetime.timedelta
TMIN, TMAX = D(1900, 1, 1), D(2300, 1, 1)
SEPS = ['-', '/', '.', ' ']


def np_int_kinds(rng, v):
    """the kinds (python int / numpy integer types) that hold the integer v: signed of every width, and - what `is_int` admits since e030b7f -
    np.longlong and for v >= 0 the unsigned ones"""
    ks = ['int', 'int64', 'int32', 'int16', 'longlong'] + (['int8', 'int8'] if -128 <= v <= 127 else [])
    if v >= 0:
        ks += ['uint64', 'uint32', 'ulonglong'] + (['uint16', 'uint16'] if v < 2 ** 16 else []) + (['uint8', 'uint8'] if v < 2 ** 8 else [])
    return ks
EXHAUSTIVE = {'thorough': True}


EPOCH = D(1970, 1, 1)
NS_MIN, NS_MAX = D(1677, 9, 21, 0, 12, 44), D(2262, 4, 11, 23, 47, 16)       # datetime64[ns] / int64 nanoseconds


def _floor(t, td):
    return t - ((t - EPOCH) % td)


# unit -> t truncated to the unit, written independently of numpy (weeks are counted from 1970-01-01, a Thursday)
NP_TRUNC = {'Y': lambda t: D(t.year, 1, 1), 'M': lambda t: D(t.year, t.month, 1), 'W': lambda t: _floor(t, TD(days=7)),
            'D': lambda t: D(t.year, t.month, t.day), 'h': lambda t: _floor(t, TD(hours=1)), 'm': lambda t: _floor(t, TD(minutes=1)),
            's': lambda t: _floor(t, TD(seconds=1)), 'ms': lambda t: _floor(t, TD(milliseconds=1)), 'us': lambda t: t}
NP_TD = {'W': TD(days=7), 'D': TD(days=1), 'h': TD(hours=1), 'm': TD(minutes=1), 's': TD(seconds=1), 'ms': TD(milliseconds=1), 'us': TD(microseconds=1)}


def np_value(t, u):
    """the int64 a datetime64[u] of t holds (independent arithmetic: units since 1970-01-01, floor)"""
    if u == 'Y':
        return t.year - 1970
    if u == 'M':
        return (t.year - 1970) * 12 + t.month - 1
    if u == 'ns':
        return ((t - EPOCH) // TD(microseconds=1)) * 1000
    return (t - EPOCH) // NP_TD[u]


def special_days():
    out = []
    for y in (1900, 1901, 1904, 1999, 2000, 2001, 2024, 2100, 2200, 2299):
        for m in range(1, 13):
            last = calendar.monthrange(y, m)[1]
            for d in (1, 2, 9, 10, 11, 12, 13, 14, 28, 29, 30, 31):
                if d <= last:
                    out.append(D(y, m, d))
    return out


def rand_day(rng):
    return TMIN + TD(rng.randrange((TMAX - TMIN).days))


def rand_secs(rng):
    return rng.choice([0, 1, 59, 60, 3599, 3600, 36000, 43200, 86399]) if rng.random() < 0.4 else rng.randrange(86400)


def s_(x):
    return 'S:' + hexs(x)


def L(op, *args):
    return '(dt %s%s)' % (op, ''.join(' ' + a for a in args))


def dialect_str(t, uk, sep, pad, with_time, sep2=None):
    """d<sep>m<sep2>yyyy (UK) / m<sep>d<sep2>yyyy (US); sep2 defaults to sep.  The quantifier says "separators in {-,/,.,space}":
    each of the two separators is drawn from the set, so all 16 pairs are generated (C04-D4: dateutil alone does not read the six
    pairs with exactly one '.' as a date)"""
    a, b = (t.day, t.month) if uk else (t.month, t.day)
    f = '%02d' if pad else '%d'
    s = (f + sep + f + (sep if sep2 is None else sep2) + '%04d') % (a, b, t.year)
    if with_time:
        s += ' %02d:%02d:%02d' % (t.hour, t.minute, t.second)
        if t.microsecond:                       # 'dd/mm/yyyy hh:mm:ss.ffffff' carries the instant to the microsecond
            s += '.%06d' % t.microsecond
    return s


WS = [' ', '  ', '\t', ' \n', '\r\n ']


def padsep_str(rng, t, uk, with_time):
    """d<sep>m<sep>yyyy with blanks around the separators ('13 / 01 / 2000', '13 -01- 2000', '13  01  2000', '13 . 01 .2000',
    '13/01/ 2000'): still a day-month string whose separators are those of the quantifier.  Every separator of the set, every pair,
    every placement of the blanks (C04-D4: dateutil alone does not read '01 .02.2000' or '01/02/ 2000' as the tight text)"""
    a, b = (t.day, t.month) if uk else (t.month, t.day)
    f = '%02d' if rng.random() < 0.5 else '%d'
    s1, s2 = rng.choice('/-. '), rng.choice('/-. ')
    pads = ['', ' ', '  '] if rng.random() < 0.9 else ['', ' ', '\t', ' \t']     # the regex says \s*: tabs now and then
    while True:
        l1, r1, l2, r2 = (rng.choice(pads) for _ in range(4))
        if l1 or r1 or l2 or r2:
            break
    s = f % a + l1 + s1 + r1 + f % b + l2 + s2 + r2 + '%04d' % t.year
    if with_time:
        s += ' %02d:%02d:%02d' % (t.hour, t.minute, t.second)
        if t.microsecond:
            s += '.%06d' % t.microsecond
    return s


def wrap_ws(rng, s):
    """the same text with white space around it (dateutil ignores it; the dialect code must not be fooled by it)"""
    k = rng.randrange(3)
    return (rng.choice(WS) if k != 1 else '') + s + (rng.choice(WS) if k != 0 else '')


DU_NAMES = None


def du_names(month):
    """the names dateutil's own table lists for the month (the generated Lean table Gen.duMonths is lifted from the same source)"""
    global DU_NAMES
    if DU_NAMES is None:
        import dateutil.parser
        DU_NAMES = [list(x) if isinstance(x, tuple) else [x] for x in dateutil.parser.parserinfo.MONTHS]
    return DU_NAMES[month - 1]


def recase(rng, w):
    k = rng.randrange(4)
    return w if k == 0 else w.lower() if k == 1 else w.upper() if k == 2 else ''.join(c.upper() if rng.random() < 0.5 else c.lower() for c in w)


def name_strs(t, rng=None):
    mon, month = calendar.month_abbr[t.month], calendar.month_name[t.month]
    out = ['%02d %s %04d' % (t.day, month, t.year), '%d %s %04d' % (t.day, mon, t.year), '%s %d, %04d' % (month, t.day, t.year),
           '%d-%s-%04d' % (t.day, mon, t.year), '%s %d %04d' % (mon, t.day, t.year), '%d %s %04d' % (t.day, mon.lower(), t.year),
           '%s %02d, %04d' % (mon.upper(), t.day, t.year)]
    if rng is not None:
        # any name of dateutil's table ('Sept' too), any capitalisation, the four shapes of the theorem month_name_text
        for _ in range(2):
            w = recase(rng, rng.choice(du_names(t.month)))
            dd = ('%02d' if rng.random() < 0.5 else '%d') % t.day
            out.append(rng.choice(['%s %s %04d', '%s-%s-%04d']) % (dd, w, t.year) if rng.random() < 0.5 else
                       rng.choice(['%s %s, %04d', '%s %s %04d']) % (w, dd, t.year))
    return out


def time_suffix(rng, t):
    """[ T]h:m[:s[.f]] of the time of day of t (the instant it carries is returned too)"""
    lead = rng.choice(' T')
    f = '%02d' if rng.random() < 0.7 else '%d'
    k = rng.randrange(3) if not t.microsecond else 2
    if k == 0:
        return lead + (f + ':' + f) % (t.hour, t.minute), t.replace(second=0, microsecond=0)
    s = lead + (f + ':' + f + ':' + f) % (t.hour, t.minute, t.second)
    if k == 1 or not t.microsecond:
        return s, t.replace(microsecond=0)
    return s + '.%06d' % t.microsecond, t


def spellings(t, rng, full):
    """protocol lines that must all give t (t has whole seconds unless stated); (tag, line, expected instant)"""
    day = D(t.year, t.month, t.day)
    secs = t - day
    whole = t.microsecond == 0
    out = []
    out.append(('datetime', L('ts', enc(t)), t))
    out.append(('pandas', L('pd', enc(t)), t))
    out.append(('numpy-us', L('np', s_('us'), enc(t)), t))
    if NS_MIN < t < NS_MAX:
        out.append(('numpy-ns', L('np', s_('ns'), enc(t)), t))
        out.append(('pandas-ns', L('pdns', 'I:%d' % np_value(t, 'ns')), t))
        out.append(('numpy-raw-ns', L('np64', s_('ns'), 'I:%d' % np_value(t, 'ns')), t))
    # np.datetime64(t, unit) keeps whole units: dt() of it is t truncated to the unit (numpy-D: the day; W: the Thursday-based week of numpy)
    for u, tr in NP_TRUNC.items():
        if u not in ('us', 'D') and (full or rng.random() < 0.3):
            out.append(('numpy-' + u, L('np', s_(u), enc(t)), tr(t)))
    # the same through the raw int64 value of the datetime64 (what np2dt's arithmetic sees)
    u = rng.choice(list(NP_TRUNC))
    out.append(('numpy-raw-' + u, L('np64', s_(u), 'I:%d' % np_value(t, u)), NP_TRUNC[u](t)))
    out.append(('date', L('date', 'DT:%d' % proto.dt2us(day)), day))
    out.append(('numpy-D', L('np', s_('D'), enc(t)), day))
    out.append(('parts', L('ymd', 'I:%d' % t.year, 'I:%d' % t.month, 'I:%d' % t.day), day))
    if whole:
        out.append(('parts-hms', L('ymd', *['I:%d' % x for x in (t.year, t.month, t.day, t.hour, t.minute, t.second)]), t))
    out.append(('yyyymmdd-int', L('num', 'I:%d' % (t.year * 10000 + t.month * 100 + t.day)), day))
    out.append(('ordinal', L('num', 'I:%d' % t.toordinal()), day))
    # the same integers as numpy scalars (an integer read from an array / a pandas column; `is_int` admits np.int8..np.int64)
    k = rng.choice(['int64', 'int32', 'uint32', 'uint64', 'longlong', 'ulonglong'])      # all positive and < 2**31 (review5 w3 §2-4: the unsigned kinds too)
    out.append(('yyyymmdd-npint', L('npnum', s_(k), 'I:%d' % (t.year * 10000 + t.month * 100 + t.day)), day))
    out.append(('ordinal-npint', L('npnum', s_(k), 'I:%d' % t.toordinal()), day))
    if secs.total_seconds() % 21600 == 0:
        q = int(secs.total_seconds() // 21600)
        out.append(('ordinal-float', L('num', 'F:%d' % (4 * t.toordinal() + q)), t))
        out.append(('yyyymmdd-float', L('num', 'F:%d' % (4 * (t.year * 10000 + t.month * 100 + t.day) + q)), t))
        out.append(('ordinal-npfloat', L('npnum', s_(rng.choice(['float64', 'float32', 'longdouble'])), 'F:%d' % (4 * t.toordinal() + q)), t))   # < 2**22: exact in float32
        out.append(('yyyymmdd-npfloat', L('npnum', s_(rng.choice(['float64', 'longdouble'])), 'F:%d' % (4 * (t.year * 10000 + t.month * 100 + t.day) + q)), t))
    if 3000 < t.toordinal() - 693594 < 300000:
        out.append(('excel', L('num', 'I:%d' % (t.toordinal() - 693594)), day))
        out.append(('excel-npint', L('npnum', s_(rng.choice(['int64', 'int32', 'uint32', 'uint64', 'longlong'])), 'I:%d' % (t.toordinal() - 693594)), day))
    out.append(('iso-date', L('str', rng.choice(['uk', 'us']), s_(day.strftime('%Y-%m-%d'))), day))
    out.append(('iso', L('str', rng.choice(['uk', 'us']), s_(t.isoformat())), t))
    out.append(('iso-space', L('str', rng.choice(['uk', 'us']), s_(t.isoformat(' '))), t))
    out.append(('yyyymmdd-str', L('str', rng.choice(['uk', 'us']), s_(day.strftime('%Y%m%d'))), day))
    # year-first text with ANY separator of the quantifier ({-,/,.,blank}; now and then two different ones), month / day padded or not,
    # with or without a time text (round k3: model arm + theorems `iso_any_sep`; until then the model answered bad-op)
    for _ in range(6 if full else 2):
        s1 = rng.choice(SEPS)
        # two different separators only when neither is the '.': next to another separator a single '.' is a decimal point for dateutil
        # ('1940 08.03' -> 30 August, '1940-8.03' raises); not an ISO spelling, outside the clause (docs/notes/C04.md, round k3)
        s2 = s1 if rng.random() < 0.7 or s1 == '.' else rng.choice([x for x in SEPS if x != '.'])
        fm, fd = rng.choice(['%02d', '%d']), rng.choice(['%02d', '%d'])
        txt = ('%04d' + s1 + fm + s2 + fd) % (t.year, t.month, t.day)
        if rng.random() < 0.5:
            suffix, exp = time_suffix(rng, t)
        else:
            suffix, exp = '', day
        if rng.random() < 0.15:
            txt = wrap_ws(rng, txt + suffix)
            suffix = ''
        out.append(('iso-anysep' + ('-mix' if s1 != s2 else '') + ('-time' if exp is not day else ''),
                    L('str', rng.choice(['uk', 'us']), s_(txt + suffix)), exp))
    out.append(('dt2str', L('rt', enc(t)), t))
    out.append(('dt2str-day', L('rt', enc(day)), day))
    combos = [(sep, pad) for sep in SEPS for pad in (True, False)]
    if not full:
        combos = rng.sample(combos, 3)
    for sep, pad in combos:
        wt = rng.random() < (0.4 if whole else 0.7)
        exp = t if wt else day
        us_ = '-us' if wt and not whole else ''
        out.append(('uk-str' + us_, L('str', 'uk', s_(dialect_str(t, True, sep, pad, wt))), exp))
        out.append(('us-str' + us_, L('str', 'us', s_(dialect_str(t, False, sep, pad, wt))), exp))
    # two DIFFERENT separators (each from the quantifier's set): 12 pairs, six of them with exactly one '.'
    pairs = [(a, b) for a in SEPS for b in SEPS if a != b]
    for s1, s2 in (pairs if full else rng.sample(pairs, 2) + [rng.choice([p for p in pairs if (p[0] == '.') != (p[1] == '.')])]):
        pad, wt = rng.random() < 0.5, rng.random() < 0.4
        exp = t if wt else day
        out.append(('uk-str-mixsep', L('str', 'uk', s_(dialect_str(t, True, s1, pad, wt, s2))), exp))
        out.append(('us-str-mixsep', L('str', 'us', s_(dialect_str(t, False, s1, pad, wt, s2))), exp))
    # the same spellings with white space around the text
    sep, pad, wt = rng.choice(SEPS), rng.random() < 0.5, rng.random() < 0.3
    exp = t if wt else day
    out.append(('uk-str-ws', L('str', 'uk', s_(wrap_ws(rng, dialect_str(t, True, sep, pad, wt)))), exp))
    out.append(('us-str-ws', L('str', 'us', s_(wrap_ws(rng, dialect_str(t, False, sep, pad, wt)))), exp))
    out.append(('iso-ws', L('str', rng.choice(['uk', 'us']), s_(wrap_ws(rng, t.isoformat()))), t))
    # ... and with blanks around the separators
    wt = rng.random() < 0.3
    exp = t if wt else day
    out.append(('uk-str-padsep', L('str', 'uk', s_(padsep_str(rng, t, True, wt))), exp))
    out.append(('us-str-padsep', L('str', 'us', s_(padsep_str(rng, t, False, wt))), exp))
    # the whole variety of time texts the theorems admit (TimeText: lead ' ' or 'T', unpadded fields, h:m, h:m:s, h:m:s.f) on a dialect string
    # (review t3 §C04.4: the classes above write ' hh:mm:ss[.ffffff]' only)
    suffix, exp = time_suffix(rng, t)
    sep, pad = rng.choice(SEPS), rng.random() < 0.5
    out.append(('uk-str-timetext', L('str', 'uk', s_(dialect_str(t, True, sep, pad, False) + suffix)), exp))
    out.append(('us-str-timetext', L('str', 'us', s_(dialect_str(t, False, sep, pad, False) + suffix)), exp))
    suffix, exp = time_suffix(rng, t)
    out.append(('uk-str-padsep-timetext', L('str', 'uk', s_(padsep_str(rng, t, True, False) + suffix)), exp))
    out.append(('parts-hms-us', L('ymd', *['I:%d' % x for x in (t.year, t.month, t.day, t.hour, t.minute, t.second, t.microsecond)]), t))
    names = name_strs(t, rng)
    for s in (names if full else rng.sample(names[:-2], 1) + names[-2:]):
        out.append(('month-name', L('str', rng.choice(['uk', 'us']), s_(s)), day))
    suffix, exp = time_suffix(rng, t)
    out.append(('month-name-time', L('str', rng.choice(['uk', 'us']), s_(rng.choice(names) + suffix)), exp))
    return out


# the dialect argument is a STRING: 'UK', 'Uk', 'US' spell the same two dialects (the library's own docstring and tests write `dialect = 'US'`);
# review4 v3 §C04.2-1 / defect C04-D6: `dt` tested `dialect == 'uk'`, so 'UK' was read as US
DIALECT_CASE = {'uk': ['UK', 'Uk', 'uK'], 'us': ['US', 'Us', 'uS']}
_DIALECT_LINE = re.compile(r'^(\(dt (?:ymd/)?str )(uk|us)( )')


def respell_dialect(rng, case, p=0.35):
    """now and then the dialect atom of a `str` line in another letter case, passed verbatim to the implementation and to the model
    (which reads the dialect from the string: `dialectOf`); the tag gets `@<spelling>` so that the evidence shows the distribution"""
    ln = case['lines'][0]
    m = _DIALECT_LINE.match(ln)
    if m is None or len(case['lines']) != 1 or rng.random() >= p:
        return case
    d = rng.choice(DIALECT_CASE[m.group(2)])
    return dict(case, tag=case['tag'] + '@' + d, lines=[m.group(1) + d + ln[m.end(2):]])


def generate(rng, tier):
    for case in _generate(rng, tier):
        yield respell_dialect(rng, case)


def _generate(rng, tier):
    quick = tier == 'quick'
    # ---- translator grid: the thresholds of num2dt
    for b in (1500, 3000, 300000, 1095000, 10000101, 30001231):
        for i in range(b - 2, b + 3):
            yield dict(tag='grid-num2dt', lines=[L('numrel' if i <= 1500 else 'num', 'I:%d' % i)])
    for i in (-3, 0, 7, 1499, 1900, 2000, 2299, 36526, 73050, 146100, 693596, 730120, 839692, 951868800, 4102444800, 19000101, 22991231, 20000230, 20001301):
        yield dict(tag='grid-num2dt', lines=[L('numrel' if i <= 1500 else 'num', 'I:%d' % i)])
        k = 'int64' if abs(i) >= 2 ** 31 else rng.choice(['int64', 'int32']) if abs(i) >= 2 ** 15 else rng.choice(['int64', 'int32', 'int16'])
        yield dict(tag='grid-num2dt-npint', lines=[L('npnumrel' if i <= 1500 else 'npnum', s_(k), 'I:%d' % i)])
    # ---- every spelling of stratified + random instants
    days = special_days()
    if quick:
        days = rng.sample(days, 400)
    days = days + [rand_day(rng) for _ in range(500 if quick else 6000)]
    for day in days:
        r = rng.random()
        t = day if r < 0.3 else day + TD(seconds=rand_secs(rng)) if r < 0.75 else day + TD(seconds=rng.randrange(86400), microseconds=rng.choice([1, 5, 999999, rng.randrange(10 ** 6)]))
        for tag, line, exp in spellings(t, rng, full=not quick and rng.random() < 0.2):
            yield dict(tag=tag, lines=[line], expect=enc(exp))
        if rng.random() < 0.3:
            tag, line, exp = rng.choice(spellings(t, rng, False))
            yield dict(tag='ymd()', lines=[line.replace('(dt ', '(dt ymd/', 1)], expect=enc(D(exp.year, exp.month, exp.day)))
        yield dict(tag='dt2str-text', lines=[L('dt2str', enc(t))])
        # the other dialect: rejected when the day is > 12, silently the swapped date otherwise (ambiguous by nature)
        sep, pad = rng.choice(SEPS), rng.random() < 0.5
        yield dict(tag='uk-str-read-as-us' + ('-reject' if t.day > 12 else ''), lines=[L('str', 'us', s_(dialect_str(t, True, sep, pad, False)))],
                   expect='err ValueError' if t.day > 12 else None)
        yield dict(tag='us-str-read-as-uk' + ('-reject' if t.day > 12 else ''), lines=[L('str', 'uk', s_(dialect_str(t, False, sep, pad, False)))],
                   expect='err ValueError' if t.day > 12 else None)
        if t.day > 12:
            # ... with a time of day (to the microsecond) and / or white space around the text: still rejected
            wt = rng.random() < 0.5
            f = (lambda x: wrap_ws(rng, x)) if rng.random() < 0.6 else (lambda x: x)
            yield dict(tag='uk-str-read-as-us-reject-ws', lines=[L('str', 'us', s_(f(dialect_str(t, True, sep, pad, wt))))], expect='err ValueError')
            yield dict(tag='us-str-read-as-uk-reject-ws', lines=[L('str', 'uk', s_(f(dialect_str(t, False, sep, pad, wt))))], expect='err ValueError')
            s1, s2 = rng.choice(SEPS), rng.choice(SEPS)
            yield dict(tag='uk-str-read-as-us-reject-mixsep', lines=[L('str', 'us', s_(dialect_str(t, True, s1, pad, wt, s2)))], expect='err ValueError')
            yield dict(tag='us-str-read-as-uk-reject-mixsep', lines=[L('str', 'uk', s_(dialect_str(t, False, s1, pad, wt, s2)))], expect='err ValueError')
            yield dict(tag='uk-str-read-as-us-reject-padsep', lines=[L('str', 'us', s_(padsep_str(rng, t, True, wt)))], expect='err ValueError')
            yield dict(tag='us-str-read-as-uk-reject-padsep', lines=[L('str', 'uk', s_(padsep_str(rng, t, False, wt)))], expect='err ValueError')
    # ---- np2dt on raw datetime64 values (value, unit): every unit, the whole datetime range 0001..9999, the ends of the range, and
    #      nanosecond values that are not whole microseconds (outside the property: t is a datetime; compared with the model only)
    lo, hi = D(1, 1, 1), D(9999, 12, 31, 23, 59, 59, 999999)
    for u in list(NP_TRUNC):
        vlo, vhi = np_value(lo, u), np_value(hi, u)
        if u == 'W':
            vlo += 1                            # the week of 0001-01-01 starts in year 0
        vals = [vlo, vlo + 1, vhi - 1, vhi, -1, 0, 1] + [rng.randint(vlo, vhi) for _ in range(40 if quick else 400)]
        vals += [np_value(TMIN, u), np_value(TMAX, u) - 1] + [rng.randint(np_value(TMIN, u), np_value(TMAX, u)) for _ in range(40 if quick else 400)]
        for v in vals:
            yield dict(tag='np64-' + u, lines=[L('np64', s_(u), 'I:%d' % v)])
        for v in (vlo - 1, vhi + 1, vlo - 1000, vhi + 1000):
            yield dict(tag='np64-outside', lines=[L('np64', s_(u), 'I:%d' % v)])
    i63 = 2 ** 63
    for v in [-i63 + 1, i63 - 1, -1, 0, 1, 999, 1000, -999, -1000, -1001] + [rng.randint(-i63 + 1, i63 - 1) for _ in range(60 if quick else 600)]:
        yield dict(tag='np64-ns', lines=[L('np64', s_('ns'), 'I:%d' % v)])
        yield dict(tag='pd-ns', lines=[L('pdns', 'I:%d' % v)])
    for _ in range(40 if quick else 400):
        v = rng.randint(-i63 + 1, i63 - 1)
        yield dict(tag='ymd()-np64', lines=[L('ymd/np64', s_('ns'), 'I:%d' % v)])
        yield dict(tag='ymd()-pd', lines=[L('ymd/pdns', 'I:%d' % v)])
    # ---- month / day overflow
    ms, ds = list(range(-36, 49)), list(range(-400, 401))
    for _ in range(1500 if quick else 60000):
        y = rng.choice([1900, 1999, 2000, 2100, 2299, rng.randint(1900, 2299)])
        m = rng.choice(ms) if rng.random() < 0.8 else rng.choice([-36, -12, -11, 0, 1, 12, 13, 24, 48])
        d = rng.choice(ds) if rng.random() < 0.7 else rng.choice([-400, -366, -365, -31, -1, 0, 1, 28, 29, 30, 31, 32, 59, 60, 365, 366, 400])
        if rng.random() < 0.8:
            yield dict(tag='overflow', lines=[L('ymd', 'I:%d' % y, 'I:%d' % m, 'I:%d' % d)])
        elif rng.random() < 0.5:
            yield dict(tag='overflow-hms', lines=[L('ymd', 'I:%d' % y, 'I:%d' % m, 'I:%d' % d, 'I:%d' % rng.randint(-30, 50), 'I:%d' % rng.randint(-70, 130))])
        else:
            yield dict(tag='overflow-ym', lines=[L('ym', 'I:%d' % y, 'I:%d' % m)])
    if not quick:
        for y in (1900, 2000, 2023, 2100, 2299):
            for m in ms:
                for d in ds:
                    yield dict(tag='overflow-all', lines=[L('ymd', 'I:%d' % y, 'I:%d' % m, 'I:%d' % d)])
    # ---- the parts as numpy integers (an integer read from an array is a numpy integer; review4 v3 §C04.2-2, defect C04-D7): each part a
    # python int or np.int8..int64, in the narrowest-to-widest types that hold it; months in [-36, 48], days in [-400, 400] with the int8 limits
    # (review5 w3 §2-1/§2-4: since e030b7f `is_int` admits the unsigned kinds and np.longlong too - a value >= 0 is now and then held by one;
    # defect C04-D8: `ym` left an unsigned YEAR in its numpy width and `y += (m-1)//12` with a month <= 0 raised OverflowError)
    def kinds_for(v):
        return np_int_kinds(rng, v)
    for _ in range(1200 if quick else 30000):
        y = rng.choice([1900, 2000, 2299, rng.randint(1900, 2299)])
        m = rng.choice(ms) if rng.random() < 0.8 else rng.choice([-36, -12, -11, 0, 1, 12, 13, 24, 48])
        d = rng.choice(ds) if rng.random() < 0.6 else rng.choice([-400, -129, -128, -127, -1, 0, 1, 28, 29, 31, 32, 126, 127, 128, 366, 400])
        ky, km, kd = rng.choice(kinds_for(y)), rng.choice(kinds_for(m)), rng.choice(kinds_for(d))
        if (ky, km, kd) == ('int', 'int', 'int'):
            km = 'int8'
        inside = 1 <= m <= 12 and 1 <= d <= 28
        if rng.random() < 0.15:
            h, mi, sec = rng.randint(-30, 50), rng.randint(-70, 127), rng.randint(-100, 127)
            if kd.startswith('u') and min(h, mi, sec) < 0:      # h, mi, s travel in the type of the day: an unsigned one holds no negative part
                h, mi, sec = abs(h), abs(mi), abs(sec)
            yield dict(tag='overflow-hms-np', lines=[L('npymd', s_(ky), s_(km), s_(kd), 'I:%d' % y, 'I:%d' % m, 'I:%d' % d, 'I:%d' % h, 'I:%d' % mi, 'I:%d' % sec)])
        else:
            yield dict(tag='parts-np' if inside else 'overflow-np', lines=[L('npymd', s_(ky), s_(km), s_(kd), 'I:%d' % y, 'I:%d' % m, 'I:%d' % d)])
    # ---- impossible dates and texts outside the claim
    for s in ['31.04.2000', '29.02.1900', '30/02/2000', '2/30/2000', '14/13/2002', '13/14/2002', '2000-13-01', '2000-02-30', '20000230', '0/1/2000', '1/0/2000',
              # year-first texts are never swapped (`iso_any_sep_impossible`): month 13 / 30 Feb with the other separators, unpadded
              '2000/13/01', '2000.13.01', '2000 13 01', '2000/02/30', '2000.2.30', '2000 2 30', '1900/2/29', '2000/0/1', '2000.1.0', '2000/13/1 10:30',
              # impossible times of day: dateutil raises (hour must be in 0..23, ...), never a shifted instant
              '13/01/2000 25:00:00', '13/01/2000 24:00:00', '2/1/2000 10:61:00', '02.01.2000 10:59:60', '2000-01-13T10:61', '2000-01-13 24:00:00',
              '2000-01-13T23:59:60.000001', '01/13/2000 23:60']:
        for dia in ('uk', 'us'):
            yield dict(tag='impossible-date', lines=[L('str', dia, s_(s))])
    for t in [D(2000, 1, 2, 3, 4, 5, 6), D(2000, 1, 13, 3, 4, 5, 6), D(2000, 12, 1, 23, 59, 59, 999999)]:
        for dia in ('uk', 'us'):
            yield dict(tag='dialect-microseconds', lines=[L('str', dia, s_(dialect_str(t, dia == 'uk', '/', True, True)))], expect=enc(t))
    for (y, m, d) in [(0, 1, 1), (10000, 1, 1), (9999, 12, 32), (9999, 13, 1), (1, 0, 1), (1, 1, 0), (5, 6, 2000), (31, 12, 1999), (31, 12, 1501)]:
        yield dict(tag='range-end', lines=[L('ymd', 'I:%d' % y, 'I:%d' % m, 'I:%d' % d)])
    if not quick:
        # every day of the 1900-2300 cycle: the lossless integer spellings and one string spelling each
        t = TMIN
        while t < TMAX:
            yield dict(tag='all-days-yyyymmdd', lines=[L('num', 'I:%d' % (t.year * 10000 + t.month * 100 + t.day))], expect=enc(t))
            yield dict(tag='all-days-ordinal', lines=[L('num', 'I:%d' % t.toordinal())], expect=enc(t))
            uk = rng.random() < 0.5
            yield dict(tag='all-days-str', lines=[L('str', 'uk' if uk else 'us', s_(dialect_str(t, uk, rng.choice(SEPS), rng.random() < 0.5, False, rng.choice(SEPS))))], expect=enc(t))
            t += TD(1)


# ------------------------------------------------------------------------------------------ implementation runner

def as_plain(res):
    if isinstance(res, pd.Timestamp):
        if res.nanosecond:                      # an instant between two microseconds: (L T:<us> I:<nanoseconds>)
            return 'ok (L %s I:%d)' % (enc(D(res.year, res.month, res.day, res.hour, res.minute, res.second, res.microsecond)), res.nanosecond)
        res = res.to_pydatetime()
    if not isinstance(res, datetime.datetime) or res.tzinfo is not None:
        return 'ok S:' + hexs(repr(res))
    return 'ok ' + enc(res)


def call(op, args, fn):
    from pyg_base import _dates
    ints = lambda xs: [int(a[2:]) for a in xs]
    if op in ('num', 'numrel', 'npnum', 'npnumrel'):
        c = proto.dec_cell(args[-1])
        if op.startswith('np'):      # the number as a numpy scalar of the named type (which must hold it exactly)
            v, c = c, getattr(np, proto.dec_cell(args[0]))(c)
            if c != v:
                raise proto.Unencodable('%r does not hold %r' % (type(c), v))
            op = op[2:]
        if op == 'numrel':
            t0 = _dates.today()
            r = fn(c)
            if _dates.today() != t0:
                r, t0 = fn(c), _dates.today()
            return 'ok I:%d' % ((r - t0) // proto.US)
        return as_plain(fn(c))
    if op in ('ym', 'ymd'):
        return as_plain(fn(*ints(args)))
    if op == 'npymd':
        kinds = [proto.dec_cell(a) for a in args[:3]]
        vals = ints(args[3:])
        kinds = kinds + [kinds[2]] * (len(vals) - 3)          # h, mi, s: the type of the day
        parts = []
        for k, v in zip(kinds, vals):
            c = v if k == 'int' else getattr(np, k)(v)
            if int(c) != v:
                raise proto.Unencodable('%s does not hold %r' % (k, v))
            parts.append(c)
        return as_plain(fn(*parts))
    if op == 'ts':
        return as_plain(fn(proto.dec_cell(args[0])))
    if op == 'date':
        return as_plain(fn(proto.dec_cell(args[0])))
    if op == 'pd':
        return as_plain(fn(pd.Timestamp(proto.dec_cell(args[0]))))
    if op == 'np':
        return as_plain(fn(np.datetime64(proto.dec_cell(args[1]), proto.dec_cell(args[0]))))
    if op == 'np64':
        return as_plain(fn(np.datetime64(int(args[1][2:]), proto.dec_cell(args[0]))))
    if op == 'pdns':
        return as_plain(fn(pd.Timestamp(int(args[0][2:]))))
    if op == 'str':
        return as_plain(fn(proto.dec_cell(args[1]), dialect=args[0]))
    if op == 'rt':
        return as_plain(fn(_dates.dt2str(proto.dec_cell(args[0]))))
    return 'bad-op'


def run_line(state, sx):
    import pyg_base
    op, args = sx[1], sx[2:]
    if op == 'dt2str':
        return 'ok S:' + hexs(pyg_base.dt2str(proto.dec_cell(args[0])))
    if op.startswith('ymd/'):
        return call(op[4:], args, pyg_base.ymd)
    return call(op, args, pyg_base.dt)


OUTSIDE = ('impossible-date', 'range-end', 'grid-num2dt', 'grid-num2dt-npint')
UNMODELLED = ('np64-outside',)     # the model answers bad-op (instants outside year 1..9999): nothing to compare


def compare(case, i, line, ir, mr):
    tag = case.get('tag', '').replace('corpus:', '').split('@')[0]
    exp = case.get('expect')
    if exp is not None:
        want = exp if exp.startswith('err') else 'ok ' + exp
        if not proto.same_reply(ir, want):
            return 'this spelling of %s gives %s' % (want, ir)
    if proto.same_reply(ir, mr):
        return None
    if mr == 'bad-op':
        if tag in UNMODELLED:
            return None
        return ('divergence', 'the model does not cover this line (implementation: %s)' % ir)
    msg = 'implementation %s, model %s' % (ir, mr)
    if tag in OUTSIDE or tag.endswith('read-as-us') or tag.endswith('read-as-uk'):
        return ('divergence', msg)
    return msg


def nontrivial(line, reply):
    return reply.startswith('ok')


# ------------------------------------------------------------------------------------------ laws on the implementation

def ref_overflow(y, m, d):
    """first day of the normalised month plus d-1 days (independent arithmetic)"""
    k = y * 12 + (m - 1)
    return D(k // 12, k % 12 + 1, 1) + TD(d - 1)


def laws(rng, tier, ctx):
    import pyg_base
    dt, ymd, dt2str = pyg_base.dt, pyg_base.ymd, pyg_base.dt2str
    quick = tier == 'quick'
    count = 0

    def bad(tag, ln, detail):
        return Finding('violation', dict(tag=tag, lines=[ln]), detail)

    def safe(f, *a, **k):
        try:
            return f(*a, **k)
        except Exception as e:
            return 'raise ' + type(e).__name__

    days = special_days()[::3] + [rand_day(rng) for _ in range(300 if quick else 8000)]
    for day in days:
        t = day + TD(seconds=rand_secs(rng))
        tu = t + TD(microseconds=rng.randrange(10 ** 6))
        checks = [
            ('law-datetime', L('ts', enc(tu)), safe(dt, tu), tu),
            ('law-date', L('date', 'DT:%d' % proto.dt2us(day)), safe(dt, day.date()), day),
            ('law-parts', L('ymd', *['I:%d' % x for x in (t.year, t.month, t.day, t.hour, t.minute, t.second)]), safe(dt, t.year, t.month, t.day, t.hour, t.minute, t.second), t),
            ('law-yyyymmdd', L('num', 'I:%d' % (t.year * 10000 + t.month * 100 + t.day)), safe(dt, t.year * 10000 + t.month * 100 + t.day), day),
            ('law-ordinal', L('num', 'I:%d' % t.toordinal()), safe(dt, t.toordinal()), day),
            ('law-yyyymmdd-npint', L('npnum', s_('int64'), 'I:%d' % (t.year * 10000 + t.month * 100 + t.day)), safe(dt, np.int64(t.year * 10000 + t.month * 100 + t.day)), day),
            ('law-ordinal-npint', L('npnum', s_('int32'), 'I:%d' % t.toordinal()), safe(dt, np.int32(t.toordinal())), day),
            ('law-numpy', L('np', s_('us'), enc(tu)), safe(dt, np.datetime64(tu)), tu),
            ('law-pandas', L('pd', enc(tu)), safe(dt, pd.Timestamp(tu)), tu),
            ('law-iso', L('str', 'uk', s_(tu.isoformat())), safe(dt, tu.isoformat()), tu),
            ('law-yyyymmdd-str', L('str', 'uk', s_(day.strftime('%Y%m%d'))), safe(dt, day.strftime('%Y%m%d')), day),
            ('law-dt2str', L('rt', enc(tu)), safe(lambda: dt(dt2str(tu))), tu),
            ('law-dt2str', L('rt', enc(day)), safe(lambda: dt(dt2str(day))), day),
            ('law-ymd', L('ymd/ts', enc(tu)), safe(ymd, tu), day),
            ('law-ymd', L('ymd/str', 'uk', s_(tu.isoformat())), safe(ymd, tu.isoformat()), day),
        ]
        # the ISO clause with the other separators of the quantifier, month / day padded or not (round k3)
        isep = rng.choice(SEPS)
        iso_any = ('%04d' + isep + rng.choice(['%02d', '%d']) + isep + rng.choice(['%02d', '%d'])) % (t.year, t.month, t.day)
        idia = rng.choice(['uk', 'us', 'UK', 'US'])
        checks.append(('law-iso-anysep', L('str', idia, s_(iso_any)), safe(dt, iso_any, dialect=idia), day))
        iso_any_t = iso_any + t.strftime(' %H:%M:%S')
        checks.append(('law-iso-anysep', L('str', idia, s_(iso_any_t)), safe(dt, iso_any_t, dialect=idia), t))
        checks.append(('law-ymd-iso-anysep', L('ymd/str', idia, s_(iso_any_t)), safe(ymd, iso_any_t, dialect=idia), day))
        sep, pad = rng.choice(SEPS), rng.random() < 0.5
        uks, uss = dialect_str(t, True, sep, pad, True), dialect_str(t, False, sep, pad, True)
        checks.append(('law-uk', L('str', 'uk', s_(uks)), safe(dt, uks), t))
        checks.append(('law-us', L('str', 'us', s_(uss)), safe(dt, uss, dialect='us'), t))
        # to the microsecond, date only, and with white space around the text
        uku, usu = dialect_str(tu, True, sep, pad, True), dialect_str(tu, False, sep, pad, True)
        checks.append(('law-uk-us', L('str', 'uk', s_(uku)), safe(dt, uku), tu))
        checks.append(('law-us-us', L('str', 'us', s_(usu)), safe(dt, usu, dialect='us'), tu))
        ukd, usd = wrap_ws(rng, dialect_str(t, True, sep, pad, False)), wrap_ws(rng, dialect_str(t, False, sep, pad, False))
        checks.append(('law-uk-ws', L('str', 'uk', s_(ukd)), safe(dt, ukd), day))
        checks.append(('law-us-ws', L('str', 'us', s_(usd)), safe(dt, usd, dialect='us'), day))
        checks.append(('law-ymd-uk', L('ymd/str', 'uk', s_(uku)), safe(ymd, uku), day))
        m1, m2 = rng.choice(SEPS), rng.choice(SEPS)
        ukm, usm = dialect_str(tu, True, m1, pad, True, m2), dialect_str(tu, False, m1, pad, True, m2)
        checks.append(('law-uk-mixsep', L('str', 'uk', s_(ukm)), safe(dt, ukm), tu))
        checks.append(('law-us-mixsep', L('str', 'us', s_(usm)), safe(dt, usm, dialect='us'), tu))
        ukp, usp = padsep_str(rng, tu, True, True), padsep_str(rng, tu, False, True)
        checks.append(('law-uk-padsep', L('str', 'uk', s_(ukp)), safe(dt, ukp), tu))
        checks.append(('law-us-padsep', L('str', 'us', s_(usp)), safe(dt, usp, dialect='us'), tu))
        nm = rng.choice(name_strs(t, rng))
        checks.append(('law-month-name', L('str', 'uk', s_(nm)), safe(dt, nm), day))
        suffix, exp = time_suffix(rng, tu)
        nmt, dia = rng.choice(name_strs(t, rng)) + suffix, rng.choice(['uk', 'us'])
        checks.append(('law-month-name-time', L('str', dia, s_(nmt)), safe(dt, nmt, dialect=dia), exp))
        for u in ('D', 's', 'ms', 'us', 'h', 'm'):
            checks.append(('law-numpy-' + u, L('np', s_(u), enc(tu)), safe(dt, np.datetime64(tu, u)), NP_TRUNC[u](tu)))
        if NS_MIN < tu < NS_MAX:
            checks.append(('law-numpy-ns', L('np', s_('ns'), enc(tu)), safe(dt, np.datetime64(tu, 'ns')), tu))
        # the dialect in another letter case is the same dialect (C04-D6)
        dU, dS = rng.choice(DIALECT_CASE['uk']), rng.choice(DIALECT_CASE['us'])
        checks.append(('law-uk-dialect-case', L('str', dU, s_(uku)), safe(dt, uku, dialect=dU), tu))
        checks.append(('law-us-dialect-case', L('str', dS, s_(usu)), safe(dt, usu, dialect=dS), tu))
        checks.append(('law-ymd-uk-dialect-case', L('ymd/str', dU, s_(ukd)), safe(ymd, ukd, dialect=dU), day))
        if t.day > 12:
            checks.append(('law-uk-rejects-us-dialect-case', L('str', dU, s_(usu)), safe(dt, usu, dialect=dU), 'raise ValueError'))
            checks.append(('law-us-rejects-uk-dialect-case', L('str', dS, s_(uku)), safe(dt, uku, dialect=dS), 'raise ValueError'))
        if t.day > 12:
            checks.append(('law-uk-rejects-us', L('str', 'uk', s_(uss)), safe(dt, uss), 'raise ValueError'))
            checks.append(('law-us-rejects-uk', L('str', 'us', s_(uks)), safe(dt, uks, dialect='us'), 'raise ValueError'))
            checks.append(('law-uk-rejects-us', L('str', 'uk', s_(usd)), safe(dt, usd), 'raise ValueError'))
            checks.append(('law-us-rejects-uk', L('str', 'us', s_(ukd)), safe(dt, ukd, dialect='us'), 'raise ValueError'))
            checks.append(('law-uk-rejects-us', L('str', 'uk', s_(usu)), safe(dt, usu), 'raise ValueError'))
            checks.append(('law-us-rejects-uk', L('str', 'us', s_(uku)), safe(dt, uku, dialect='us'), 'raise ValueError'))
            checks.append(('law-uk-rejects-us', L('str', 'uk', s_(usm)), safe(dt, usm), 'raise ValueError'))
            checks.append(('law-us-rejects-uk', L('str', 'us', s_(ukm)), safe(dt, ukm, dialect='us'), 'raise ValueError'))
            checks.append(('law-uk-rejects-us', L('str', 'uk', s_(usp)), safe(dt, usp), 'raise ValueError'))
            checks.append(('law-us-rejects-uk', L('str', 'us', s_(ukp)), safe(dt, ukp, dialect='us'), 'raise ValueError'))
        # two-digit years: the text does not carry the century (dateutil picks the one within 50 years of TODAY), so "equals t" is not
        # claimed - but day and month are, and so is the rejection of the other dialect's unambiguous text
        sep2 = rng.choice('/-. ')
        f2 = '%02d' if rng.random() < 0.7 else '%d'
        uk2 = (f2 + sep2 + f2 + sep2 + '%02d') % (t.day, t.month, t.year % 100)
        us2 = (f2 + sep2 + f2 + sep2 + '%02d') % (t.month, t.day, t.year % 100)
        for tag2, txt, dia in (('law-yy-uk', uk2, 'uk'), ('law-yy-us', us2, 'us')):
            got = safe(dt, txt, dialect=dia)
            count += 1
            if not (isinstance(got, datetime.datetime) and (got.day, got.month, got.year % 100) == (t.day, t.month, t.year % 100)):
                yield bad(tag2, L('str', dia, s_(txt)), 'got %s, the property demands day %d, month %d, year ..%02d' % (got, t.day, t.month, t.year % 100))
        if t.day > 12:
            checks.append(('law-yy-uk-rejects-us', L('str', 'uk', s_(us2)), safe(dt, us2), 'raise ValueError'))
            checks.append(('law-yy-us-rejects-uk', L('str', 'us', s_(uk2)), safe(dt, uk2, dialect='us'), 'raise ValueError'))
        for tag, ln, got, want in checks:
            count += 1
            ok = (got == want) if not isinstance(want, str) else (isinstance(got, str) and got in ('raise ValueError', 'raise ParserError'))
            if not ok:
                yield bad(tag, ln, 'got %s, the property demands %s' % (got, want))
    for _ in range(3000 if quick else 100000):
        y, m, d = rng.randint(1900, 2299), rng.randint(-36, 48), rng.randint(-400, 400)
        count += 1
        got, want = safe(dt, y, m, d), ref_overflow(y, m, d)
        if got != want:
            yield bad('law-overflow', L('ymd', 'I:%d' % y, 'I:%d' % m, 'I:%d' % d), 'dt(%d,%d,%d) = %s, first of the normalised month plus d-1 days is %s' % (y, m, d, got, want))
    # the same clause with the parts held by numpy integers of any width that holds them (defect C04-D7)
    for _ in range(1500 if quick else 30000):
        y, m = rng.randint(1900, 2299), rng.randint(-36, 48)
        d = rng.randint(-400, 400) if rng.random() < 0.7 else rng.choice([-128, -127, 127])
        ks = []
        for v in (y, m, d):
            ks.append(rng.choice(np_int_kinds(rng, v)))
        parts = [v if k == 'int' else getattr(np, k)(v) for k, v in zip(ks, (y, m, d))]
        count += 1
        got, want = safe(dt, *parts), ref_overflow(y, m, d)
        if got != want:
            yield bad('law-overflow-np', L('npymd', s_(ks[0]), s_(ks[1]), s_(ks[2]), 'I:%d' % y, 'I:%d' % m, 'I:%d' % d),
                      'dt(%s(%d), %s(%d), %s(%d)) = %s, first of the normalised month plus d-1 days is %s' % (ks[0], y, ks[1], m, ks[2], d, got, want))
    yield count


MATCHERS = {}
