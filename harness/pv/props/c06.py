"""C06 - inc and exc partition a table; both keep the columns and the row order; find_<col>.

One protocol line per case (lean/PygModel/FilterDriver.lean):
    (flt inc|exc <table> <pred|N> <kwconds> <dictconds|N>)     (flt find <table> S:col <pred|N> <kwconds> <dictconds|N>)
"""
import re, math, datetime
import numpy as np
from .. import proto
from ..proto import enc, hexs, enck, key_name, name_key
from ..engine import Finding, Timeout, with_timeout

ID = 'C06'
TITLE = 'inc and exc partition a table; both keep the columns and the row order'
STATEMENT = ('inc returns exactly the rows satisfying the condition(s) and exc exactly the others, each in original order; both '
             'carry all columns even when no row survives; inc() is the identity; inc is idempotent; find_<col> returns the '
             'unique value among the selected rows and raises if there is none or more than one')
LEAN_FILES = ['Basic', 'Cmp', 'Sort', 'TableBasic', 'Table', 'TableAlias', 'TableDriver', 'Filter', 'FilterDriver', 'TableLemmas', 'TableRect', 'TableRows',
              'FilterLemmas', 'C06']
RULE = ('distinct protocol lines (table, condition) on which the implementation returned a table / value; conditions matching '
        'nothing or everything are counted (they are the extremes the property names), empty tables are not')
TRUSTED = ['correspondence harness (pv.engine, pv.proto), generators and reference predicate of pv.props.c06',
           'Lean driver parser/printer (PygModel/Basic.lean, TableDriver.lean, FilterDriver.lean)']
ASSUMPTIONS = ['the theorems hold for ANY regex semantics String -> Bool; the driver instantiates it with RePat.search (literal characters, ".", "^", "$", re.I) '
               '- that this is what re.search does is sampled; other regex syntax is checked by the laws only (python re is the reference there); re.I is modelled for ASCII '
               'letters only (python also folds U+212A / U+017F / U+0130): patterns and cells of the generator are ASCII, without newline',
               'a column key that is not a string (float / None / datetime) is NAMED U+0000 + its wire atom in the model; that the code treats it like any dict key is sampled',
               'membership in a list of admissible values is BY VALUE (python ==, NaN the same value as NaN whichever object holds it): Cell.valEq',
               'the NaN condition is true of NaN cells only; +-inf are ordinary float values',
               'callables are drawn from a fixed menu implemented on both sides',
               'column order of results is not modelled (tables are compared as dicts)']
EXTRA = {}

NAMES = ['a', 'b', 'c']
INF = float('inf')
VALUES = [None, None, 0, 1, 2, 3, -1, 1.0, 2.5, -0.25, 'x', 'y', 'xy', 'yx', 'abc', '', 'x1', 'Xy', 'aXc',
          2 ** 53, 2 ** 53 + 1, float(2 ** 53)]      # neighbouring ints beyond float precision: 2**53 + 1 != float(2**53) == 2**53
PATTERNS = ['x', 'y', 'xy', 'b', '1', '', 'zz', 'abc', '^x', 'y$', '^xy$', 'a.c', '.', '^.$', 'x.', '^', '$', '..', '^y', 'x$']


def a_nan(rng):
    """a NaN cell: a fresh float('nan') object, or THE np.nan object (identity matters to `in` / set())"""
    return float('nan') if rng.random() < 0.5 else np.nan


def cell(rng, nan=0.12, inf=0.05):
    r = rng.random()
    if r < nan:
        return a_nan(rng)
    if r < nan + inf:
        return INF if rng.random() < 0.6 else -INF
    return rng.choice(VALUES)


def is_nan(x):
    return isinstance(x, float) and x != x


# column KEYS that are not strings: `xyz` / `pivot` make one column per y value (a float, None, a datetime), and a dict of columns may have any
# hashable key.  On the wire (and in the model) such a key is named U+0000 + its atom (proto.key_name); the runner gives the implementation the real key.
# 1.0 / 2.0 are left out (the same dict key as 1 / True), NaN keys too (identity).
KEYS = [1.5, 2.5, -0.25, None, datetime.datetime(2020, 1, 1), datetime.datetime(2021, 6, 30, 12)]


def is_keyed(t):
    return any(not isinstance(k, str) for k in t)


def skeys(t):
    """the column keys of a table in the order of their wire names"""
    return sorted(dict.keys(t), key=key_name)


def same_val(x, y):
    """equality of two cells as values: python ==, NaN the same value as NaN"""
    return (is_nan(x) and is_nan(y)) or x == y


def table(rng):
    # mostly small tables; one in eight is larger (9..40 rows): order / hashing effects only show beyond ~8 rows
    n = rng.choice([0, 1, 1, 2, 3, 4, 5, 6, 7]) if rng.random() < 0.875 else rng.choice([9, 12, 17, 25, 40])
    k = rng.choice([1, 2, 2, 3])
    # one table in six has a column whose NAME is a parameter name of the dictable constructor ('columns', 'data'): a result that is
    # rebuilt through keyword arguments would swallow it
    cols = rng.sample(NAMES + (['columns', 'data'] if rng.random() < 0.17 else []), k)
    if rng.random() < 0.12:
        # one table in eight has a column called 'self': a keyword filter d.inc(self = 1) must reach the column, not collide with the
        # method's own first parameter (review 4 v1-A; the same class as 3f6f382 for Dict.__call__ / relabel)
        cols[rng.randrange(k)] = 'self'
    if rng.random() < 0.16:
        # one table in six has one or two columns whose KEY is not a string (what pivot returns)
        for j in rng.sample(range(k), min(k, rng.choice([1, 1, 2]))):
            cols[j] = rng.choice([x for x in KEYS if x not in cols])
    t = {}
    for c in cols:
        pool = [cell(rng) for _ in range(rng.choice([1, 2, 3, 4, 6]))]
        t[c] = [rng.choice(pool) for _ in range(n)]
    return t


def re_variant(rng, v):
    """a pattern of the modelled syntax that matches the string v (alphanumeric, non-empty)"""
    i = rng.randrange(len(v))
    j = min(len(v), i + rng.choice([1, 2, 3]))
    body = ''.join('.' if rng.random() < 0.2 else ch for ch in v[i:j])
    flags = 0
    if rng.random() < 0.2:
        body = body.swapcase()
        flags = re.I
    if i == 0 and rng.random() < 0.4:
        body = '^' + body
    if j == len(v) and rng.random() < 0.4:
        body = body + '$'
    return ('re', body, flags)


# a condition is ('none',) | ('nan', obj) | ('re', pat, flags) | ('in', [values]) | ('eq', value)
def cond(rng, col):
    vals = [v for v in col if not is_nan(v) and v is not None]
    if col and rng.random() < 0.65:
        # a condition that holds of (at least) one randomly chosen row
        v = rng.choice(col)
        if v is None:
            return ('none',) if rng.random() < 0.7 else ('in', [None, rng.choice(VALUES)])
        if is_nan(v):
            if rng.random() < 0.5:
                return ('nan', a_nan(rng))
            # NaN among the admissible values of a list (some NaN OBJECT, not necessarily the cell's)
            vs = [a_nan(rng)] + [rng.choice(vals + [None, 99, 'q']) for _ in range(rng.choice([0, 1, 2]))]
            rng.shuffle(vs)
            return ('in', vs if rng.random() < 0.8 else tuple(vs))
        q = rng.random()
        if isinstance(v, str) and v.isalnum() and q < 0.45:
            return re_variant(rng, v)
        if q < 0.7:
            if isinstance(v, int) and rng.random() < 0.3:
                v = float(v)      # 1 == 1.0
            return ('eq', v)
        vs = [v] + [rng.choice(vals + [None, 99, 'q']) for _ in range(rng.choice([0, 1, 2]))]
        rng.shuffle(vs)
        return ('in', vs if rng.random() < 0.8 else tuple(vs))
    r = rng.random()
    if r < 0.14:
        return ('none',)
    if r < 0.26:
        return ('nan', a_nan(rng))
    if r < 0.40:
        return ('re', rng.choice(PATTERNS), re.I if rng.random() < 0.15 else 0)
    if r < 0.62:
        return ('eq', rng.choice([v for v in VALUES if v is not None] + [99, 'q', INF, -INF, True, False]))      # True == 1, False == 0
    q = rng.random()
    if q < 0.2:
        return ('in', [])
    pool = vals + [None, 99, 'q', INF, -INF, True, False] + [v for v in VALUES if v is not None]
    vs = [rng.choice(pool) for _ in range(rng.choice([1, 2, 3]))]
    if q < 0.5:
        vs = list(dict.fromkeys([v for v in col if not is_nan(v)]))      # every non-NaN value: matches all but NaN rows
    if rng.random() < 0.2:
        vs.insert(rng.randrange(len(vs) + 1), a_nan(rng))
    return ('in', vs if rng.random() < 0.8 else tuple(vs))


def cond_wire(c):
    if c[0] == 'none':
        return 'N'
    if c[0] == 'nan':
        return enc(c[1])
    if c[0] == 're':
        return '(re %s%s)' % (enc(c[1]), ' I' if c[2] else '')
    return enc(c[1])


def cond_py(c):
    if c[0] == 'none':
        return None
    if c[0] == 'nan':
        return c[1]
    if c[0] == 're':
        return re.compile(c[1], c[2])
    return c[1]


def holds(c, v):
    """the reference meaning of a column condition (the property statement's reading): None / NaN / the regex finds
    something in the string / the cell is one of the admissible VALUES (==, NaN being the value NaN)"""
    if c[0] == 'none':
        return v is None
    if c[0] == 'nan':
        return is_nan(v)
    if c[0] == 're':
        return isinstance(v, str) and re.search(c[1], v, c[2]) is not None
    vs = list(c[1]) if isinstance(c[1], (list, tuple)) else [c[1]]
    return any(same_val(x, v) for x in vs)


# round k1: callables whose return value is NOT a bool - `inc` / `exc` read it by truthiness (`if f(**row)`): `lambda a: a` (the cell
# itself: None / 0 / 0.0 / '' falsy, NaN / inf / every other value truthy), `lambda a, b: a or b`, `lambda: <constant>`
CONSTV = [0, 1, 2, 0.0, 2.5, '', 'x', None, float('nan'), float('inf')]
PREDS = {
    'ident': (1, lambda x: x),
    'orelse': (2, lambda x, y: x or y),
    'isnone': (1, lambda x: x is None),
    'notnone': (1, lambda x: x is not None),
    'isstr': (1, lambda x: isinstance(x, str)),
    'samenone': (2, lambda x, y: (x is None) == (y is None)),
}


def pred(rng, cols):
    r = rng.random()
    if r < 0.1:
        return ('const', rng.random() < 0.5)
    if r < 0.2:
        return ('constv', rng.choice(CONSTV))
    kind = rng.choice(sorted(PREDS))
    k = PREDS[kind][0]
    if k > len(cols):
        kind, k = 'isnone', 1
    return (kind,) + tuple(rng.sample(cols, k))


def pred_wire(p):
    if p is None:
        return 'N'
    if p[0] in ('const', 'constv'):
        return '(fn %s %s)' % (p[0], enc(p[1]))
    return '(fn %s%s)' % (p[0], ''.join(' ' + enc(a) for a in p[1:]))


def pred_py(p):
    if p[0] in ('const', 'constv'):
        b = p[1]
        return lambda: b
    body = {'ident': '%s', 'orelse': '%s or %s', 'isnone': '%s is None', 'notnone': '%s is not None', 'isstr': 'isinstance(%s, str)',
            'samenone': '(%s is None) == (%s is None)'}[p[0]] % tuple(p[1:])
    return eval('lambda %s: %s' % (', '.join(p[1:]), body))


def pred_holds(p, row):
    if p[0] in ('const', 'constv'):
        return bool(p[1])
    return bool(PREDS[p[0]][1](*[row[a] for a in p[1:]]))


def kvw(d):
    return '(D' + ''.join(' (%s %s)' % (hexs(key_name(k)), cond_wire(c)) for k, c in d.items()) + ')'


def scenario(rng):
    """(table, pred|None, kw conds, dict conds|None, tag)"""
    t = table(rng)
    cols = list(t)
    scols = [c for c in cols if isinstance(c, str)]      # a callable can only name string columns; it must still work beside the others
    r = rng.random()
    if r < 0.06:
        return t, None, {}, None, 'no-condition'
    if r < 0.22 and scols:
        return t, pred(rng, scols), {}, None, 'callable'
    if r < 0.26:
        # a parameter / key that is not a column
        if rng.random() < 0.5:
            return t, ('isnone', 'q'), {}, None, 'callable-missing-column'
        return t, None, {'q': ('eq', 1)}, None, 'missing-key'
    k = 1 if rng.random() < 0.6 or len(cols) < 2 else 2
    keys = rng.sample(cols, k)
    conds = {c: cond(rng, t[c]) for c in keys}
    q = rng.random()
    if any(not isinstance(c, str) for c in keys):
        # a condition on a column whose key is not a string cannot be a keyword: a dict filter
        skw = {c: v for c, v in conds.items() if isinstance(c, str)}
        if skw and rng.random() < 0.5:
            return t, None, skw, {c: v for c, v in conds.items() if not isinstance(c, str)}, 'dict+keyword'
        return t, None, {}, conds, 'dict-filter'
    if r < 0.29 and scols:
        # a callable AND keyword filters: outside the property's quantifier (the statement speaks of a single predicate
        # OR a conjunction of column conditions); model and code are still compared (correspondence only, no law)
        return t, pred(rng, scols), conds, None, 'callable+keyword'
    if q < 0.15:
        return t, None, {}, conds, 'dict-filter'
    if q < 0.22 and k == 2:
        return t, None, {keys[0]: conds[keys[0]]}, {keys[1]: conds[keys[1]]}, 'dict+keyword'
    if q < 0.26:
        return t, None, {keys[0]: cond(rng, t[keys[0]])}, conds, 'dict-overrides-keyword'
    return t, None, conds, None, 'keyword-%d' % k


def lines_of(rng, sc):
    t, p, kw, dc, tag = sc
    tw = enck(t)
    tail = '%s %s %s' % (pred_wire(p), kvw(kw), kvw(dc) if dc is not None else 'N')
    out = ['(flt inc %s %s)' % (tw, tail), '(flt exc %s %s)' % (tw, tail)]
    scols = [c for c in t if isinstance(c, str)]      # find_<col> is an attribute: string columns only
    if scols and rng.random() < 0.5:
        out.append('(flt find %s %s %s)' % (tw, enc(rng.choice(scols)), tail))
    elif rng.random() < 0.04:
        out.append('(flt find %s %s %s)' % (tw, enc('q'), tail))      # find_<col> of a column that is not there: KeyError
    if rng.random() < 0.4:
        # one_or_none(f?, exc = {...}, find = k, **conds)  (round k1: modelled, Table.oneOrNone).  `exc` is expanded as keywords
        # (`res.exc(**exc)`): string columns only; an empty dict is falsy (no exclusion); `find` a column, '' (falsy), or a name that
        # is not a column (KeyError, but only when exactly one row is left)
        r = rng.random()
        if r < 0.45 or not scols:
            ex = 'N'
        elif r < 0.5:
            ex = '(D)'
        else:
            ks = rng.sample(scols, 1 if rng.random() < 0.75 or len(scols) < 2 else 2)
            ex = kvw({c: cond(rng, t[c]) for c in ks})
        r = rng.random()
        fd = 'N' if r < 0.5 or not scols else (enc(rng.choice(scols)) if r < 0.9 else enc(rng.choice(['', 'q'])))
        out.append('(flt one %s %s %s %s)' % (tw, tail, ex, fd))
    return out


def effective(kw, dc):
    d = dict(kw)
    if dc:
        d.update(dc)
    return d


def selectivity(sc):
    t, p, kw, dc, tag = sc
    n = len(list(t.values())[0]) if t else 0
    if n == 0 or tag in ('callable-missing-column', 'missing-key'):
        return 'empty-table' if n == 0 else 'error'
    conds = effective(kw, dc)
    sel = 0
    for i in range(n):
        row = {c: t[c][i] for c in t}
        ok = all(holds(c, row[k]) for k, c in conds.items()) and (p is None or pred_holds(p, row))
        sel += ok
    return 'match-nothing' if sel == 0 else ('match-everything' if sel == n else 'match-some')


def generate(rng, tier):
    n = 1250 if tier == 'quick' else 25000
    for _ in range(n):
        sc = scenario(rng)
        s = selectivity(sc)
        EXTRA.setdefault('selectivity', {})
        EXTRA['selectivity'][s] = EXTRA['selectivity'].get(s, 0) + 1
        for k, c in list(sc[2].items()) + list((sc[3] or {}).items()):
            EXTRA.setdefault('condition_kinds', {})
            EXTRA['condition_kinds'][c[0]] = EXTRA['condition_kinds'].get(c[0], 0) + 1
        for line in lines_of(rng, sc):
            yield dict(tag=('keyed-columns:' if is_keyed(sc[0]) else '') + ('self-column:' if 'self' in sc[0] else '') + sc[4] + ':' + s, lines=[line])


# ----------------------------------------------------------------------------- implementation runner

def _conds(x):
    if x == 'N':
        return None
    out = {}
    for kv in x[1:]:
        v = kv[1]
        out[name_key(proto.unhex(kv[0]))] = (re.compile(proto.dec(v[1]), re.I if len(v) > 2 else 0)
                                   if isinstance(v, list) and v and v[0] == 're' else proto.dec(v))
    return out


def _pred(x):
    if x == 'N':
        return None
    if x[1] in ('const', 'constv'):
        return pred_py((x[1], proto.dec(x[2])))
    return pred_py((x[1],) + tuple(proto.dec(a) for a in x[2:]))


def call(d, op, p, kw, dc, key=None):
    args = []
    if p is not None:
        args.append(p)
    if dc is not None:
        args.append(dc)
    if op == 'find':
        return getattr(d, 'find_' + key)(*args, **kw)
    return getattr(d, op)(*args, **kw)


def new_state():
    from . import c01
    c01.start_coverage()
    return None


def run_line(state, sx):
    from pyg_base import dictable
    op, args = sx[1], sx[2:]
    d = dictable(proto.deck(args[0]))
    if op in ('inc', 'exc'):
        res = call(d, op, _pred(args[1]), _conds(args[2]), _conds(args[3]))
        if not isinstance(res, dictable):
            raise AssertionError('%s did not return a dictable' % op)
        return 'ok ' + enck(dict(res))
    if op == 'find':
        return 'ok ' + enc(call(d, op, _pred(args[2]), _conds(args[3]), _conds(args[4]), key=proto.dec(args[1])))
    if op == 'one':
        p, kw, dc = _pred(args[1]), _conds(args[2]), _conds(args[3])
        pos = ([p] if p is not None else []) + ([dc] if dc is not None else [])
        res = d.one_or_none(*pos, exc=_conds(args[4]), find=None if args[5] == 'N' else proto.dec(args[5]), **kw)
        if isinstance(res, dict):
            return 'ok ' + enck(dict(res))
        return 'ok ' + enc(res)
    return 'bad-op'


def compare(case, i, line, ir, mr):
    # type-strict (1 is not 1.0): filtering must hand the cells through unchanged, and find_ returns the FIRST selected
    # of several equal values (set() keeps the first inserted of == elements)
    if proto.same_reply(ir, mr, numeric=False):
        return None
    if proto.same_reply(ir, mr):
        return ('divergence', 'equal values of different type: implementation %s, model %s' % (ir[:200], mr[:200]))
    if mr == 'bad-op' or ir == 'bad-op':
        return ('divergence', 'outside the modelled universe: implementation %s, model %s' % (ir[:200], mr[:200]))
    if ir.startswith('err') and mr.startswith('err'):
        return ('divergence', 'both raise, kinds differ: implementation %s, model %s' % (ir, mr))
    return 'implementation %s, model %s' % (ir[:300], mr[:300])


def shrink(case, still_fails, budget=250):
    """delta debugging that keeps the table rectangular: drop one row (from every column), one column, one condition or
    one admissible value at a time"""
    if len(case['lines']) != 1:
        raise ValueError('single-line cases only')
    best = proto.parse(case['lines'][0])

    def sub(sx):
        if isinstance(sx, str):
            return
        if sx and sx[0] in ('L', 'T', 'D'):
            for i in range(1, len(sx)):
                yield sx[:i] + sx[i + 1:]
        for i in range(len(sx)):
            for y in sub(sx[i]):
                yield sx[:i] + [y] + sx[i + 1:]

    def candidates(sx):
        t = sx[2]
        n = len(t[1][1]) - 1 if len(t) > 1 else 0
        for i in range(n):
            yield sx[:2] + [['D'] + [[kv[0], kv[1][:1 + i] + kv[1][2 + i:]] for kv in t[1:]]] + sx[3:]
        if len(t) > 2:
            for j in range(1, len(t)):
                yield sx[:2] + [t[:j] + t[j + 1:]] + sx[3:]
        for k in range(3, len(sx)):
            for y in sub(sx[k]):
                yield sx[:k] + [y] + sx[k + 1:]

    tries, improved = 0, True
    while improved and tries < budget:
        improved = False
        for cand in candidates(best):
            tries += 1
            if tries > budget:
                break
            if still_fails(dict(case, lines=[proto.render(cand)])):
                best, improved = cand, True
                break
    return dict(case, lines=[proto.render(best)])


def nontrivial(line, reply):
    if not reply.startswith('ok'):
        return False
    sx = proto.parse(line)
    t = sx[2]
    return len(t) > 1 and len(t[1][1]) > 1      # a table with at least one row


# ----------------------------------------------------------------------------- laws on the implementation alone

def same_cell(x, y):
    if is_nan(x) and is_nan(y):
        return True
    return type(x) == type(y) and x == y


def renan(x, mode):
    if not is_nan(x):
        return x
    return np.nan if mode == 'shared' else float('nan')


def recond(c, mode):
    if c[0] == 'nan':
        return ('nan', renan(c[1], mode))
    if c[0] == 'eq':
        return ('eq', renan(c[1], mode))
    if c[0] == 'in':
        return ('in', type(c[1])(renan(x, mode) for x in c[1]))
    return c


def rows_of(t):
    keys = skeys(t)
    cols = [dict.__getitem__(t, k) for k in keys]
    return [tuple(c[i] for c in cols) for i in range(len(cols[0]) if cols else 0)]


def same_rows(a, b):
    return len(a) == len(b) and all(len(x) == len(y) and all(same_cell(p, q) for p, q in zip(x, y)) for x, y in zip(a, b))


def laws(rng, tier, ctx):
    from pyg_base import dictable
    count = 0
    n = 700 if tier == 'quick' else 15000
    for _ in range(n):
        sc = scenario(rng)
        t, p, kw, dc, tag = sc
        if tag in ('callable-missing-column', 'missing-key', 'callable+keyword'):
            continue
        nrows = len(list(t.values())[0]) if t else 0
        conds = effective(kw, dc)
        tw = enck(t)
        tail = '%s %s %s' % (pred_wire(p), kvw(kw), kvw(dc) if dc is not None else 'N')
        if 'self' in t:
            tag = 'self-column:' + tag
        if is_keyed(t):
            tag = 'keyed-columns:' + tag
        case = dict(tag='law:' + tag, lines=['(flt inc %s %s)' % (tw, tail), '(flt exc %s %s)' % (tw, tail)], atomic=True)

        def build():
            return dictable({k: list(v) for k, v in t.items()})

        def do(op, d, key=None):
            return with_timeout(lambda: call(d, op, pred_py(p) if p else None, {k: cond_py(c) for k, c in kw.items()},
                                             None if dc is None else {k: cond_py(c) for k, c in dc.items()}, key), 5)
        count += 1
        d = build()
        all_rows = rows_of(d)
        keys = skeys(t)
        want = []
        for i in range(nrows):
            row = {c: t[c][i] for c in t}
            want.append(all(holds(c, row[k]) for k, c in conds.items()) and (p is None or pred_holds(p, row)))
        try:
            inc, exc = do('inc', d), do('exc', d)
        except Timeout:
            yield Finding('violation', case, 'inc/exc does not return')
            continue
        except Exception as e:
            yield Finding('violation', case, 'inc/exc raised %s: %s' % (type(e).__name__, str(e)[:100]))
            continue
        if not same_rows(rows_of(d), all_rows):
            yield Finding('violation', case, 'inc/exc altered the table')
            continue
        if skeys(inc) != keys or skeys(exc) != keys:
            yield Finding('violation', case, 'inc/exc lost columns: %s / %s of %s' % (skeys(inc), skeys(exc), keys))
            continue
        if not (conds or p):
            if not same_rows(rows_of(inc), all_rows):
                yield Finding('violation', case, 'inc() without a condition is not the identity')
            continue
        if not same_rows(rows_of(inc), [r for r, w in zip(all_rows, want) if w]):
            yield Finding('violation', case, 'inc is not exactly the rows satisfying the condition, in order')
            continue
        if not same_rows(rows_of(exc), [r for r, w in zip(all_rows, want) if not w]):
            yield Finding('violation', case, 'exc is not exactly the other rows, in order')
            continue
        if len(inc) + len(exc) != nrows:
            yield Finding('violation', case, 'len(inc) + len(exc) != len(table)')
            continue
        try:
            again = do('inc', inc)
        except Exception as e:
            yield Finding('violation', case, 'inc of the inc result raised %s' % type(e).__name__)
            continue
        if not same_rows(rows_of(again), rows_of(inc)) or skeys(again) != keys:
            yield Finding('violation', case, 'inc is not idempotent')
            continue
        # find_<col>
        for c in [c for c in t if isinstance(c, str)]:
            count += 1
            sel = [v for v, w in zip(t[c], want) if w]
            distinct = []
            for v in sel:
                if not any(same_val(v, u) for u in distinct):
                    distinct.append(v)
            fcase = dict(tag='law-find:' + tag, lines=['(flt find %s %s %s)' % (tw, enc(c), tail)])
            try:
                got = do('find', build(), c)
                if len(distinct) != 1:
                    yield Finding('violation', fcase, 'find_%s returned %r although %d distinct values are selected' % (c, got, len(distinct)))
                elif not same_val(got, distinct[0]):
                    yield Finding('violation', fcase, 'find_%s returned %r, the unique selected value is %r' % (c, got, distinct[0]))
            except Timeout:
                yield Finding('violation', fcase, 'find does not return')
            except ValueError:
                if len(distinct) == 1:
                    yield Finding('violation', fcase, 'find_%s raised although exactly one value (%r) is selected' % (c, distinct[0]))
            except Exception as e:
                yield Finding('violation', fcase, 'find_%s raised %s' % (c, type(e).__name__))
        # one_or_none (listed in the property's observe_at): None when inc selects no row, the row itself when it selects exactly one,
        # ValueError when it selects several; with find = <col> that row's cell
        if p is None or dc is None:
            count += 1
            ocase = dict(tag='law-one-or-none:' + tag, lines=['(flt inc %s %s)' % (tw, tail)])
            # exc = {col: condition} (round k1): rows satisfying ALL of its conditions are taken out of the selection; {} / None exclude nothing
            exd = None
            strcols = [c for c in t if isinstance(c, str)]
            if strcols and rng.random() < 0.5:
                exd = {c: cond(rng, t[c]) for c in rng.sample(strcols, 1 if rng.random() < 0.7 or len(strcols) < 2 else 2)} if rng.random() < 0.9 else {}
            out_rows = [bool(exd) and all(holds(c, t[k][i]) for k, c in exd.items()) for i in range(nrows)]
            sel_rows = [r for r, w, o in zip(all_rows, want, out_rows) if w and not o]
            if exd is not None:
                ocase = dict(tag='law-one-or-none-exc:' + tag, lines=['(flt one %s %s %s N)' % (tw, tail, kvw(exd))])
            fc = rng.choice(skeys(t)) if t and rng.random() < 0.4 else None
            try:
                args = ([pred_py(p)] if p else []) + ([{k: cond_py(c) for k, c in dc.items()}] if dc is not None else [])
                got = with_timeout(lambda: build().one_or_none(*args, find=fc, exc=None if exd is None else {k: cond_py(c) for k, c in exd.items()},
                                                               **{k: cond_py(c) for k, c in kw.items()}), 5)
                if len(sel_rows) > 1:
                    yield Finding('violation', ocase, 'one_or_none returned %r although %d rows are selected' % (got, len(sel_rows)))
                elif len(sel_rows) == 0:
                    if got is not None:
                        yield Finding('violation', ocase, 'one_or_none returned %r although no row is selected' % (got,))
                elif fc is not None:
                    if not same_cell(got, sel_rows[0][skeys(t).index(fc)]):
                        yield Finding('violation', ocase, 'one_or_none(find=%r) returned %r, the selected row is %r' % (fc, got, sel_rows[0]))
                elif not isinstance(got, dict) or skeys(got) != skeys(t) or not same_rows([tuple(got[k] for k in skeys(t))], [sel_rows[0]]):
                    yield Finding('violation', ocase, 'one_or_none returned %r, the selected row is %r' % (got, sel_rows[0]))
            except Timeout:
                yield Finding('violation', ocase, 'one_or_none does not return')
            except ValueError:
                if len(sel_rows) <= 1:
                    yield Finding('violation', ocase, 'one_or_none raised ValueError although %d row(s) are selected' % len(sel_rows))
            except Exception as e:
                yield Finding('violation', ocase, 'one_or_none raised %s' % type(e).__name__)
        # the answer must not depend on WHICH OBJECT holds a NaN (np.nan is one shared object, float('nan') a new one
        # each time): the statement speaks of cells and values
        if any(is_nan(v) for col in t.values() for v in col) or any(
                is_nan(x) for c in conds.values() if c[0] in ('in', 'eq', 'nan')
                for x in (c[1] if isinstance(c[1], (list, tuple)) else [c[1]])):
            count += 1
            outs = {}
            for mode in ('shared', 'fresh'):
                t2 = {k: [renan(v, mode) for v in col] for k, col in t.items()}
                kw2 = {k: recond(c, mode) for k, c in kw.items()}
                dc2 = None if dc is None else {k: recond(c, mode) for k, c in dc.items()}
                tail2 = '%s %s %s' % (pred_wire(p), kvw(kw2), kvw(dc2) if dc2 is not None else 'N')
                res = []
                for op, key in [('inc', None), ('exc', None)] + [('find', c) for c in t2 if isinstance(c, str)]:
                    line = '(flt %s %s %s%s)' % (op, enck(t2), enc(key) + ' ' if key else '', tail2)
                    try:
                        r = with_timeout(lambda: call(dictable({k: list(v) for k, v in t2.items()}), op, pred_py(p) if p else None,
                                                      {k: cond_py(c) for k, c in kw2.items()},
                                                      None if dc2 is None else {k: cond_py(c) for k, c in dc2.items()}, key), 5)
                        r = ('ok', rows_of(r) if op != 'find' else [(r,)])
                    except Timeout:
                        r = ('timeout', [])
                    except Exception as e:
                        r = ('err ' + type(e).__name__, [])
                    res.append((line, r))
                outs[mode] = res
            for (l1, r1), (l2, r2) in zip(outs['shared'], outs['fresh']):
                if r1[0] != r2[0] or not same_rows(r1[1], r2[1]):
                    yield Finding('violation', dict(tag='law-nan-identity:' + tag, lines=[l1, l2], atomic=True),
                                  'the result depends on which objects hold the NaNs: with the shared np.nan %s %s, with fresh '
                                  "float('nan') objects %s %s" % (r1[0], r1[1][:6], r2[0], r2[1][:6]))
                    break
    from . import c01
    if c01._COV['on']:
        EXTRA['line_coverage'] = c01.coverage_report([(201, 215), (413, 428), (502, 524), (594, 609)])
    yield count


MATCHERS = {}
