"""C07 - cmp is a total preorder over mixed types; sort / dictable.sort follow it stably."""
import datetime, itertools
import numpy as np
import pandas as pd
from .. import proto
from ..engine import Finding

ID = 'C07'
TITLE = 'cmp is a total preorder over mixed types; sort/dictable.sort follow it stably'
LEAN_FILES = ['Basic', 'Cmp', 'Sort', 'Native', 'TableBasic', 'SortTable', 'CmpDriver', 'Tri', 'CmpLemmas', 'NativeLemmas', 'C07']
RULE = ('distinct protocol lines (a cmp pair, a list handed to sort, a key column handed to dictable.sort) on which the '
        'implementation returned a value; pairs of identical atoms and empty lists are not counted')
TRUSTED = ['correspondence harness (pv.engine, pv.proto) and generators of pv.props.c07',
           'Lean driver parser/printer (PygModel/Basic.lean, CmpDriver.lean)']
ASSUMPTIONS = ['CPython: str(type(x)) names, native < on str/float/datetime/bool, sorted() is a stable sort determined by its comparison outcomes',
               'numpy numbers of EVERY integer / float type (np.integer, np.floating: unsigned, narrow, longlong, float16/32, longdouble - wire NI.<type>: / NF.<type>:, '
               'the implementation sees the real scalar; since fix e030b7f) / bools / datetime.date are normalised by as_primitive to the python values the wire format identifies them with '
               '(a law, not only an assumption: numerically equal numbers of every spelling compare 0); '
               'pd.Timestamp and np.str_ are NOT normalised (as_primitive keeps them): they have their own wire spellings TS: / NS: so that the '
               'implementation sees the real objects; the model reads TS: as the datetime cell (cmp ranks a Timestamp with the datetimes since fix 7a44481); np.str_ has no model cell '
               '(cmp ranks it apart from str, pinned by the repository test_cmp) and takes part in the implementation-only laws',
               'the op `native` compares the as_primitive images natively (these are the values sort() hands to sorted() as keys)',
               'object identity (x is y shortcut) is not modelled; fresh and shared NaN objects are both generated',
               'the missing date: pd.NaT (wire NAT) and np.datetime64(\'NaT\') (wire NAT64, a fresh object per decode) are one value of the model (ValN.nat, '
               'cmpNaT) when they are one of the two values compared; inside a list / tuple / dict they are outside the model: sort / dictable.sort with '
               'NaT are checked by the implementation-only laws (every pair of the output under the implementation\'s own cmp)']

D = datetime.datetime
TS = pd.Timestamp


# ---------------------------------------------------------------- wire spellings local to C07
# proto.enc writes every datetime subclass as T: and every str subclass as S:, which would hand the implementation a plain
# datetime / str where the generator meant a pd.Timestamp / np.str_ (review s2, C07 2.B).  C07 keeps the two apart on the wire:
# TS:<us> and NS:<hex>; the Lean driver (CmpDriver.normSexp) reads them as T: / S:.

def enc(v):
    if v is pd.NaT:
        return 'NAT'
    if isinstance(v, np.datetime64) and np.isnat(v):
        return 'NAT64'
    if isinstance(v, pd.Timestamp):
        return 'TS:%d' % proto.dt2us(v.to_pydatetime().replace(tzinfo=None))
    if isinstance(v, np.str_):
        return 'NS:' + proto.hexs(str(v))
    if isinstance(v, np.integer) and type(v) is not np.int64:
        # the other numpy integer types (unsigned, narrower, np.longlong - a type of its own beside np.int64): NI.<type name>:<int>
        return 'NI.%s:%d' % (type(v).__name__, int(v))
    if isinstance(v, np.floating) and type(v) is not np.float64:
        # np.float16 / float32 / longdouble keep their type on the wire: NF.<type name>:<quarters | nan | inf | -inf>
        f = float(v)
        return 'NF.%s:%s' % (type(v).__name__, proto.enc_float(f).split(':', 1)[1])
    if isinstance(v, list):
        return '(L' + ''.join(' ' + enc(x) for x in v) + ')'
    if isinstance(v, tuple):
        return '(T' + ''.join(' ' + enc(x) for x in v) + ')'
    if isinstance(v, dict):
        return '(D' + ''.join(' (%s %s)' % (proto.hexs(str(k)), enc(x)) for k, x in v.items()) + ')'
    return proto.enc(v)


def dec(x):
    if isinstance(x, str):
        if x == 'NAT':
            return pd.NaT
        if x == 'NAT64':
            return np.datetime64('NaT')         # a fresh object every time, like a fresh float('nan')
        if x.startswith('TS:'):
            return pd.Timestamp(proto.us2dt(int(x[3:])))
        if x.startswith('NS:'):
            return np.str_(proto.unhex(x[3:]))
        if x.startswith('NI.'):
            head, body = x.split(':', 1)
            return getattr(np, head[3:])(int(body))
        if x.startswith('NF.'):
            head, body = x.split(':', 1)
            return getattr(np, head[3:])(body if body in ('nan', 'inf', '-inf') else int(body) / 4.0)
        return proto.dec_cell(x)
    head, rest = x[0], x[1:]
    if head == 'L':
        return [dec(y) for y in rest]
    if head == 'T':
        return tuple(dec(y) for y in rest)
    if head == 'D':
        return {proto.unhex(kv[0]): dec(kv[1]) for kv in rest}
    raise ValueError('bad node head %r' % (head,))


def _plain(x):
    """parsed sexp with the C07-only spellings rewritten to the shared ones (for canonical comparison)"""
    if isinstance(x, str):
        if x.startswith('NI.') or x.startswith('NF.'):
            return x[1] + ':' + x.split(':', 1)[1]
        return 'T:' + x[3:] if x.startswith('TS:') else 'S:' + x[3:] if x.startswith('NS:') else 'NAT' if x == 'NAT64' else x
    return [_plain(y) for y in x]


def same_reply(r1, r2):
    if r1 == r2:
        return True
    a, b = r1.split(None, 1), r2.split(None, 1)
    if a[0] != b[0] or a[0] != 'ok' or len(a) != 2 or len(b) != 2:
        return False
    try:
        return proto.canon(_plain(proto.parse(a[1]))) == proto.canon(_plain(proto.parse(b[1])))
    except Exception:
        return False


# missing dates: pd.NaT IS an instance of datetime.datetime (it ranks with the datetimes since fix 7a44481) and every native comparison with
# it is False, as with NaN; np.datetime64('NaT') is its numpy spelling (two objects of different identity, like the NaNs) - review t2 V1/V2
NATS = [pd.NaT, np.datetime64('NaT'), np.datetime64('NaT')]
# "numpy scalars" is wider than np.int64 / np.float64 (review v2 W1/W2): unsigned and narrow ints, np.longlong (a type of its own beside
# np.int64 on this platform), the float widths incl. np.longdouble (not a python float: the native < and > with its NaN are both False)
NP_WIDE = [np.uint8(1), np.uint8(2), np.uint64(2 ** 64 - 1), np.longlong(1), np.int8(-1), np.uint16(2), np.float16(1), np.float32(2.5),
           np.longdouble(1.5), np.longdouble(2), np.longdouble('nan')]
NP_STRS = [np.str_('a'), np.str_('b')]        # cmp ranks np.str_ by its own type name (the repository's test_cmp pins it): no model cell, laws only


def universe(laws=False):
    nan = float('nan')
    return (NP_STRS if laws else []) + NATS + NP_WIDE + [2 ** 64 - 1, None, True, False, 0, 1, -1, 2, 1.0, 2.5, -0.25, float('nan'), float('nan'), np.nan, float('inf'), float('-inf'),
            '', 'a', 'b', 'ab', 'B', D(2020, 1, 1), D(2020, 1, 2, 3), datetime.date(2020, 1, 1), np.int64(1), np.float64(1.0),
            np.float64('nan'), np.bool_(True), np.float64(2.5), 2 ** 53, 2 ** 53 + 1, float(2 ** 53),
            np.float64(2 ** 53), np.int64(2 ** 53 + 1), TS('2020-01-01'), TS('2020-01-02 03:00'),
            (), (1,), (1, 2), (1.0, 2), ('a', 1), (None,), (nan,), (2, 1), (1, 'a'), (True,), (1, (2, 3)), (1, (2, 4)), (1, [2, 3]),
            [], [1], [1, 2], [2, 1], [[1], [2]], [None, 'a'], [nan, 1], [1, nan],
            {}, {'a': 1}, {'a': 1, 'b': 2}, {'b': 2, 'a': 1}, {'a': 1, 'c': 2}, {'a': 2}, {'a': nan}, {'a': [1, 2]}, {'a': 1.0},
            {'b': 1}, {'a': {'x': 1}}, {'a': {}}]


SCALARS = [None, 0, 1, -1, 2, 3, 1.0, 2.5, -0.25, 0.5, 'a', 'b', 'ab', '', D(2020, 1, 1), D(2020, 1, 2), D(2019, 5, 5, 12)]
# the other spellings of "ints, finite floats, strings, datetimes" (review s2, C07 2.A/2.B): numpy numbers around the float64
# precision boundary (python compares int with float exactly, numpy through float64), pd.Timestamp (a datetime), np.str_ (a str)
NP_SCALARS = [2 ** 53, 2 ** 53 + 1, float(2 ** 53), np.float64(2 ** 53), np.int64(2 ** 53 + 1), np.int64(2 ** 53), np.int64(1), np.float64(2.5),
              np.float64(1.0), np.int64(2), np.uint8(2), np.uint8(1), np.uint64(2 ** 53 + 1), np.longlong(3), np.int8(-1), np.float32(2.5), np.float16(0.5),
              np.longdouble(1.5), np.longdouble('nan'), TS('2020-01-02'), TS('2020-01-01'), TS('2019-05-05 12:00'), D(2020, 1, 3), 'c']
BIG = [2 ** 53, 2 ** 53 + 1, 2 ** 53 + 2, float(2 ** 53), np.float64(2 ** 53), np.int64(2 ** 53 + 1), np.int64(2 ** 53), np.float64(2 ** 53 + 2),
       np.uint64(2 ** 53 + 1), np.uint64(2 ** 64 - 1), 2 ** 64 - 1, np.longlong(2 ** 53), np.float32(2 ** 53)]
DATES = [TS('2020-01-02'), TS('2020-01-01'), TS('2019-05-05 12:00'), D(2020, 1, 3), D(2020, 1, 1), D(2020, 1, 2), D(2019, 5, 5, 12)]
STRS = [np.str_('a'), np.str_('b'), np.str_('ab'), 'a', 'b', 'c', 'ab', '']
DATES_NAT = DATES + NATS + [pd.NaT]            # laws only (the model has NaT at scalar level only)


ARG_COLS = ['self', 'by', 'byval', 'key', 'keys', 'a']     # column names that are also parameter names of dictable.sort / sorted (w2-F2)


def rand_scalar(rng, nan_rate=0.12, pool=None):
    if rng.random() < nan_rate:
        return float('nan') if rng.random() < 0.7 else np.nan
    return rng.choice(pool or SCALARS)


def rand_pool(rng, laws=False):
    """scalar pool of one sort case: mostly the plain python scalars; otherwise one with numpy / pandas spellings mixed in, or a
    same-kind pool (only then does sorted() stay on its native path with those spellings present).  np.str_ has no cell in the model
    (cmp ranks it between list and str): it is drawn for the implementation-only laws."""
    r = rng.random()
    if r >= 0.80 and not laws:
        return DATES
    if r < 0.55:
        return SCALARS
    if r < 0.70:
        return SCALARS + NP_SCALARS
    if r < 0.80:
        return BIG
    if r < 0.85:
        return DATES
    if r < 0.93:
        return DATES_NAT
    return STRS


def rand_val(rng, depth):
    r = rng.random()
    if depth == 0 or r < 0.45:
        x = rand_scalar(rng)
        if rng.random() < 0.08:
            x = rng.choice([True, False, float('inf'), float('-inf'), np.int64(1), np.float64(2.5), datetime.date(2020, 1, 1)])
        return x
    n = rng.choice([0, 1, 1, 2, 2, 3])
    if r < 0.65:
        return [rand_val(rng, depth - 1) for _ in range(n)]
    if r < 0.85:
        return tuple(rand_val(rng, depth - 1) for _ in range(n))
    keys = rng.sample(['a', 'b', 'c', 'd'], min(n, 4))
    return {k: rand_val(rng, depth - 1) for k in keys}


def generate(rng, tier):
    U = universe()
    # all pairs of the universe against the model
    for x in U:
        for y in U:
            yield dict(tag='cmp-universe', lines=['(cmp cmp %s %s)' % (enc(x), enc(y))])
    n = 600 if tier == 'quick' else 20000
    for _ in range(n):
        x = rand_val(rng, 3)
        y = rand_val(rng, 3) if rng.random() < 0.6 else mutate(rng, x)
        yield dict(tag='cmp-random', lines=['(cmp cmp %s %s)' % (enc(x), enc(y))])
    # sort: lists of scalars and of equal-length tuples of scalars
    n = 400 if tier == 'quick' else 12000
    for _ in range(n):
        k = rng.choice([0, 1, 2, 3, 5, 8, 12])
        pool = rand_pool(rng)
        nr = 0.12 if pool is SCALARS else 0.04
        if rng.random() < 0.6:
            xs = [rand_scalar(rng, nr, pool) for _ in range(k)]
        else:
            w = rng.choice([1, 2, 3])
            xs = [tuple(rand_scalar(rng, nr, pool) for _ in range(w)) for _ in range(k)]
        yield dict(tag='sort' if pool is SCALARS else 'sort-numpy-pandas-spellings', lines=['(cmp sort %s)' % enc(xs)])
    # sort AS THE CODE RUNS IT (round k2): the return statement reached (observed by spying on the `sorted` the module calls) and the
    # result, against PygModel/SortCode.lean (`codeBranch`, `codeSort`; theorem `codeSort_eq_cmpSort`).  Pools that reach every branch:
    # mixed kinds (TypeError fallback), one kind only (native), numpy numbers present (native on the as_primitive images), NaN / NaT
    nums = [x for x in SCALARS + NP_SCALARS + BIG if isinstance(x, (int, float, np.number))]
    code_pools = [('mixed', SCALARS), ('mixed-spellings', SCALARS + NP_SCALARS), ('numbers', nums), ('numbers', [x for x in SCALARS if isinstance(x, (int, float))]),
                  ('big', BIG), ('dates', DATES), ('dates-nat', DATES_NAT), ('strings', ['a', 'b', 'ab', '', 'c', 'B'])]
    for _ in range(300 if tier == 'quick' else 9000):
        name, pool = rng.choice(code_pools)
        k = rng.choice([0, 1, 1, 2, 3, 5, 8])
        xs = [rand_scalar(rng, 0.08 if name in ('mixed', 'numbers') else 0.0, pool) for _ in range(k)]
        yield dict(tag='sort-branch-' + name, lines=['(cmp sortcode %s)' % enc(xs)])
    # dictable.sort by 1..2 key columns
    n = 300 if tier == 'quick' else 8000
    for _ in range(n):
        k = rng.choice([1, 2, 3, 4, 6, 9, 20])
        w = rng.choice([1, 1, 2])
        src = rand_pool(rng)
        pool = [rand_scalar(rng, 0.12 if src is SCALARS else 0.04, src) for _ in range(rng.choice([1, 2, 3, 5]))]
        if rng.random() < 0.15:
            pool += [float('inf'), float('-inf')]      # since fix e767c32 the infinities keep their native place under cmp
        keys = [tuple(rng.choice(pool) for _ in range(w)) for _ in range(k)]
        if src is SCALARS and rng.random() < 0.3:
            # (plain python scalars only: this form compares ROW DICTS, whose == on numpy numbers is numpy's inexact one)
            # d.sort([k0, k1]): the documented "list of keys" form; flag 1 = the columns are named so that the given order is NOT
            # the alphabetical order of the names
            yield dict(tag='dictable.sort-listform', lines=['(cmp sortidxl %s %d)' % (enc(keys), rng.choice([0, 1]))])
        else:
            yield dict(tag='dictable.sort' if src is SCALARS else 'dictable.sort-numpy-pandas-spellings', lines=['(cmp sortidx %s)' % enc(keys)])
    # dictable.sort by a key FUNCTION of the columns
    for _ in range(120 if tier == 'quick' else 3000):
        k = rng.choice([1, 2, 3, 4, 6, 9])
        pool = [rand_scalar(rng) for _ in range(rng.choice([1, 2, 3, 5]))]
        keys = [tuple(rng.choice(pool) for _ in range(2)) for _ in range(k)]
        yield dict(tag='dictable.sort-by-function', lines=['(cmp sortfn %s %s)' % (enc(keys), rng.choice(['swap', 'first', 'pair']))])
    # python's native order against the reference model `Cell.native` / `nativeArr` (NaN excluded: not an order)
    NS = [None, True, False, 0, 1, -1, 2, 1.0, 2.5, -0.25, float('inf'), float('-inf'), '', 'a', 'b', 'ab', D(2020, 1, 1), D(2020, 1, 2, 3),
          2 ** 53, 2 ** 53 + 1, float(2 ** 53), np.float64(2 ** 53), np.int64(2 ** 53 + 1), np.int64(1), np.float64(2.5), datetime.date(2020, 1, 1),
          TS('2020-01-01'), TS('2020-01-02 03:00')]
    for x in NS:
        for y in NS:
            yield dict(tag='native-scalars', lines=['(cmp native %s %s)' % (enc(x), enc(y))])
    for _ in range(300 if tier == 'quick' else 6000):
        w = rng.choice([0, 1, 2, 3])
        xs = tuple(rng.choice(NS) for _ in range(w))
        ys = tuple(rng.choice(NS) if rng.random() < 0.5 else xs[i] for i in range(w))
        if rng.random() < 0.15:
            ys = ys[:-1] if ys and rng.random() < 0.5 else ys + (rng.choice(NS),)
        yield dict(tag='native-tuples', lines=['(cmp native %s %s)' % (enc(xs), enc(ys))])
    # ... and on the decorated ((k0, .., kn), i) tuples dictable.sort hands to sorted() (nativeKeyId)
    for _ in range(200 if tier == 'quick' else 4000):
        w = rng.choice([1, 2, 3])
        xs = tuple(rng.choice(NS) for _ in range(w))
        ys = tuple(rng.choice(NS) if rng.random() < 0.4 else xs[i] for i in range(w))
        i, j = rng.sample(range(6), 2)
        yield dict(tag='native-keyid', lines=['(cmp native %s %s)' % (enc((xs, i)), enc((ys, j)))])
    # dictable.sort on a whole table: key columns AND the other columns are gathered (Table.sortBy); also an absent key column
    for _ in range(150 if tier == 'quick' else 4000):
        k = rng.choice([0, 1, 2, 3, 5, 8])
        pool = [rand_scalar(rng) for _ in range(rng.choice([1, 2, 3, 5]))]
        names = rng.sample(['a', 'b', 'c', 'd'], rng.choice([1, 2, 3, 4]))
        t = {c: [rng.choice(pool) for _ in range(k)] for c in names}
        by = rng.sample(names, min(len(names), rng.choice([1, 1, 2]))) if rng.random() < 0.9 else [names[0], 'zz']
        if rng.random() < 0.05:
            by = []
        yield dict(tag='dictable.sort-table', lines=['(cmp sorttable %s %s)' % (enc_tbl(t), enc(by))])
    n = 100 if tier == 'quick' else 3000
    vals = [None, 1, 2, 3, 'a', 'b', 'c', 2.5]
    for _ in range(n):
        w = rng.choice([1, 2])
        orders = [rng.sample(vals, rng.choice([0, 1, 2, 3, 5, 6, 8])) for _ in range(w)]
        if rng.random() < 0.25:
            # an order with a repeated value / hash-equal numerics (1, 1.0, True are one dict key): the LAST position counts
            j = rng.randrange(w)
            orders[j] = orders[j] + [rng.choice(orders[j] + [1.0, True, 2.0])] + rng.sample(vals, rng.choice([0, 1]))
        k = rng.choice([2, 2, 3, 4, 7])
        rows = [[rng.choice(vals) for _ in range(w)] for _ in range(k)]
        yield dict(tag='dictable.sort-byval', lines=['(cmp byvalidx %s %s)' % (enc(orders), enc(rows))])
    # (w2-F2) the value-order form on key columns NAMED like the parameters of sort itself: d.sort(self = [3, 1]), by = .., byval = ..
    for _ in range(40 if tier == 'quick' else 600):
        w = rng.choice([1, 1, 2])
        names = rng.sample(ARG_COLS, w)
        if 'self' not in names and rng.random() < 0.5:
            names[0] = 'self'
        orders = [rng.sample(vals, rng.choice([1, 2, 3, 5])) for _ in range(w)]
        k = rng.choice([2, 3, 4, 7])
        rows = [[rng.choice(vals) for _ in range(w)] for _ in range(k)]
        yield dict(tag='dictable.sort-byval-argname', lines=['(cmp byvalidx %s %s %s)' % (enc(orders), enc(rows), enc(names))])
    # ... and the key form / function form on such columns (sorttable gathers every column)
    for _ in range(40 if tier == 'quick' else 600):
        k = rng.choice([1, 2, 3, 5])
        pool = [rand_scalar(rng) for _ in range(rng.choice([1, 2, 3]))]
        names = rng.sample(ARG_COLS, rng.choice([1, 2, 3]))
        t = {c: [rng.choice(pool) for _ in range(k)] for c in names}
        by = rng.sample(names, min(len(names), rng.choice([1, 2])))
        yield dict(tag='dictable.sort-table-argname', lines=['(cmp sorttable %s %s)' % (enc_tbl(t), enc(by))])


def enc_tbl(t):
    return '(D' + ''.join(' (%s %s)' % (proto.hexs(c), enc(list(v))) for c, v in t.items()) + ')'


def mutate(rng, x):
    if isinstance(x, (list, tuple)) and len(x):
        i = rng.randrange(len(x))
        y = list(x)
        y[i] = mutate(rng, y[i])
        return type(x)(y)
    if isinstance(x, dict) and len(x):
        k = rng.choice(list(x))
        y = dict(x)
        y[k] = mutate(rng, y[k])
        return y
    if isinstance(x, int) and not isinstance(x, bool):
        return float(x) if rng.random() < 0.5 else x + 1
    return rand_scalar(rng)


def run_line(state, sx):
    import pyg_base
    from pyg_base import dictable
    op, args = sx[1], sx[2:]
    if op == 'cmp':
        return 'ok I:%d' % pyg_base.cmp(dec(args[0]), dec(args[1]))
    if op == 'native':
        # the native comparison as sort() performs it: on the as_primitive images (numpy numbers compare python ints through float64)
        a, b = pyg_base.as_primitive(dec(args[0])), pyg_base.as_primitive(dec(args[1]))
        return 'ok I:%d' % (-1 if a < b else 1 if a > b else 0)
    if op == 'sort':
        return 'ok ' + enc(pyg_base.sort(dec(args[0])))
    if op == 'sortcode':
        # which `sorted(...)` calls does sort() make?  `sorted` is looked up in the module's globals before the builtins: a module
        # attribute of that name observes the calls (no source edit) - [Cmp] / [as_primitive] / [None] / [.., Cmp] after a TypeError
        from pyg_base import _sort
        calls = []

        def spy(values, key=None):
            calls.append(key)
            return sorted(values, key=key)
        values = dec(args[0])
        _sort.sorted = spy
        try:
            res = pyg_base.sort(values)
        finally:
            del _sort.sorted
        names = ['Cmp' if k is _sort.Cmp else 'prim' if k is _sort.as_primitive else 'none' if k is None else repr(k) for k in calls]
        branch = {('Cmp',): 'cmpkey', ('prim',): 'nativeprim', ('none',): 'native', ('prim', 'Cmp'): 'fallback', ('none', 'Cmp'): 'fallback'}.get(tuple(names), '/'.join(names))
        return 'ok (T %s %s)' % (proto.enc(branch), enc(res))
    if op in ('sortidx', 'sortidxl'):
        keys = dec(args[0])
        w = len(keys[0]) if keys else 1
        names = ['k%d' % j for j in range(w)]
        if op == 'sortidxl' and args[1] == '1':
            names = names[::-1]             # first key column gets the alphabetically LAST name
        cols = {names[j]: [k[j] for k in keys] for j in range(w)}
        d = dictable(dict(cols, i=list(range(len(keys)))))
        if op == 'sortidxl':
            res = d.sort(list(names))
            res2 = res.sort(list(names))
        else:
            res = d.sort(*names)
            res2 = res.sort(*names)
        if list(res2['i']) != list(res['i']):
            raise AssertionError('dictable.sort not idempotent')
        return 'ok ' + enc(list(res['i']))
    if op == 'sorttable':
        t, by = dec(args[0]), dec(args[1])
        d = dictable(t) if t else dictable()
        res = d.sort(*by)
        if res is d:
            raise AssertionError('dictable.sort returned its receiver')
        if dict(d) != t and t:
            raise AssertionError('dictable.sort modified its receiver')
        return 'ok ' + enc_tbl({c: list(res[c]) for c in res.keys()})
    if op == 'sortfn':
        keys = dec(args[0])
        fn = {'swap': lambda k0, k1: (k1, k0), 'first': lambda k0: k0, 'pair': lambda k0, k1: [k0, k1]}[args[1]]
        d = dictable(dict(k0=[k[0] for k in keys], k1=[k[1] for k in keys], i=list(range(len(keys)))))
        res = d.sort(fn)
        if list(res.sort(fn)['i']) != list(res['i']):
            raise AssertionError('dictable.sort not idempotent')
        return 'ok ' + enc(list(res['i']))
    if op == 'byvalidx':
        orders, rows = dec(args[0]), dec(args[1])
        w = len(orders)
        names = dec(args[2]) if len(args) > 2 else ['k%d' % j for j in range(w)]
        if len(names) != w or len(set(names)) != w or 'i' in names or not all(isinstance(c, str) for c in names):
            return 'bad-op'
        cols = {names[j]: [r[j] for r in rows] for j in range(w)}
        d = dictable(dict(cols, i=list(range(len(rows)))))
        res = d.sort(**{names[j]: orders[j] for j in range(w)})
        return 'ok ' + enc(list(res['i']))
    return 'bad-op'


def compare(case, i, line, ir, mr):
    if same_reply(ir, mr):
        if ('TS:' in line or 'NS:' in line or 'NF:' in line or 'NI:' in line or 'NI.' in line or 'NF.' in line) and (line.startswith('(cmp sort ') or line.startswith('(cmp sortidx')):
            # the reply carries positions / cells only: with spellings the model identifies (Timestamp = datetime, numpy = python
            # number) agreeing with the model does not yet mean "ordered under the implementation's cmp" - evaluate the statement
            bad = statement_fails(line, ir)
            if bad:
                return '%s; implementation %s (as the model), but the implementation\'s own cmp disagrees' % (bad, ir)
        return None
    if line.startswith('(cmp cmp '):
        # the property pins only part of the order; a different value is a divergence unless a law fails (see laws)
        if not ir.startswith('ok'):
            return 'cmp did not return -1/0/1: %s (model: %s)' % (ir, mr)
        sx = proto.parse(line)
        rev = _run_guarded('(cmp cmp %s %s)' % (proto.render(sx[3]), proto.render(sx[2])))
        if rev.startswith('ok I:') and int(rev[5:]) != -int(ir[5:]):
            return 'cmp(x,y)=%s but cmp(y,x)=%s (model: %s)' % (ir[5:], rev[5:], mr)
        return ('divergence', 'cmp returned %s, model %s' % (ir, mr))
    if line.startswith('(cmp sortcode '):
        if not ir.startswith('ok '):
            return 'sort raised: %s (branch model: %s)' % (ir, mr)
        sx, out = proto.parse(line), proto.parse(ir[3:])
        bad = statement_fails('(cmp sort %s)' % proto.render(sx[2]), 'ok ' + proto.render(out[2]))
        if bad:
            return '%s; implementation %s, branch model %s' % (bad, ir, mr)
        return ('divergence', 'sort reaches / returns %s, the branch model (SortCode.codeBranch / codeSort) %s - the result is a cmp-ordered permutation all the same' % (ir, mr))
    if line.startswith('(cmp native '):
        return ('divergence', "python's native comparison gives %s, the reference model Cell.native / nativeArr %s (an assumption about CPython, not a clause of the property)" % (ir, mr))
    # sort / dictable.sort: the model's answer is the unique stable sort under the MODEL's cmp.  Decide the statement with the
    # implementation's own cmp: if the output is a correctly ordered (stable) permutation under it, model and code merely diverge.
    if line.startswith('(cmp sorttable '):
        return 'dictable.sort on a table: implementation %s, model (all columns gathered by the stable cmp-sort of the key tuples) %s' % (ir, mr)
    bad = statement_fails(line, ir)
    if bad:
        return '%s; implementation %s, model %s' % (bad, ir, mr)
    if 'NS:' in line or 'NAT' in line:
        # (a missing date inside a list / tuple is outside the model as well: `ValN`)
        # a np.str_ has no cell in the model (the driver reads it as the str, cmp ranks it between list and str): the model's answer
        # is not authoritative here, the statement was just decided with the implementation's own cmp (itself law-checked with np.str_)
        return None
    return ('divergence', 'implementation %s, model %s (still ordered under the implementation\'s own cmp)' % (ir, mr))


def statement_fails(line, ir):
    import pyg_base
    if not ir.startswith('ok '):
        return 'call failed: ' + ir
    sx = proto.parse(line)
    out = dec(proto.parse(ir[3:]))
    op = sx[1]
    if op == 'sort':
        xs = dec(sx[2])
        cx = sorted(repr(proto.canon(_plain(proto.parse(enc(x))))) for x in xs)
        co = sorted(repr(proto.canon(_plain(proto.parse(enc(x))))) for x in out)
        if cx != co:
            return 'sort result is not a permutation of the input'
        # every pair, not only neighbours: with an intransitive cmp (NaT before fix cceb13a) neighbours alone look ordered
        if any(pyg_base.cmp(out[i], out[j]) == 1 for i in range(len(out)) for j in range(i + 1, len(out))):
            return 'sort result is not non-decreasing under cmp'
        return None
    if op in ('sortidx', 'sortidxl', 'byvalidx', 'sortfn'):
        if op in ('sortidx', 'sortidxl'):
            keys = dec(sx[2])
        elif op == 'sortfn':
            ks = dec(sx[2])
            keys = [{'swap': lambda k: (k[1], k[0]), 'first': lambda k: k[0], 'pair': lambda k: [k[0], k[1]]}[sx[3]](k) for k in ks]
        else:
            orders, rows = dec(sx[2]), dec(sx[3])
            keys = [[(o.index(x) if x in o else len(o)) for o, x in zip(orders, r)] for r in rows]
        if sorted(out) != list(range(len(keys))):
            return 'dictable.sort result is not a permutation of the rows'
        for i in range(len(out)):
            for j in range(i + 1, len(out)):
                a, b = out[i], out[j]
                c = pyg_base.cmp(keys[a], keys[b])
                if c == 1 or (c == 0 and a > b):
                    return 'dictable.sort: rows %d,%d out of order / tie not in original order' % (a, b)
        return None
    return 'unknown op'


def nontrivial(line, reply):
    if not reply.startswith('ok'):
        return False
    sx = proto.parse(line)
    if sx[1] == 'cmp':
        return sx[2] != sx[3]
    return isinstance(sx[2], list) and len(sx[2]) > 2


def laws(rng, tier, ctx):
    """law checks on the implementation alone: antisymmetry on all pairs and transitivity on all triples of the universe;
    sort output is a permutation, non-decreasing under the implementation's own cmp"""
    import pyg_base
    U = universe(laws=True)
    n = len(U)
    M = [[None] * n for _ in range(n)]
    count = 0
    for i, x in enumerate(U):
        for j, y in enumerate(U):
            try:
                c = pyg_base.cmp(x, y)
            except Exception as e:
                c = 'raise ' + type(e).__name__
            M[i][j] = c
            count += 1
            if c not in (-1, 0, 1):
                yield Finding('violation', dict(tag='law-total', lines=['(cmp cmp %s %s)' % (enc(x), enc(y))]),
                              'cmp does not return -1/0/1 without raising: %r' % (c,))
    for i in range(n):
        for j in range(n):
            if M[i][j] in (-1, 0, 1) and M[j][i] in (-1, 0, 1) and M[i][j] != -M[j][i]:
                yield Finding('violation', dict(tag='law-antisymm', lines=['(cmp cmp %s %s)' % (enc(U[i]), enc(U[j])),
                                                                           '(cmp cmp %s %s)' % (enc(U[j]), enc(U[i]))], atomic=True),
                              'cmp(x,y)=%s but cmp(y,x)=%s' % (M[i][j], M[j][i]))
    le = [[M[i][j] in (-1, 0) for j in range(n)] for i in range(n)]
    for i in range(n):
        for j in range(n):
            if not le[i][j]:
                continue
            for k in range(n):
                count += 1
                if le[j][k] and M[i][k] == 1:
                    yield Finding('violation', dict(tag='law-trans', atomic=True, lines=[
                        '(cmp cmp %s %s)' % (enc(U[i]), enc(U[j])), '(cmp cmp %s %s)' % (enc(U[j]), enc(U[k])),
                        '(cmp cmp %s %s)' % (enc(U[i]), enc(U[k]))]), 'x<=y, y<=z but cmp(x,z)=1')
    # numerically equal numbers of any spelling (python / numpy ints and floats) compare equal; NaN above every finite number
    nums = [x for x in U + [np.int64(2), np.float64(2.0), np.float32(2.5), np.float32(1.0), np.float16(0.5), 2 ** 53, float(2 ** 53), 2 ** 53 + 1, np.float64(-0.25), np.int32(-1)]
            if isinstance(x, (int, float, np.integer, np.floating)) and not isinstance(x, (bool, np.bool_))]
    for x in nums:
        for y in nums:
            count += 1
            fx, fy = float(x), float(y)
            if fx != fx or fy != fy or fx in (float('inf'), float('-inf')) or fy in (float('inf'), float('-inf')):
                continue
            c = pyg_base.cmp(x, y)
            want = 0 if _exact(x) == _exact(y) else None      # not x == y: numpy's == goes through float64
            if want == 0 and c != 0:
                yield Finding('violation', dict(tag='law-numeq', lines=['(cmp cmp %s %s)' % (enc(x), enc(y))]),
                              'numerically equal numbers %r (%s) and %r (%s) compare %s' % (x, type(x).__name__, y, type(y).__name__, c))
        if float(x) == float(x) and abs(float(x)) != float('inf'):
            # NaN in every float spelling: np.float32 / np.float16 do not subclass python's float (seeded C07-u3: cmp skipping
            # as_primitive for two operands of one type left cmp(np.float32('nan'), np.float32(1.0)) == 0)
            for nanv in (float('nan'), np.nan, np.float64('nan'), np.float32('nan'), np.float16('nan'), np.longdouble('nan')):
                count += 1
                if pyg_base.cmp(x, nanv) != -1 or pyg_base.cmp(nanv, x) != 1:
                    yield Finding('violation', dict(tag='law-nantop', lines=['(cmp cmp %s F:nan)' % enc(x)]),
                                  'NaN does not rank above the finite number %r (%s)' % (x, type(x).__name__))
    # transitivity on triples around the float precision boundary (ints beyond 2**53 are outside the model: laws only)
    big = [2 ** 53, float(2 ** 53), 2 ** 53 + 1, 2 ** 53 + 2, np.int64(2 ** 53 + 1), -2 ** 53 - 1, float(-2 ** 53), (2 ** 53,), (float(2 ** 53),), (2 ** 53 + 1,)]
    for x in big:
        for y in big:
            for z in big:
                count += 1
                try:
                    cxy, cyz, cxz = pyg_base.cmp(x, y), pyg_base.cmp(y, z), pyg_base.cmp(x, z)
                except Exception as e:
                    yield Finding('violation', dict(tag='law-big', lines=[]), 'cmp raised %s on %r %r %r' % (type(e).__name__, x, y, z))
                    continue
                if cxy in (-1, 0) and cyz in (-1, 0) and cxz == 1:
                    yield Finding('violation', dict(tag='law-trans-big', lines=[], values=[repr(x), repr(y), repr(z)]),
                                  'x<=y, y<=z but cmp(x,z)=1 for x=%r y=%r z=%r' % (x, y, z))
    # numeric equality and NaN on top
    for x in [0, 1, -1, 2, 10 ** 6]:
        count += 2
        if pyg_base.cmp(x, float(x)) != 0:
            yield Finding('violation', dict(tag='law-intfloat', lines=['(cmp cmp %s %s)' % (enc(x), enc(float(x)))]), 'int != equal float')
        if pyg_base.cmp(x, float('nan')) != -1 or pyg_base.cmp(float('nan'), x + 0.5) != 1:
            yield Finding('violation', dict(tag='law-nantop', lines=['(cmp cmp %s F:nan)' % enc(x)]), 'NaN does not rank above a finite number')
    # sort: permutation + non-decreasing under the implementation's cmp
    m = 300 if tier == 'quick' else 5000
    for _ in range(m):
        k = rng.choice([2, 3, 5, 8, 12])
        pool = rand_pool(rng, laws=True)
        if rng.random() < 0.6:
            xs = [rand_scalar(rng, 0.2 if pool is SCALARS else 0.05, pool) for _ in range(k)]
        else:
            w = rng.choice([1, 2, 3])
            xs = [tuple(rand_scalar(rng, 0.15 if pool is SCALARS else 0.05, pool) for _ in range(w)) for _ in range(k)]
        count += 1
        case = dict(tag='law-sort', lines=['(cmp sort %s)' % enc(xs)])
        try:
            ys = pyg_base.sort(xs)
        except Exception as e:
            yield Finding('violation', case, 'sort raised %s' % type(e).__name__)
            continue
        if sorted(map(id, xs)) != sorted(map(id, ys)):
            yield Finding('violation', case, 'sort result is not a permutation of the input')
        elif any(pyg_base.cmp(ys[i], ys[j]) == 1 for i in range(len(ys)) for j in range(i + 1, len(ys))):
            yield Finding('violation', case, 'sort result is not non-decreasing under cmp: %s' % enc(ys))
    # dictable.sort with missing dates among the key cells (implementation only: ordered by its own cmp, ties in original order)
    for _ in range(100 if tier == 'quick' else 2000):
        k = rng.choice([2, 3, 4, 6, 9])
        w = rng.choice([1, 1, 2])
        pool = [rng.choice(DATES_NAT) for _ in range(rng.choice([2, 3, 5]))]
        keys = [tuple(rng.choice(pool) for _ in range(w)) for _ in range(k)]
        count += 1
        line = '(cmp sortidx %s)' % enc(keys)
        ir = _run_guarded(line)
        bad = statement_fails(line, ir)
        if bad:
            yield Finding('violation', dict(tag='law-dictable-sort-nat', lines=[line]), '%s; implementation %s' % (bad, ir))
    yield count


def _run_guarded(line):
    try:
        return run_line(None, proto.parse(line))
    except Exception as e:
        return proto.err_reply(e)


def _exact(v):
    from fractions import Fraction
    return Fraction(int(v)) if isinstance(v, (int, np.integer)) else Fraction(float(v))


def _is(tag):
    return lambda f: f.case.get('tag', '').endswith(tag)


def _listform_sorts_by_column_name(f):
    """K4: `d.sort([k0, k1, ...])` (ONE list argument) orders the rows by the key columns taken in the alphabetical order of their
    NAMES, not in the order given.  Recognised only when: the case is a list-form sort, its columns were named against the alphabet
    (flag 1), there are >= 2 key columns, and the implementation's answer IS the stable cmp-sort by the columns in name order."""
    import pyg_base
    lines = f.case.get('lines', [])
    if len(lines) != 1 or not lines[0].startswith('(cmp sortidxl '):
        return False
    sx = proto.parse(lines[0])
    if sx[3] != '1':
        return False
    keys = dec(sx[2])
    if not keys or len(keys[0]) < 2:
        return False
    ir = (f.impl or [''])[0]
    if not ir.startswith('ok '):
        return False
    out = dec(proto.parse(ir[3:]))
    want = sorted(range(len(keys)), key=lambda i: pyg_base.Cmp(tuple(reversed(keys[i]))))
    return list(out) == want


MATCHERS = {'listform_sorts_by_column_name': _listform_sorts_by_column_name}
