"""C05 - Calendar business-day arithmetic agrees with day-by-day counting.

Protocol (model name `cal`; days are datetime.toordinal() numbers, plain integer atoms):
  (cal new t0 t1 (L weekend*) (L holiday*) adj)   Calendar(None, holidays, weekend, t0, t1, adj) becomes the current calendar
  (cal newd ...)                                   the same, the holidays handed over as datetime.date objects (even positions) and
                                                   as datetimes with a time of day (odd positions): a holiday is a DAY
  (cal newt ...)                                   the same, the range endpoints handed over with a time of day (t0 at 09:00, t1 at 17:30;
                                                   `calendar('X', hols, t0 = datetime.now())`): a range endpoint is a DAY (defect C05-D3)
  (cal newo t0 t1 we (L holiday*) adj)            the same, t0, t1 and the holidays are INSTANTS (ordinal * 86400e6 + microseconds of the day): the caller's
                                                   objects carry any time of day (a `datetime.date` when it is 0 and the position is even); the model's
                                                   constructor `mkCalT` floors them (theorem `mkCal_floors`), as `Calendar.__init__` does with `ymd`
  (cal reg <key> hol|N weekend|N t0|N t1|N)        calendar(key, ...) through the module registry; reply describes the calendar
  (cal isb t) (cal ishol t) (cal adjust a t) (cal add a t n) (cal bump a t n) (cal bdays a x y) (cal drange x y b)
  (cal clock t)                                    Calendar.clock(t): the table index of adjust(t) (observe_at lists `clock`)
  (cal ymd n)                                      the model's Gregorian arithmetic against datetime
`a` is f|p|m or d (= None: the calendar's own convention).
"""
import datetime
from .. import proto
from ..engine import Finding, with_timeout, Timeout

ID = 'C05'
TITLE = 'Calendar business-day arithmetic agrees with day-by-day counting'
LEAN_FILES = ['Basic', 'Civil', 'Calendar', 'CalendarDriver', 'CalendarLemmas', 'CalendarEdge', 'CalendarObj', 'CivilLemmas', 'CivilGreg', 'C05']
RULE = ('distinct protocol lines (is_bday/is_holiday/adjust/add/bdays/drange/registry call on a generated calendar) on which '
        'the implementation returned a value; `new` lines and the ymd self-test are not counted')
TRUSTED = ['correspondence harness (pv.engine, pv.proto) and generators of pv.props.c05',
           'Lean driver parser/printer (PygModel/Basic.lean, CalendarDriver.lean)']
ASSUMPTIONS = ['dateutil.rrule(DAILY, dtstart, until, byweekday) enumerates every day of [t0, t1] whose weekday is listed, in increasing order',
               'datetime: toordinal/fromordinal/weekday/month agree with the closed-form Gregorian arithmetic of PygModel/Civil.lean (sampled by the ymd op)',
               'all dates handed to the calendar are midnight datetimes; trade_date / is_trading (intraday) are not modelled',
               'a weekend that covers all seven weekdays (adjust never returns) is not generated']

D = datetime.datetime
WEEKENDS = [[5, 6], [4, 5], [6], []]
TMIN, TMAX = D(1900, 1, 1).toordinal(), D(2300, 1, 1).toordinal()


def fo(n):
    return D.fromordinal(n)


def to(t):
    if not isinstance(t, datetime.datetime) or t != D(t.year, t.month, t.day):
        raise proto.Unencodable('not a midnight datetime: %r' % (t,))
    return t.toordinal()


def ilist(xs):
    return '(L' + ''.join(' %d' % x for x in xs) + ')'


# ------------------------------------------------------------------ naive reference used by the generator and the laws

def ym(n):
    """the calendar month a day number lies in: (year, month) - "t's month" of the statement"""
    t = fo(n)
    return (t.year, t.month)


class Naive(object):
    """day-by-day counting on integers - the property statement read literally.

    `inside` = every listed holiday lies in [t0, t1] (the docstring: "Calendar is restricted to operate between cal.t0 and
    cal.t1").  Then "business day" is well defined on every day (beyond the range no day is a holiday) and `up`/`down` count
    on past the range end.  A calendar with holidays listed OUTSIDE its range is outside the statement at the range ends
    (docs/notes/C05.md, "range end"): there `up`/`down` answer None beyond the range and the laws skip, the model-vs-code
    comparison still runs."""

    def __init__(self, t0, t1, weekend, hol, adj):
        self.t0, self.t1, self.weekend, self.hol, self.adj = t0, t1, set(weekend), set(hol), adj
        self.inside = all(t0 <= h <= t1 for h in hol)

    def isb(self, n):
        return (n + 6) % 7 not in self.weekend and n not in self.hol

    def up_in(self, n):
        """nearest business day on or after n inside the range, else None"""
        while n <= self.t1:
            if self.isb(n):
                return n
            n += 1
        return None

    def down_in(self, n):
        while n >= self.t0:
            if self.isb(n):
                return n
            n -= 1
        return None

    def up(self, n):
        """nearest business day on or after n (None: only beyond the range of a calendar with holidays outside its range)"""
        r = self.up_in(n)
        if r is None and self.inside:
            r = max(n, self.t1 + 1)
            while not self.isb(r):
                r += 1
        return r

    def down(self, n):
        r = self.down_in(n)
        if r is None and self.inside:
            r = min(n, self.t0 - 1)
            while not self.isb(r):
                r -= 1
        return r

    def adjust(self, n, adj=None):
        adj = adj or self.adj
        if adj == 'f':
            return self.up(n)
        if adj == 'p':
            return self.down(n)
        f = self.up(n)
        if f is None:
            return None
        if ym(f) != ym(n):      # "unless that leaves t's month": the month of a year, not a month number
            return self.down(n)
        return f

    def in_range(self, a):
        return a is not None and self.t0 <= a <= self.t1

    def nth(self, a, n):
        """the n-th business day counted from the business day a (None if it leaves the range)"""
        step = 1 if n > 0 else -1
        for _ in range(abs(n)):
            a = self.up_in(a + 1) if step > 0 else self.down_in(a - 1)
            if a is None:
                return None
        return a

    def between(self, a, b):
        return [n for n in range(a, b + 1) if self.isb(n)]


# ------------------------------------------------------------------ generator

def rand_calendar(rng, tier, kind='std'):
    """kind: 'std' (holidays inside the range, densities 0-40%, runs of 1-6 days across month ends and weekends),
    'longrun' (one holiday run of 12-14 months: "holiday sets of any density"; the following business day then lies in the
    same month NUMBER of the next year), 'outside' (holiday runs straddling / beyond the range ends: outside the statement,
    compared model-vs-code only)"""
    if kind == 'longrun':
        return longrun_calendar(rng)
    y = rng.choice([1900, 1950, 1999, 2000, 2019, 2020, 2024, 2100, 2296]) if rng.random() < 0.5 else rng.randrange(1900, 2296)
    t0 = D(y, rng.randrange(1, 13), rng.randrange(1, 29)).toordinal()
    t1 = min(t0 + rng.randrange(2 * 365, 4 * 365), TMAX)
    weekend = rng.choice(WEEKENDS)
    adj = rng.choice(['f', 'p', 'm'])
    density = rng.choice([0.0, 0.02, 0.05, 0.1, 0.25, 0.4])
    hol = set(n for n in range(t0, t1 + 1) if rng.random() < density)
    # runs of 1..6 holidays straddling month ends and weekends
    for _ in range(rng.choice([0, 2, 6, 12])):
        n = rng.randrange(t0, t1 + 1)
        kind = rng.random()
        if kind < 0.45:      # end of that month
            t = fo(n)
            first_next = D(t.year + (t.month == 12), t.month % 12 + 1, 1).toordinal()
            start = first_next - rng.randrange(0, 5)
        elif kind < 0.8:     # around a saturday
            start = n - ((n + 6) % 7) + 5 - rng.randrange(0, 4)
        else:
            start = n
        for k in range(rng.randrange(1, 7)):
            if t0 <= start + k <= t1:
                hol.add(start + k)
    if rng.random() < 0.15:  # a holiday run at the very start / end of the range
        for k in range(rng.randrange(1, 6)):
            hol.add(t0 + k if rng.random() < 0.5 else t1 - k)
    if kind == 'outside':
        for end in rng.choice([(1,), (0,), (0, 1)]):
            lo, hi = rng.randrange(0, 4), rng.randrange(1, 6)      # run [edge - lo, edge + hi] on the outer side
            for k in range(-lo, hi + 1):
                hol.add(t1 + k if end else t0 - k)
        if rng.random() < 0.5:
            hol.add(t1 + rng.randrange(1, 12))
            hol.add(t0 - rng.randrange(1, 12))
    return t0, t1, weekend, sorted(hol), adj


def longrun_calendar(rng):
    """a 3-4 year calendar with ONE holiday run of 366..430 consecutive days (plus a few isolated holidays), small weekend"""
    y = rng.choice([1999, 2000, 2019, 2020, 2099]) if rng.random() < 0.5 else rng.randrange(1900, 2290)
    t0 = D(y, rng.randrange(1, 13), rng.randrange(1, 29)).toordinal()
    t1 = t0 + rng.randrange(3 * 365, 4 * 365)
    weekend = rng.choice(WEEKENDS)
    adj = rng.choice(['m', 'm', 'f', 'p'])
    start = t0 + rng.randrange(30, 500)
    hol = set(range(start, start + rng.randrange(366, 431)))
    hol.update(rng.randrange(t0, t1 + 1) for _ in range(rng.choice([0, 3, 10])))
    return t0, t1, weekend, sorted(hol), adj


def long_runs(hol, least=300):
    """(first, last) of every run of at least `least` consecutive holidays"""
    out, i, hs = [], 0, sorted(hol)
    while i < len(hs):
        j = i
        while j + 1 < len(hs) and hs[j + 1] == hs[j] + 1:
            j += 1
        if j - i + 1 >= least:
            out.append((hs[i], hs[j]))
        i = j + 1
    return out


def interesting_days(rng, cal, count):
    t0, t1, weekend, hol, adj = cal
    days = set()
    for k in range(0, 6):
        days.add(t0 + k)
        days.add(t1 - k)
    runs = long_runs(hol)
    for a, b in runs:     # a year before the first day after a long run: same month number, other year
        for k in range(0, 5):
            days.update([b + 1 - 365 - 5 * k, b + 1 - 366 + 2 * k])
        days.update([a - 1, a, a + 1, b - 1, b, b + 1, (a + b) // 2])
    must = set(d for d in days if t0 <= d <= t1)     # always kept
    # (the implementation walks a long run day by day on every call: its interior is visited through `must` only)
    hs = [h for h in hol if not any(a < h < b for a, b in runs)]
    rng.shuffle(hs)
    for h in hs[:count // 4]:
        days.update([h - 1, h, h + 1])
    for _ in range(count // 6):   # month ends
        t = fo(rng.randrange(t0, t1 + 1))
        first = D(t.year, t.month, 1).toordinal()
        days.update([first - 1, first])
    while len(days) < count:
        days.add(rng.randrange(t0, t1 + 1))
    days = sorted(d for d in days if t0 <= d <= t1 and d not in must)
    rng.shuffle(days)
    return sorted(list(must) + days[:max(0, count - len(must))])


KINDS = {3: 'longrun', 7: 'outside', 17: 'outside', 11: 'dates', 13: 'tod', 9: 'objects', 19: 'objects'}    # calendar index mod 20 -> class (else 'std')


def new_line(cal, scalar_weekend=False, dates=False, tod=False):
    t0, t1, weekend, hol, adj = cal
    we = '%d' % weekend[0] if scalar_weekend and len(weekend) == 1 else ilist(weekend)
    return '(cal %s %d %d %s %s %s)' % ('newd' if dates else 'newt' if tod else 'new', t0, t1, we, ilist(hol), adj)


DAYUS = 86400 * 10 ** 6
TODS = [0, 1, 9 * 3600 * 10 ** 6, 34200 * 10 ** 6, DAYUS - 1]


def newo_line(rng, cal):
    """a `newo` line: every holiday and both range endpoints with a time of day of their own (now and then the same day twice)"""
    t0, t1, weekend, hol, adj = cal
    tod = lambda: rng.choice(TODS) if rng.random() < 0.7 else rng.randrange(DAYUS)
    hs = [h * DAYUS + tod() for h in hol]
    if hol and rng.random() < 0.5:
        hs.insert(rng.randrange(len(hs) + 1), rng.choice(hol) * DAYUS + tod())
    return '(cal newo %d %d %s %s %s)' % (t0 * DAYUS + tod(), t1 * DAYUS + tod(), ilist(weekend), ilist(hs), adj)


def instant(us, date_if_midnight=False):
    """the caller's object for an instant: a datetime with that time of day (a datetime.date when asked and it is midnight)"""
    d, r = divmod(us, DAYUS)
    return fo(d).date() if date_if_midnight and r == 0 else fo(d) + datetime.timedelta(microseconds=r)


def newo_objects(args):
    t0, t1 = instant(int(args[0])), instant(int(args[1]))
    hol = [instant(int(x), i % 2 == 0) for i, x in enumerate(args[3][1:])]
    return t0, t1, hol


def tod_range(t0, t1):
    """the range endpoints of a `newt` line as the caller's objects: datetimes with a time of day"""
    return fo(t0) + datetime.timedelta(hours=9), fo(t1) + datetime.timedelta(hours=17, minutes=30)


def as_dates(hol):
    """the holidays of a `newd` line as the caller's objects: datetime.date / datetime with a time of day"""
    return [fo(h).date() if i % 2 == 0 else fo(h) + datetime.timedelta(hours=9, minutes=30) for i, h in enumerate(hol)]


# spellings of a convention: the code takes `adj.lower()` and looks at its first letter (_drange.py:542)
SPELLED = ['F', 'P', 'M', 'following', 'Following', 'prev', 'Previous', 'modified', 'MF', 'mod_following', 'p', 'f']


def np_kinds(n):
    """the numpy integer types that hold n (|n| <= 40): what `is_int` admits - signed of every width, np.longlong, unsigned for n >= 0"""
    return ['int8', 'int8', 'int16', 'int32', 'int64', 'longlong'] + (['uint8', 'uint8', 'uint16', 'uint32', 'uint64', 'ulonglong'] if n >= 0 else [])


def generate(rng, tier):
    ncal, ndays = (80, 120) if tier == 'quick' else (400, 400)
    # Gregorian self-test of the model
    lines = ['(cal ymd %d)' % n for n in [TMIN, TMAX, D(2000, 2, 29).toordinal(), D(2100, 2, 28).toordinal(), D(2100, 3, 1).toordinal()]]
    lines += ['(cal ymd %d)' % rng.randrange(TMIN, TMAX + 1) for _ in range(300 if tier == 'quick' else 20000)]
    yield dict(tag='civil', lines=lines)
    for ci in range(ncal):
        kind = KINDS.get(ci % 20, 'std')
        cal = rand_calendar(rng, tier, 'std' if kind in ('dates', 'tod', 'objects') else kind)
        t0, t1, weekend, hol, adj = cal
        nv = Naive(*cal)
        dens = len(hol) / float(t1 - t0 + 1)
        tag = 'cal we=%s adj=%s hol=%s' % (''.join(map(str, weekend)) or '-', adj,
                                            '0' if not hol else '<5%' if dens < 0.05 else '<15%' if dens < 0.15 else '>=15%')
        if kind != 'std':
            tag = 'cal %s we=%s adj=%s' % (kind, ''.join(map(str, weekend)) or '-', adj)
        lines = [new_line(cal, scalar_weekend=(ci % 2 == 0), dates=(kind == 'dates'), tod=(kind == 'tod'))]
        if kind == 'objects':
            lines = [newo_line(rng, cal)]
        for t in interesting_days(rng, cal, ndays):
            lines.append('(cal isb %d)' % t)
            lines.append('(cal ishol %d)' % t)
            for a in 'fpmd':
                lines.append('(cal adjust %s %d)' % (a, t))
            lines.append('(cal adjust %s %d)' % (rng.choice(SPELLED), t))
            ns = [1, -1, 2, -2] + [rng.randrange(-40, 41) for _ in range(3)]
            a0 = nv.adjust(t)
            if a0 is not None and nv.isb(a0):
                ns.append(0)
            for n in ns:
                if n == 0 and not (a0 is not None and nv.isb(a0)):
                    continue
                lines.append('(cal add d %d %d)' % (t, n))
            # the day count held by a numpy integer of any width (an integer read from an array; review5 w3 §2-3, defect C05-D4:
            # `self.dt2int[t] + np.uint8(2)` raised OverflowError once the table index exceeds the width)
            for n in [rng.choice([1, -1]), rng.choice([2, -2, 2, 3, -3]), rng.randrange(-40, 41)]:
                if n != 0:
                    lines.append('(cal addnp %s %d %s %d)' % (rng.choice('dfpm'), t, rng.choice(np_kinds(n)), n))
            a = rng.choice('fpm')
            n = rng.choice([1, -1, 2, -2, 5, -5, rng.randrange(-40, 41)])
            aa = nv.adjust(t, a)
            if n != 0 or (aa is not None and nv.isb(aa)):
                lines.append('(cal add %s %d %d)' % (a, t, n))
                lines.append('(cal bump %s %d %d)' % (a, t, n))
            u = min(max(t + rng.randrange(-60, 61), t0), t1)
            lines.append('(cal bdays %s %d %d)' % (rng.choice('dfpm'), t, u))
            lines.append('(cal clock %d)' % t)
            u = min(t + rng.choice([0, 1, 2, 5, 9, 20, 40]), t1)
            r = rng.random()
            if r < 0.7:
                lines.append('(cal drange %d %d 1)' % (t, u))
            elif r < 0.77:
                lines.append('(cal drange %d %d -1)' % (u, t))
            elif r < 0.82:      # k in {-2, -3, -5} (round k3; review t3 item 6): every k-th business day in reverse
                lines.append('(cal drange %d %d %d)' % (u, t, rng.choice([-2, -3, -5])))
            elif r < 0.9:
                lines.append('(cal drange %d %d %d)' % (t, u, rng.choice([2, 3, 5])))
            else:
                lines.append('(cal drange %d %d 1)' % (u, t))   # reversed endpoints: empty list
        yield dict(tag=tag, lines=lines)
    # exhaustive sweeps of small calendars: every day of the range x every n in [-40, 40]
    for ci in range(1 if tier == 'quick' else 12):
        t0 = D(rng.randrange(1950, 2100), rng.randrange(1, 13), rng.randrange(1, 29)).toordinal()
        t1 = t0 + (70 if tier == 'quick' else rng.randrange(90, 200))
        weekend, adj = WEEKENDS[ci % 4], 'fpm'[ci % 3]
        hol = sorted(set(n for n in range(t0, t1 + 1) if rng.random() < rng.choice([0.05, 0.2, 0.4])))
        cal = (t0, t1, weekend, hol, adj)
        nv = Naive(*cal)
        lines = [new_line(cal)]
        for t in range(t0, t1 + 1):
            a0 = nv.adjust(t)
            for n in range(-40, 41):
                if n == 0 and not (a0 is not None and nv.isb(a0)):
                    continue
                lines.append('(cal add d %d %d)' % (t, n))
        yield dict(tag='exhaustive we=%s adj=%s' % (''.join(map(str, weekend)) or '-', adj), lines=lines)
    # registry histories
    for i in range(30 if tier == 'quick' else 600):
        yield registry_case(rng, full=(i % 3 == 0))


def registry_case(rng, full=False):
    """a history of calendar(key, ...) calls.  Every registration is followed by look-ups that need the lazily built
    table of THAT calendar object (add with |n| = 2, bdays, drange) next to the holidays just registered, not only by
    is_bday: a table kept per key across re-registrations would answer from the previous holidays.  The default range
    1900-2300 costs 0.5 s per table in the implementation, so full-range calendars get these ops only when `full`
    (every third history), once."""
    keys = ['41', '42', '43']    # hex of 'A','B','C'
    lines = []
    t0 = D(rng.randrange(1990, 2030), 1, 1).toordinal()
    full_range_tables = 0
    for _ in range(rng.randrange(3, 10)):
        k = rng.choice(keys)
        r = rng.random()
        hs, bounded = [], False
        if r < 0.35:
            lines.append('(cal reg %s N N N N)' % k)
        else:
            hs = sorted(set(t0 + rng.randrange(0, 700) for _ in range(rng.choice([0, 0, 1, 3, 8]))))
            if hs and rng.random() < 0.5:     # a short run, so that the neighbours differ between registrations
                hs = sorted(set(hs + [hs[0] + 1, hs[0] + 2]))
            hol = 'N' if rng.random() < 0.15 else ilist(hs)
            we = 'N' if rng.random() < 0.6 else ilist(rng.choice(WEEKENDS))     # incl. calendar(key, weekend=[]): no weekend at all (round k3)
            a = 'N' if rng.random() < 0.2 else str(t0)
            b = 'N' if rng.random() < 0.2 else str(t0 + 730)
            if rng.random() < 0.4:     # the usual call: calendar(key, holidays) and nothing else
                we = a = b = 'N'
            if hol == 'N' and we == 'N' and a == 'N' and b == 'N':
                hol = '(L)'
            bounded = a != 'N' and b != 'N'
            lines.append('(cal reg %s %s %s %s %s)' % (k, hol, we, a, b))
        for _ in range(rng.choice([0, 1, 2])):
            lines.append('(cal isb %d)' % (t0 + rng.randrange(0, 700)))
        table = bounded or (full and full_range_tables < 1 and rng.random() < 0.4)
        if table:
            full_range_tables += 0 if bounded else 1
            near = [h + d for h in (hs or [t0 + rng.randrange(5, 690)]) for d in (-2, -1, 0, 1)]
            for t in rng.sample(near, min(len(near), 3)):
                t = min(max(t, t0 + 3), t0 + 720)
                lines.append('(cal add d %d %d)' % (t, rng.choice([2, -2, 3])))
                lines.append('(cal add d %d %d)' % (t, rng.choice([1, -1])))
            t = min(max(rng.choice(near), t0 + 3), t0 + 700)
            lines.append('(cal bdays d %d %d)' % (t - 3, t + rng.randrange(0, 15)))
            lines.append('(cal drange %d %d 1)' % (t - 3, t + rng.randrange(0, 9)))
            lines.append('(cal clock %d)' % t)      # the object's table through clock (round k3: registry_last_objects covers it)
            if rng.random() < 0.5:
                lines.append('(cal drange %d %d %d)' % (t + rng.randrange(0, 9), t - 3, rng.choice([-1, -2, -3])))
    return dict(tag='registry', lines=lines)


# ------------------------------------------------------------------ implementation runner

def new_state():
    from pyg_base import _drange
    _drange.calendars.clear()
    return dict(cal=None)


def reg_args(args):
    """(key, holidays, weekend, t0, t1) of a `reg` line as python values"""
    key = proto.unhex(args[0])
    hol = None if args[1] == 'N' else [fo(int(x)) for x in args[1][1:]]
    we = None if args[2] == 'N' else [int(x) for x in args[2][1:]]
    t0 = None if args[3] == 'N' else fo(int(args[3]))
    t1 = None if args[4] == 'N' else fo(int(args[4]))
    return key, hol, we, t0, t1


def _adj(a):
    return None if a == 'd' else a


def run_line(state, sx):
    from pyg_base._drange import Calendar, calendar
    op, args = sx[1], sx[2:]
    if op == 'ymd':
        t = fo(int(args[0]))
        return 'ok (T I:%d I:%d I:%d I:%d)' % (t.year, t.month, t.day, t.weekday())
    if op == 'newo':
        T0, T1, hol = newo_objects(args)
        state['cal'] = Calendar(None, holidays=hol, weekend=[int(x) for x in args[2][1:]], t0=T0, t1=T1, adj=args[4])
        return 'ok N'
    if op in ('new', 'newd', 'newt'):
        t0, t1 = int(args[0]), int(args[1])
        weekend = [int(x) for x in args[2][1:]] if isinstance(args[2], list) else int(args[2])   # a scalar: weekend = 6
        hol = [fo(int(x)) for x in args[3][1:]]
        if op == 'newd':
            hol = as_dates([int(x) for x in args[3][1:]])
        T0, T1 = tod_range(t0, t1) if op == 'newt' else (fo(t0), fo(t1))
        state['cal'] = Calendar(None, holidays=hol, weekend=weekend, t0=T0, t1=T1, adj=args[4])
        return 'ok N'
    if op == 'reg':
        c = calendar(*reg_args(args))
        state['cal'] = c
        return 'ok (T %s %s I:%d I:%d)' % (ilist_I(sorted(to(h) for h in c.holidays)), ilist_I(list(c.weekend)), to(c.t0), to(c.t1))
    c = state['cal']
    if c is None:
        return 'bad-op'       # no calendar yet (only in a shrunk history): the model says the same
    if op == 'isb':
        return 'ok ' + proto.enc(bool(c.is_bday(fo(int(args[0])))))
    if op == 'ishol':
        return 'ok ' + proto.enc(bool(c.is_holiday(fo(int(args[0])))))
    if op == 'adjust':
        return 'ok I:%d' % to(c.adjust(fo(int(args[1])), _adj(args[0])))
    if op == 'addnp':
        import numpy as np
        return 'ok I:%d' % to(c.add(fo(int(args[1])), getattr(np, args[2])(int(args[3])), adj=_adj(args[0])))
    if op in ('add', 'bump') and int(args[2]) == 0 and c.is_holiday(c.adjust(fo(int(args[1])), _adj(args[0]))):
        return 'err Other'    # `while self.is_holiday(res): res = res + 0 * DAY` would never return (the model says the same)
    if op == 'add':
        return 'ok I:%d' % to(c.add(fo(int(args[1])), int(args[2]), adj=_adj(args[0])))
    if op == 'bump':
        return 'ok I:%d' % to(c.dt_bump(fo(int(args[1])), '%db' % int(args[2]), adj=_adj(args[0])))
    if op == 'clock':
        return 'ok I:%d' % c.clock(fo(int(args[0])))
    if op == 'bdays':
        return 'ok I:%d' % c.bdays(fo(int(args[1])), fo(int(args[2])), adj=_adj(args[0]))
    if op == 'drange':
        return 'ok ' + ilist_I([to(t) for t in c.drange(fo(int(args[0])), fo(int(args[1])), '%db' % int(args[2]))])
    return 'bad-op'


def ilist_I(xs):
    return '(L' + ''.join(' I:%d' % x for x in xs) + ')'


def compare(case, i, line, ir, mr):
    if line.startswith('(cal reg '):
        # holidays come out of a dict / the model's list: compare as sorted sets
        try:
            a, b = proto.parse(ir.split(None, 1)[1]), proto.parse(mr.split(None, 1)[1])
            a[1] = ['L'] + sorted(a[1][1:])
            b[1] = ['L'] + sorted(set(b[1][1:]))
            if a == b:
                return None
        except Exception:
            pass
        return 'calendar fetched by key: implementation %s, model %s' % (ir[:200], mr[:200])
    if proto.same_reply(ir, mr):
        return None
    if line.startswith('(cal ymd'):
        # not a mere divergence: every theorem about `adjust 'm'` (month of a year) and every day number <-> date link of
        # this property reaches the code through Civil = datetime, an obligation of the proof
        return ('obligation "PygModel/Civil.lean agrees with datetime" fails: Gregorian arithmetic of the model differs '
                'from datetime: %s vs %s' % (ir, mr))
    return 'implementation %s, model %s' % (ir[:300], mr[:300])


def nontrivial(line, reply):
    return reply.startswith('ok') and not line.startswith('(cal new') and not line.startswith('(cal ymd')    # ('(cal newd' too)


# ------------------------------------------------------------------ laws: the statement, clause by clause, on the implementation

def laws(rng, tier, ctx):
    """stops after 30 findings: a broken implementation need not be explored to the end"""
    nf, count = 0, 0
    for x in _laws(rng, tier, ctx):
        if isinstance(x, Finding):
            nf += 1
            yield x
            if nf >= 30:
                count = max(count, nf)
                break
        else:
            count = x
    yield count


def _laws(rng, tier, ctx):
    from pyg_base import _drange
    from pyg_base._drange import Calendar, calendar
    count = 0
    ncal, ndays = (25, 40) if tier == 'quick' else (250, 120)
    for li in range(ncal):
        cal = rand_calendar(rng, tier, {2: 'longrun', 5: 'outside'}.get(li % 10, 'std'))
        t0, t1, weekend, hol, adj = cal
        nv = Naive(*cal)
        dates = li % 10 == 8     # holidays as datetime.date / with a time of day
        tod = li % 10 == 6       # range endpoints with a time of day
        T0, T1 = tod_range(t0, t1) if tod else (fo(t0), fo(t1))
        if li % 10 == 4:         # everything as objects with times of day of their own (`newo`)
            nl = newo_line(rng, cal)
            T0, T1, H = newo_objects(proto.parse(nl)[2:])
            c = Calendar(None, holidays=H, weekend=list(weekend), t0=T0, t1=T1, adj=adj)
        else:
            c = Calendar(None, holidays=as_dates(hol) if dates else [fo(h) for h in hol], weekend=list(weekend), t0=T0, t1=T1, adj=adj)
            nl = new_line(cal, dates=dates, tod=tod)

        def bad(tag, lines, msg):
            return Finding('violation', dict(tag='law-' + tag, lines=[nl] + lines), msg)

        def call(fn):
            try:
                return with_timeout(fn, 2)
            except Timeout:
                return 'no result after 2 s'
            except Exception as e:
                return 'raise ' + type(e).__name__

        # the lazily built table against day-by-day counting (the assumption on dateutil.rrule(byweekday=...)): int2dt is
        # the increasing list of ALL business days of [t0, t1], dt2int its inverse
        count += 1
        tb = call(lambda: c._populate())
        want = [fo(x) for x in nv.between(t0, t1)]
        if isinstance(tb, str):
            yield bad('table', [], '_populate: %s' % tb)
        else:
            i2d, d2i = tb['int2dt'], tb['dt2int']
            if sorted(i2d.keys()) != list(range(len(want))) or [i2d[i] for i in range(len(i2d))] != want:
                yield bad('table', ['(cal drange %d %d 1)' % (t0, t1)], 'int2dt is not the increasing list of the business days of [t0, t1] (%d entries, counting gives %d)' % (len(i2d), len(want)))
            elif len(d2i) != len(want) or any(d2i.get(d) != i for i, d in enumerate(want)):
                yield bad('table', ['(cal drange %d %d 1)' % (t0, t1)], 'dt2int is not the inverse of int2dt')
        for t in interesting_days(rng, cal, ndays):
            T = fo(t)
            count += 1
            b = call(lambda: bool(c.is_bday(T)))
            h = call(lambda: bool(c.is_holiday(T)))
            if b != nv.isb(t) or h != (not nv.isb(t)):
                yield bad('isb', ['(cal isb %d)' % t, '(cal ishol %d)' % t], 'is_bday=%s is_holiday=%s but weekend/holiday test says business=%s' % (b, h, nv.isb(t)))
            for a in 'fpm':
                want = nv.adjust(t, a)
                if want is None:
                    continue
                count += 1
                got = call(lambda: c.adjust(T, a))
                if got != fo(want):
                    yield bad('adjust', ['(cal adjust %s %d)' % (a, t)], "adjust(%s,'%s') = %s, nearest business day by counting is %s" % (T, a, got, fo(want)))
            # the single-step path returns THE next / previous business day counted from adjust(t) - for every t, also when that day lies
            # beyond the range end (no guard: theorems add_one_next / add_one_prev); "business day" by the weekend/holiday test itself
            s0 = call(lambda: c.adjust(T))
            if isinstance(s0, datetime.datetime):
                for sgn in (1, -1):
                    count += 1
                    r = call(lambda: c.add(T, sgn))
                    if not isinstance(r, datetime.datetime) or r != D(r.year, r.month, r.day):
                        yield bad('add-one', ['(cal add d %d %d)' % (t, sgn)], 'add(%s, %d) = %s' % (T, sgn, r))
                        continue
                    a, b = to(s0), to(r)
                    if not (nv.isb(b) and (b - a) * sgn > 0 and not any(nv.isb(x) for x in range(min(a, b) + 1, max(a, b)))):
                        yield bad('add-one', ['(cal add d %d %d)' % (t, sgn)], 'add(%s, %d) = %s is not the %s business day counted from adjust(t) = %s'
                                  % (T, sgn, r, 'next' if sgn > 0 else 'previous', s0))
            a0 = nv.adjust(t)
            if not nv.in_range(a0) or not nv.isb(a0):
                continue
            for n in [1, -1, 2, -2, 0] + [rng.randrange(-40, 41) for _ in range(3)]:
                want = nv.nth(a0, n)
                if want is None:
                    continue
                count += 1
                got = call(lambda: c.add(T, n))
                if got != fo(want):
                    yield bad('add-nth', ['(cal add d %d %d)' % (t, n)], 'add(%s, %d) = %s, the %d-th business day from adjust(t) is %s' % (T, n, got, n, fo(want)))
                    continue
                if n != 0 and rng.random() < 0.3:      # the same n held by a numpy integer (defect C05-D4)
                    import numpy as np
                    k = rng.choice(np_kinds(n))
                    count += 1
                    gotk = call(lambda: c.add(T, getattr(np, k)(n)))
                    if gotk != fo(want):
                        yield bad('add-nth-np', ['(cal addnp d %d %s %d)' % (t, k, n)], 'add(%s, np.%s(%d)) = %s, the %d-th business day from adjust(t) is %s' % (T, k, n, gotk, n, fo(want)))
                ck = call(lambda: c.clock(got) - c.clock(T))     # clock = the position in the business-day table: it advances by n
                if ck != n:
                    yield bad('clock', ['(cal add d %d %d)' % (t, n), '(cal clock %d)' % t, '(cal clock %d)' % want], 'clock(add(t, %d)) - clock(t) = %s' % (n, ck))
                k = call(lambda: c.bdays(T, got))
                if k != n:
                    yield bad('bdays-add', ['(cal add d %d %d)' % (t, n), '(cal bdays d %d %d)' % (t, want)], 'bdays(t, add(t, %d)) = %s' % (n, k))
                if nv.isb(t):
                    back = call(lambda: c.add(got, -n))
                    if back != T:
                        yield bad('add-inverse', ['(cal add d %d %d)' % (t, n), '(cal add d %d %d)' % (want, -n)], 'add(add(t,%d),%d) = %s for the business day t = %s' % (n, -n, back, T))
            # single-step path versus indexed path, both directions
            for s in (1, -1):
                if nv.nth(a0, 2 * s) is None:
                    continue
                count += 1
                one = call(lambda: c.add(c.add(T, s), s))
                two = call(lambda: c.add(T, 2 * s))
                if one != two:
                    yield bad('paths', ['(cal add d %d %d)' % (t, s), '(cal add d %d %d)' % (t, 2 * s)], 'add(add(t,%d),%d) = %s but add(t,%d) = %s' % (s, s, one, 2 * s, two))
            # string bumps with b-periods (the anchored mechanism Calendar.dt_bump): a compound tenor applies its parts left to right, the
            # b-parts through add(); '+0b' / '-0b' adjust forward / backward first.  Expected values by day-by-day counting (review s3 §C05.4)
            import pyg_base
            for tenor, pre, n in (('1m%db', '1m', rng.choice([1, -1, 2, -3, 5])), ('%db1w', None, rng.choice([1, -1, 2, -2])),
                                  ('+0b', 'f', 0), ('-0b', 'p', 0), ('+0B', 'f', 0)):
                if pre in ('f', 'p'):
                    start, bump = nv.adjust(t, pre), tenor
                    want = None if start is None or not nv.in_range(start) else nv.adjust(start)
                elif pre is None:
                    bump = tenor % n
                    mid = nv.nth(a0, n)
                    want = None if mid is None else to(pyg_base.dt_bump(fo(mid), '1w'))
                else:
                    bump = tenor % n
                    moved = to(pyg_base.dt_bump(T, pre))
                    am = nv.adjust(moved) if t0 <= moved <= t1 else None
                    want = None if am is None or not nv.in_range(am) or not nv.isb(am) else nv.nth(am, n)
                if want is None:
                    continue
                count += 1
                got = call(lambda: c.dt_bump(T, bump))
                if got != fo(want):
                    yield bad('dt_bump-str', ['(cal add d %d %d)' % (t, n)], "Calendar.dt_bump(%s, '%s') = %s, day-by-day counting gives %s" % (T, bump, got, fo(want)))
            # drange '1b'
            u = min(t + rng.choice([0, 1, 3, 7, 15, 45]), t1)
            a1 = nv.adjust(u)
            if nv.in_range(a1) and nv.isb(a1):
                count += 1
                got = call(lambda: c.drange(T, fo(u), '1b'))
                want = [fo(x) for x in nv.between(a0, a1)]
                if got != want:
                    yield bad('drange', ['(cal drange %d %d 1)' % (t, u)], "drange(t0,t1,'1b') is not the list of business days between the adjusted endpoints")
    # registry: a calendar fetched by key reflects the holidays it was last registered with
    for _ in range(40 if tier == 'quick' else 400):
        _drange.calendars.clear()
        case = registry_case(rng)
        last = {}
        for line in case['lines']:
            sx = proto.parse(line)
            if sx[1] != 'reg':
                continue
            count += 1
            key = sx[2]
            registering = any(x != 'N' for x in sx[3:7]) or key not in last
            if registering:
                last[key] = set() if sx[3] == 'N' else set(int(x) for x in sx[3][1:])
            try:
                r = calendar(*reg_args(sx[2:]))
            except Exception as e:
                r = 'raise ' + type(e).__name__
            got = r if isinstance(r, str) else set(to(h) for h in r.holidays)
            if got != last[key]:
                yield Finding('violation', dict(tag='law-registry', lines=case['lines'][:case['lines'].index(line) + 1]),
                              'calendar(%r) holds holidays %s, last registered with %s' % (proto.unhex(key), sorted(got) if not isinstance(got, str) else got, sorted(last[key])))
                break
    _drange.calendars.clear()
    yield count


def shrink(case, still_fails):
    """a case is [new/reg ..., op, op, ...]: bisect for the first failing line, keep only the set-up lines and that
    line, then delta-debug the holiday list of the `new` line"""
    lines = case['lines']
    if not lines[0].startswith('(cal new'):
        # registry history: drop lines from the end / the middle while it still fails
        best = case
        improved = True
        while improved:
            improved = False
            for i in range(len(best['lines']) - 1, -1, -1):
                cand = dict(best, lines=best['lines'][:i] + best['lines'][i + 1:])
                if cand['lines'] and still_fails(cand):
                    best, improved = cand, True
                    break
        return best
    lo, hi = 1, len(lines)          # smallest prefix length that fails
    while lo < hi:
        mid = (lo + hi) // 2
        if still_fails(dict(case, lines=lines[:mid])):
            hi = mid
        else:
            lo = mid + 1
    best = dict(case, lines=[lines[0], lines[lo - 1]]) if lo > 1 else case
    if not still_fails(best):
        best = dict(case, lines=lines[:lo])
        return best
    sx = proto.parse(best['lines'][0])
    hol = sx[5][1:]
    chunk = max(1, len(hol) // 2)
    while chunk >= 1 and hol:
        i = 0
        while i < len(hol):
            cand_h = hol[:i] + hol[i + chunk:]
            sx2 = sx[:5] + [['L'] + cand_h] + sx[6:]
            cand = dict(best, lines=[proto.render(sx2)] + best['lines'][1:])
            if still_fails(cand):
                hol, best = cand_h, cand
            else:
                i += chunk
        chunk //= 2
    return best


MATCHERS = {}
