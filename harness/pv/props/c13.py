"""C13 - df_slice keeps exactly the rows in the interval; stitching switches at bounds; df_unslice inverts.

Series live on a 12-point index (every 6 hours over 3 days) for single slices, so that dates and times of day
fall before / on / between / after index points; on whole days 0..11 for stitching.  Values are small ints.
"""
import datetime, itertools
import numpy as np
import pandas as pd
from .. import proto
from ..proto import enc
from ..engine import Finding

ID = 'C13'
TITLE = 'df_slice keeps exactly the rows in the interval; stitching switches at bounds'
STATEMENT = ('df_slice(ts, lb, ub, openclose) = the rows with lb </<= t and t </<= ub per the two brackets (time-of-day bounds compare '
             'the time of day, start > end wraps); stitching takes (ub[i-1], ub[i]] from series i (column j from series i+j), each '
             'timestamp once; df_unslice then stitching again reproduces the frame')
LEAN_FILES = ['Basic', 'TSBasic', 'Slice', 'SliceDriver', 'DfSliceLemmas', 'DfSliceNaLemmas', 'DfSliceBcastLemmas', 'DfSliceFrameLemmas', 'DfSliceOpenLemmas', 'BitempLemmas', 'C13']
RULE = ('distinct protocol lines (a single slice, a stitching call or an unslice round trip) on which the implementation returned '
        'a non-empty series / frame')
TRUSTED = ['correspondence harness (pv.engine, pv.proto) and generators of pv.props.c13',
           'Lean driver parser/printer (PygModel/Basic.lean, TSBasic.lean, SliceDriver.lean)']
ASSUMPTIONS = ['pandas: boolean-mask selection keeps the rows whose mask is True, in order; the label slice df[lb:ub] on a non-decreasing DatetimeIndex '
               'runs from the first row at or after lb to the last row at or before ub (model: labelSlice, proved equal to the masks there); with two '
               'times of day it is indexer_between_time (both ends included), with one it raises and the masks are used; '
               'concat(axis=1) is an outer join on the union index; concat(axis=0) pads missing columns with NaN; sort_index is a stable sort',
               'single slices: any row order (increasing, decreasing, shuffled, a repeated stamp); stitching: series with strictly increasing '
               'duplicate-free indexes; list members are Series, DataFrames (columns 0..w-1) or integer / NaN scalars; bound lists hold dates or '
               'times of day (a scalar beside a time-of-day list raises in the code: only n = 1 is generated, error kind Other)',
               'a Series and a one-column DataFrame with the same rows are not distinguished',
               'declared, not generated (review t4): stamps with nanoseconds (`index.time` drops them: 06:00:00.000000001 passes `<= 06:00`; the model counts microseconds); an empty '
               'member spelled `pd.Series([], dtype=float)` (RangeIndex; probed: stitches like the DatetimeIndex-empty one that IS generated); a bound list that is neither non-decreasing '
               'nor non-increasing (df_unslice raises ValueError through `_is_non_decreasing` since e2719c8, the model reverses - outside the quantifier "increasing or decreasing"). '
               'ONE series with ONE bound is generated (stitch-*, roundtrip-* with m = 1) and proved (stitch_single_eq / _iff)',
               'bound lists with an UNBOUNDED end (round k4): a None as the last upper / first lower bound is modelled (directionO / normaliseO / stitchO / unsliceO) and generated (stitch-*+open-end, roundtrip-open-end*); an INNER None raises TypeError in code and model; [None, d] (two bounds, does not spell a direction) and None beside times of day are not generated. Theorems unslice_restitch_open / _open_decreasing cover the ub-only spellings [.., None] and [None, ..]; None in lower-bound lists / both lists is sampled']

D0 = datetime.datetime(2020, 1, 1)
H = datetime.timedelta(hours=1)
DAYTD = datetime.timedelta(days=1)
US_H = 3600 * 10 ** 6
BR = ['()', '(]', '[)', '[]']


# ---------------------------------------------------------------- encoding helpers

def enc_ts(pairs):
    return '(L' + ''.join(' (T %s %s)' % (enc(t), 'F:nan' if v is None else 'I:%d' % v) for t, v in pairs) + ')'


def enc_bound(b):
    if b is None:
        return 'N'
    if isinstance(b, datetime.time):
        return '(L I:%d)' % ((b.hour * 3600 + b.minute * 60 + b.second) * 10 ** 6 + b.microsecond)
    return enc(b)


def enc_dates(ds):
    return 'N' if ds is None else '(L' + ''.join(' ' + ('N' if d is None else enc(d)) for d in ds) + ')'


OMIT = 'omit'      # openclose not passed at all: df_slice's own default '(]'


def enc_oc(oc):
    return 'N' if oc is None else '(L)' if oc == OMIT else enc(oc)


def call_slice(df, lb, ub, ocx, **kw):
    """df_slice with openclose as on the wire: (L) = argument omitted"""
    from pyg_base import df_slice
    if ocx == ['L']:
        return df_slice(df, lb, ub, **kw)
    return df_slice(df, lb, ub, None if ocx == 'N' else proto.dec(ocx), **kw)


def enc_frame_rows(width, rows):
    return '(T I:%d (L%s))' % (width, ''.join(' (T %s%s)' % (enc(t), ''.join(' ' + ('F:nan' if v is None else 'I:%d' % v) for v in vs))
                                              for t, vs in rows))


def _val(v):
    if v is None or v != v:
        return 'F:nan'
    return enc(float(v))


def _time(t):
    return 'N' if t is None else enc(pd.Timestamp(t).to_pydatetime())


def enc_result(r):
    """series -> (L (T t v)*)"""
    if not isinstance(r, pd.Series):
        raise proto.Unencodable('expected a Series, got %s' % type(r).__name__)
    return '(L' + ''.join(' (T %s %s)' % (_time(t), _val(v)) for t, v in zip(r.index, r.values)) + ')'


def enc_frame(r):
    if r is None:
        return 'N'
    if isinstance(r, pd.Series):
        return '(T I:1 (L' + ''.join(' (T %s %s)' % (_time(t), _val(v)) for t, v in zip(r.index, r.values)) + '))'
    if isinstance(r, pd.DataFrame):
        return '(T I:%d (L%s))' % (r.shape[1], ''.join(' (T %s%s)' % (_time(t), ''.join(' ' + _val(v) for v in vs))
                                                        for t, vs in zip(r.index, r.values)))
    raise proto.Unencodable('expected a frame, got %s' % type(r).__name__)


def dec_ts(sx):
    out = []
    for item in sx[1:]:
        v = proto.dec(item[2])
        out.append((proto.dec(item[1]), np.nan if (isinstance(v, float) and v != v) else float(v)))
    return pd.Series([v for _, v in out], index=pd.DatetimeIndex([t for t, _ in out]), dtype=float)


def dec_bound(sx):
    if sx == 'N':
        return None
    if isinstance(sx, list):
        us = int(sx[1][2:])
        s, micro = divmod(us, 10 ** 6)
        return datetime.time(s // 3600, (s // 60) % 60, s % 60, micro)
    return proto.dec(sx)


def dec_dates(sx):
    return None if sx == 'N' else [None if x == 'N' else proto.dec(x) for x in sx[1:]]


def dec_member(sx):
    if sx == 'N':
        return None
    if isinstance(sx, list):
        return dec_ts(sx) if sx[0] == 'L' else dec_frame(sx)
    v = proto.dec(sx)
    return np.nan if (isinstance(v, float) and v != v) else v


def _dec_time(x):
    s, micro = divmod(int(x[2:]), 10 ** 6)
    return datetime.time(s // 3600, (s // 60) % 60, s % 60, micro)


def dec_blist(sx):
    if sx == 'N':
        return None
    if sx[0] == 'T':
        return [_dec_time(x) for x in sx[1:]]
    return [proto.dec(x) for x in sx[1:]]


def dec_barg(sx):
    if sx[0] == 'T':
        return dec_bound(sx[1])
    return [dec_bound(x) for x in sx[1:]]


def dec_frame(sx):
    w = int(sx[1][2:])
    rows = []
    for item in sx[2][1:]:
        vals = [proto.dec(x) for x in item[2:]]
        rows.append((proto.dec(item[1]), [np.nan if (isinstance(v, float) and v != v) else float(v) for v in vals]))
    return pd.DataFrame([vs for _, vs in rows], index=pd.DatetimeIndex([t for t, _ in rows]), columns=list(range(w)), dtype=float)


# ---------------------------------------------------------------- generators

def pt(i):
    """the 12-point index: every 6 hours"""
    return D0 + 6 * i * H


def rand_series12(rng):
    r = rng.random()
    if r < 0.06:
        keep = []
    elif r < 0.4:
        keep = list(range(12))
    else:
        p = rng.choice([0.3, 0.6, 0.85])
        keep = [i for i in range(12) if rng.random() < p]
    return [(pt(i), None if rng.random() < 0.1 else rng.randrange(1, 9)) for i in keep]


def reorder(rng, pairs):
    """the property quantifies over datetime-indexed series, not over sorted ones: decreasing / shuffled indexes
    (F13: the pandas label slice the code takes for closed brackets cuts by position there)"""
    r = rng.random()
    if r < 0.4:
        return pairs[::-1], '+decreasing-index'
    if r < 0.8:
        q = list(pairs)
        rng.shuffle(q)
        return q, '+shuffled-index'
    # a sorted index holding a timestamp twice (label slice on a non-unique monotonic index)
    q = list(pairs)
    if q:
        k = rng.randrange(len(q))
        q.insert(k, (q[k][0], rng.randrange(1, 9)))
    return q, '+duplicate-stamps'


def date_bounds():
    """dates every 3 hours from before the first to after the last index point"""
    return [D0 + 3 * k * H for k in range(-2, 25)]


def time_bounds():
    return [datetime.time(h) for h in range(0, 24, 3)] + [datetime.time(5, 59, 59), datetime.time(18, 0, 0, 1)]


def one_line(pairs, lb, ub, oc):
    return '(slice one %s %s %s %s)' % (enc_ts(pairs), enc_bound(lb), enc_bound(ub), enc_oc(oc))


def onef_line(rows, w, lb, ub, oc):
    return '(slice onef %s %s %s %s)' % (enc_frame_rows(w, rows), enc_bound(lb), enc_bound(ub), enc_oc(oc))


def gen_single(rng, tier):
    full = [(pt(i), i + 1) for i in range(12)]
    DB, TB = date_bounds(), time_bounds()
    if tier == 'thorough':
        # exhaustive: every pair of date positions (and a missing bound) x the four brackets on the full 12-point index
        for lb in [None] + DB:
            for ub in [None] + DB:
                for oc in BR:
                    yield dict(tag='one-date-exhaustive', lines=[one_line(full, lb, ub, oc)])
        for lb in [None] + TB:
            for ub in [None] + TB:
                for oc in BR:
                    kind = 'one-tod-wrap' if (lb is not None and ub is not None and lb > ub) else 'one-tod'
                    yield dict(tag=kind + '-exhaustive', lines=[one_line(full, lb, ub, oc)])
    n = 500 if tier == 'quick' else 6000
    for _ in range(n):
        pairs = rand_series12(rng) if rng.random() < 0.8 else full
        r = rng.random()
        oc = rng.choice(BR)
        if r < 0.4:
            lb, ub = rng.choice([None] + DB), rng.choice([None] + DB)
            if rng.random() < 0.5:   # on index points: where an off-by-one lives
                lb = rng.choice([None, pt(rng.randrange(12))])
                ub = rng.choice([None, pt(rng.randrange(12))])
            tag = 'one-date'
        elif r < 0.75:
            lb, ub = rng.choice([None] + TB), rng.choice([None] + TB)
            tag = 'one-tod-wrap' if (lb is not None and ub is not None and lb > ub) else 'one-tod'
        elif r < 0.85:
            lb, ub = rng.choice(DB), rng.choice(TB)
            if rng.random() < 0.5:
                lb, ub = ub, lb
            tag = 'one-mixed'
        else:
            lb, ub = rng.choice([None] + DB), rng.choice([None] + DB)
            oc = rng.choice(['oc', 'CO', 'cc', 'oO', None, '', 'x]', '(', '(]]', ' ]', '[|'])
            tag = 'one-brackets'
        if rng.random() < 0.25 and tag != 'one-brackets':
            if tag == 'one-date' and rng.random() < 0.7:
                # bounds on index points and closed brackets: where the label slice is taken and finds its labels
                lb = rng.choice([None, pt(rng.randrange(12))])
                ub = rng.choice([None, pt(rng.randrange(12))])
                oc = rng.choice(['[]', '[]', '(]', '[)'])
            pairs, sfx = reorder(rng, pairs)
            if sfx == '+duplicate-stamps' and tag.startswith('one-tod-wrap'):
                pairs = [p for i, p in enumerate(pairs) if i == 0 or pairs[i - 1][0] != p[0]]   # sort_index of equal stamps is not pinned down
                sfx = ''
            tag += sfx
        elif rng.random() < 0.15 and oc == '(]':
            oc = OMIT                    # the default brackets of df_slice itself
            tag += '+default-oc'
        if rng.random() < 0.2:
            w = 2
            rows = [(t, [v, None if rng.random() < 0.3 else rng.randrange(1, 9)]) for t, v in pairs]
            yield dict(tag=tag.replace('one', 'frame'), lines=[onef_line(rows, w, lb, ub, oc)])
        else:
            yield dict(tag=tag, lines=[one_line(pairs, lb, ub, oc)])


def day(i):
    return D0 + i * DAYTD


def rand_series_days(rng, nan=0.1, lo=0, hi=12):
    r = rng.random()
    if r < 0.15:
        keep = []
    elif r < 0.35:
        keep = list(range(lo, hi))
    else:
        p = rng.choice([0.25, 0.5, 0.8])
        keep = [i for i in range(lo, hi) if rng.random() < p]
    return [(day(i), None if rng.random() < nan else rng.randrange(1, 9)) for i in keep]


def rand_bounds(rng, m, strict=False):
    if strict:
        return sorted(rng.sample(range(-1, 13), m))
    bs = sorted(rng.choice(range(-1, 13)) for _ in range(m))
    return bs


def stitch_line(dfs, lb, ub, oc, n):
    return '(slice stitch (L%s) %s %s %s I:%d)' % (''.join(' ' + enc_ts(p) for p in dfs), enc_dates(lb), enc_dates(ub), enc_oc(oc), n)


def roundtrip_line(dfs, ub, n):
    return '(slice roundtrip (L%s) %s I:%d)' % (''.join(' ' + enc_ts(p) for p in dfs), enc_dates(ub), n)


def gen_stitch(rng, tier):
    n_cases = 450 if tier == 'quick' else 9000
    for _ in range(n_cases):
        m = rng.choice([1, 2, 2, 3, 3, 4])
        dfs = [rand_series_days(rng) for _ in range(m)]
        shape = rng.random()
        if shape < 0.2 and m >= 2:
            # neighbours sharing no timestamp: odd / even days
            dfs = [[(t, v) for t, v in p if ((t - D0).days % 2) == (k % 2)] for k, p in enumerate(dfs)]
        n = rng.choice([1, 1, 2, 3, m, m + 1])
        bs = [day(b) for b in rand_bounds(rng, m)]
        oc = rng.choice(['(]', '(]', OMIT]) if rng.random() < 0.7 else rng.choice(BR + [None])
        r = rng.random()
        tag = 'stitch-ub'
        lb, ub = None, bs
        if r < 0.15:
            lb, ub, tag = bs, None, 'stitch-lb'
        elif r < 0.3:
            lo = [day(b) for b in rand_bounds(rng, m)]
            lb, ub, tag = lo, bs, 'stitch-both'
        if m >= 2 and rng.random() < 0.15:
            # "a missing bound being unbounded" inside a bound LIST: the last upper / the first lower bound is None
            # (`_is_non_decreasing` sets a None at either end aside); m >= 3 for the decreasing spelling below, two
            # bounds [None, d] do not spell a direction
            if ub is not None:
                ub = ub[:-1] + [None]
            if lb is not None and (ub is None or rng.random() < 0.5):
                lb = [None] + lb[1:]
            tag += '+open-end'
        if rng.random() < 0.25 and m >= 2 and not ('+open-end' in tag and m < 3):
            dfs = dfs[::-1]
            lb = lb[::-1] if lb else lb
            ub = ub[::-1] if ub else ub
            tag += '-decreasing'
        if rng.random() < 0.04 and m >= 3:
            ub = ub[:-1] if ub else ub
            lb = lb[:-1] if (lb and not ub) else lb
            tag = 'stitch-length-mismatch'
        if any(len(p) == 0 for p in dfs):
            tag += '+empty'
        yield dict(tag=tag + ('' if n == 1 else '-n'), lines=[stitch_line(dfs, lb, ub, oc, n)])
    # the shapes DESIGN lists for F11: an empty series inside, n = #series, a later series holding timestamps the first lacks
    for k in range(12 if tier == 'quick' else 60):
        s0 = [(day(i), 1 + i % 7) for i in sorted(rng.sample(range(0, 8), 3))]
        s2 = [(day(i), 2 + i % 5) for i in sorted(rng.sample(range(0, 10), 4))]
        ub = [day(b) for b in sorted(rng.sample(range(1, 11), 3))]
        yield dict(tag='stitch-empty-middle-n3', lines=[stitch_line([s0, [], s2], None, ub, '(]', 3)])
        yield dict(tag='roundtrip-empty-middle-n3', lines=[roundtrip_line([s0, [], s2], ub, 3)])
    n_rt = 250 if tier == 'quick' else 5000
    for _ in range(n_rt):
        m = rng.choice([1, 2, 3, 3, 4])
        dfs = [rand_series_days(rng, nan=0.0) for _ in range(m)]
        ub = [day(b) for b in rand_bounds(rng, m, strict=True)]
        n = rng.choice(list(range(1, m + 1)))
        tag = 'roundtrip-n%d' % min(n, 3) + ('+empty' if any(len(p) == 0 for p in dfs) else '')
        if m >= 2 and rng.random() < 0.3:
            # the quantifier's DECREASING bound lists: series and bounds in the reverse order; df_slice reverses both,
            # df_unslice has to read the bounds the same way and hand its series back in the order of the bounds it was given
            dfs, ub, tag = dfs[::-1], ub[::-1], tag.replace('roundtrip-', 'roundtrip-decreasing-')
        yield dict(tag=tag, lines=[roundtrip_line(dfs, ub, n)])
    # the round trip under an UNBOUNDED last bound (repo fix C13-U2; theorem `unslice_restitch_open`): df_unslice must file
    # the unbounded series under None in the LAST place (first for the decreasing spelling), the re-stitch must reproduce the frame
    for _ in range(n_rt // 4):
        m = rng.choice([2, 3, 3, 4])
        nan = rng.choice([0.0, 0.0, 0.2])
        dfs = [rand_series_days(rng, nan=nan) for _ in range(m)]
        ub = [day(b) for b in rand_bounds(rng, m - 1, strict=True)] + [None]
        n = rng.choice(list(range(1, m + 1)))
        tag = 'roundtrip-open-end-n%d' % min(n, 3) + ('+empty' if any(len(p) == 0 for p in dfs) else '')
        if nan:
            tag += '+nan' + ('+all-nan-row' if has_all_nan_row(dfs, ub, n) else '')
        if m >= 3 and rng.random() < 0.3:
            dfs, ub, tag = dfs[::-1], ub[::-1], tag.replace('roundtrip-', 'roundtrip-decreasing-')
        yield dict(tag=tag, lines=[roundtrip_line(dfs, ub, n)])
    # series holding NaN values: the statement does not exclude them; a stitched row that is NaN throughout is lost by
    # df_unslice (nona) - known finding C13-N1, every other round trip with NaN values must still be exact
    for _ in range(n_rt // 3):
        m = rng.choice([2, 3, 3, 4])
        dfs = [rand_series_days(rng, nan=rng.choice([0.1, 0.3])) for _ in range(m)]
        ub = [day(b) for b in rand_bounds(rng, m, strict=True)]
        n = rng.choice(list(range(1, m + 1)))
        tag = 'roundtrip-nan-n%d' % min(n, 3) + ('+all-nan-row' if has_all_nan_row(dfs, ub, n) else '')
        if rng.random() < 0.3:
            dfs, ub, tag = dfs[::-1], ub[::-1], tag.replace('roundtrip-', 'roundtrip-decreasing-')
        yield dict(tag=tag, lines=[roundtrip_line(dfs, ub, n)])
    # bounds that repeat ("increasing" read strictly excludes them): df_unslice files two series under one bound and the
    # re-stitch is refused (ValueError) - model and code must agree on that
    for _ in range(n_rt // 10):
        m = rng.choice([3, 3, 4])
        dfs = [rand_series_days(rng, nan=0.0) for _ in range(m)]
        bs = sorted(rng.sample(range(-1, 13), m - 1))
        k = rng.randrange(m - 1)
        ub = [day(b) for b in bs[:k + 1] + bs[k:]]
        yield dict(tag='roundtrip-repeated-bound', lines=[roundtrip_line(dfs, ub, rng.choice([1, 2, m]))])


# ---------------------------------------------------------------- lists of frames / scalars, time-of-day lists, broadcasting

def enc_member(m):
    """('s', pairs) a Series | ('f', width, rows) a DataFrame | ('c', value) a scalar (None = NaN)"""
    if m[0] == 's':
        return enc_ts(m[1])
    if m[0] == 'f':
        return enc_frame_rows(m[1], m[2])
    return 'F:nan' if m[1] is None else 'I:%d' % m[1]


def enc_blist(bs):
    if bs is None:
        return 'N'
    if bs and isinstance(bs[0], datetime.time):
        return '(T' + ''.join(' I:%d' % ((b.hour * 3600 + b.minute * 60 + b.second) * 10 ** 6 + b.microsecond) for b in bs) + ')'
    return '(L' + ''.join(' ' + enc(b) for b in bs) + ')'


def stitchm_line(ms, lb, ub, oc, n):
    return '(slice stitchm (L%s) %s %s %s I:%d)' % (''.join(' ' + enc_member(m) for m in ms), enc_blist(lb), enc_blist(ub), enc_oc(oc), n)


def enc_barg(b):
    if isinstance(b, list):
        return '(L' + ''.join(' ' + enc_bound(x) for x in b) + ')'
    return '(T %s)' % enc_bound(b)


def slices_line(pairs, lb, ub, oc):
    return '(slice slices %s %s %s %s)' % (enc_ts(pairs), enc_barg(lb), enc_barg(ub), enc_oc(oc))


def rand_member(rng, scalars=True):
    r = rng.random()
    if r < 0.45:
        return ('s', rand_series_days(rng))
    if r < 0.8 or not scalars:
        w = rng.choice([1, 2, 2, 3])
        return ('f', w, [(t, [v] + [None if rng.random() < 0.2 else rng.randrange(1, 9) for _ in range(w - 1)]) for t, v in rand_series_days(rng)])
    return ('c', None if rng.random() < 0.15 else rng.randrange(1, 9))


def rand_series6(rng):
    """a series on the 6-hour grid (3 days): times of day 00, 06, 12, 18"""
    p = rng.choice([0.4, 0.7, 1.0])
    return [(pt(i), rng.randrange(1, 9)) for i in range(12) if rng.random() < p]


def gen_members(rng, tier):
    k = 350 if tier == 'quick' else 7000
    for _ in range(k):
        m = rng.choice([2, 2, 3, 3, 4])
        ms = [rand_member(rng) for _ in range(m)]
        n = rng.choice([1, 1, 2, 3, m])
        bs = [day(b) for b in rand_bounds(rng, m)]
        oc = rng.choice(['(]', '(]', OMIT]) if rng.random() < 0.6 else rng.choice(BR)
        r = rng.random()
        lb, ub, tag = None, bs, 'members-ub'
        if r < 0.2:
            lb, ub, tag = bs, None, 'members-lb'
        elif r < 0.4:
            lb, ub, tag = [day(b) for b in rand_bounds(rng, m)], bs, 'members-both'
        if rng.random() < 0.2:
            ms, lb, ub = ms[::-1], (lb[::-1] if lb else lb), (ub[::-1] if ub else ub)
            tag += '-decreasing'
        kinds = set(x[0] for x in ms)
        tag += ('+frames' if 'f' in kinds else '') + ('+scalars' if 'c' in kinds else '') + ('' if n == 1 else '-n')
        yield dict(tag=tag, lines=[stitchm_line(ms, lb, ub, oc, n)])
    # bound lists of times of day: every piece compares the time of day; with both lists a window whose start is later
    # than its end wraps past midnight (C13-W2: the unrepaired code wrapped only for '[]' on a sorted index)
    TL = [datetime.time(h) for h in (0, 3, 6, 9, 12, 15, 18, 21)] + [datetime.time(5, 59, 59), datetime.time(18, 0, 0, 1)]
    for _ in range(k // 2):
        m = rng.choice([1, 2, 2, 3])
        ms = [('s', rand_series6(rng)) if rng.random() < 0.8 else
              ('f', 2, [(t, [v, rng.randrange(1, 9)]) for t, v in rand_series6(rng)]) for _ in range(m)]
        n = rng.choice([1, 1, 2, m])
        ts = sorted(rng.choice(TL) for _ in range(m))
        oc = rng.choice(BR + ['(]', OMIT])
        r = rng.random()
        lb, ub, tag = None, ts, 'tod-list-ub'
        if r < 0.25:
            lb, ub, tag = ts, None, 'tod-list-lb'
        elif r < 0.6:
            lo = sorted(rng.choice(TL) for _ in range(m))
            lb, ub, tag = lo, ts, 'tod-list-both'
            if any(a > b for a, b in zip(lo, ts)):
                tag += '+wrap'
        if rng.random() < 0.2 and m >= 2:
            ms, lb, ub = ms[::-1], (lb[::-1] if lb else lb), (ub[::-1] if ub else ub)
            tag += '-decreasing'
        yield dict(tag=tag + ('' if n == 1 else '-n'), lines=[stitchm_line(ms, lb, ub, oc, n)])
    for _ in range(k // 20):
        # a scalar beside a time-of-day list is no timeseries: the code raises; dates beside times: TypeError
        m = 2
        ms = [('c', 5), ('s', rand_series6(rng))]
        ts = sorted(rng.choice(TL) for _ in range(m))
        yield dict(tag='tod-list-scalar', lines=[stitchm_line(ms, None, ts, '(]', 1)])
        yield dict(tag='mixed-kind-lists', lines=[stitchm_line([('s', rand_series6(rng)), ('s', rand_series6(rng))],
                                                              [pt(1), pt(5)], ts, '(]', rng.choice([1, 2]))])
    # zipper's broadcasting: a list of length 1 beside longer ones is repeated; two different lengths (neither 1): ValueError
    for _ in range(k // 3):
        m = rng.choice([2, 3, 3, 4])
        ms = [('s', rand_series_days(rng)) for _ in range(m)]
        n = rng.choice([1, 1, 2, m])
        bs = [day(b) for b in rand_bounds(rng, m)]
        one = [day(rng.choice(range(-1, 13)))]
        oc = rng.choice(['(]', OMIT] + BR)
        r = rng.random()
        if r < 0.25:
            lb, ub, tag = one, bs, 'bcast-lb1'
        elif r < 0.5:
            lb, ub, tag = bs, one, 'bcast-ub1'
        elif r < 0.6:
            lb, ub, tag = None, one, 'bcast-ub1-only'
        elif r < 0.7:
            lb, ub, tag = one, None, 'bcast-lb1-only'
        elif r < 0.9:
            ms, lb, ub, tag = ms[:1], (None if rng.random() < 0.6 else bs), bs, 'bcast-series1'
            if rng.random() < 0.3:
                lb, ub = ub, None
        else:
            k2 = rng.choice([x for x in (0, 2, 3, 4, 5) if x != m])
            lb, ub, tag = None, [day(b) for b in rand_bounds(rng, k2)], 'length-mismatch'
        if rng.random() < 0.15 and tag in ('bcast-lb1', 'bcast-ub1'):
            ms, lb, ub = ms[::-1], lb[::-1], ub[::-1]
            tag += '-decreasing'
        yield dict(tag=tag + ('' if n == 1 else '-n'), lines=[stitchm_line(ms, lb, ub, oc, n)])


def gen_slices(rng, tier):
    """ONE series (not a list) with bound lists: a python list of slices, concatenated when both bounds are lists"""
    k = 250 if tier == 'quick' else 5000
    DB, TB = date_bounds(), time_bounds()
    for _ in range(k):
        pairs = rand_series12(rng) if rng.random() < 0.7 else [(pt(i), i + 1) for i in range(12)]
        oc = rng.choice(BR + ['(]', OMIT])
        kind = rng.random()
        pool = DB if kind < 0.6 else TB if kind < 0.85 else DB + TB + [None]

        def lst():
            q = rng.choice([0, 1, 2, 2, 3, 3, 4])
            xs = [rng.choice(pool) for _ in range(q)]
            return sorted(xs) if (None not in xs and len(set(type(x) for x in xs)) <= 1 and rng.random() < 0.7) else xs
        r = rng.random()
        if r < 0.35:
            lb, ub, tag = rng.choice([None, None, rng.choice(pool)]), lst(), 'slices-ub-list'
        elif r < 0.55:
            lb, ub, tag = lst(), rng.choice([None, None, rng.choice(pool)]), 'slices-lb-list'
        elif r < 0.75:
            ub = lst()
            if ub and all(isinstance(x, datetime.datetime) for x in ub) and rng.random() < 0.7:
                ub = sorted(ub)
                lb, tag = [rng.choice([None, DB[0], DB[3]])] + ub[:-1], 'slices-both-chained'
            else:
                lb, tag = [rng.choice(pool) for _ in ub], 'slices-both'
        else:
            a, b = lst(), lst()
            lb, ub, tag = a, b, 'slices-both-lengths'
        if rng.random() < 0.15:
            pairs, sfx = reorder(rng, pairs)
            if sfx == '+duplicate-stamps':
                pairs = [p for i, p in enumerate(pairs) if i == 0 or pairs[i - 1][0] != p[0]]
                sfx = ''
            tag += sfx
        yield dict(tag=tag, lines=[slices_line(pairs, lb, ub, oc)])


def has_all_nan_row(dfs, ub, n):
    """does the frame the statement prescribes hold a row that is NaN in every column?"""
    if len(ub) >= 3 and ub[0] is None:
        dfs, ub = dfs[::-1], ub[::-1]                    # [None, d_k .. d_1]: the decreasing spelling of an open last bound
    closed = ub[:-1] if (len(ub) >= 2 and ub[-1] is None) else ub
    if any(b is None for b in closed):
        return False
    if ub is closed and len(ub) >= 2 and all(a > b for a, b in zip(ub, ub[1:])):
        dfs, ub = dfs[::-1], ub[::-1]                    # a decreasing bound list is the increasing one read backwards
        closed = ub
    if len(ub) != len(dfs) or any(a >= b for a, b in zip(closed, closed[1:])):
        return False
    _, rows = py_stitch(dfs, ub, n)
    return any(all(v is None for v in vs) for _, vs in rows)


PAST, FUTURE = D0, datetime.datetime(2090, 1, 1)


def gen_spell(rng, tier):
    """BOUNDS IN OTHER SPELLINGS (round l4, review w4 F3 / item 5; spell lines, implementation only): the lines of the other generators
    with every missing bound spelled as the missing DATE (pd.NaT, np.datetime64('NaT'), 'NaT': "a missing bound being unbounded")
    or every date bound spelled as a Timestamp / datetime64[us, ns, D] / date / yyyymmdd integer / string ("given as dates"); the
    answer must be the one of the None / datetime spelling, which is the one compared with the model"""
    n = 160 if tier == 'quick' else 4000
    its = [g(rng, 'quick') for g in (gen_single, gen_stitch, gen_members, gen_slices)]
    made = 0
    while made < n and its:
        it = rng.choice(its)
        try:
            c = next(it)
        except StopIteration:
            its.remove(it)
            continue
        line = c['lines'][0]
        has_none = ' N ' in line[:-8] or '(L N ' in line or ' N) ' in line      # a missing bound somewhere (the last atom is the bracket word / n)
        if rng.random() < 0.6:
            if not has_none:
                continue
            word = rng.choice(sorted(SPELL_NAT))
        else:
            # a scalar MEMBER becomes pd.Series(scalar, boundaries): with bounds that pandas does not read as stamps it is no timeseries
            word = rng.choice(['stamp', 'np-us', 'np-ns'] if line.startswith('(slice stitchm ') else sorted(SPELL_DATE))
        made += 1
        yield dict(tag='spell/%s/%s' % (word, c.get('tag', '').split('+')[0][:24]), lines=['(slice spell %s %s)' % (word, line)])


def generate(rng, tier):
    """one case in four is dated in the future (2090): a missing bound must stay unbounded, it is not "now" """
    global D0
    try:
        for g in (gen_spell, gen_single, gen_stitch, gen_members, gen_slices):
            it = g(rng, tier)
            while True:
                D0 = FUTURE if rng.random() < 0.25 else PAST
                try:
                    c = next(it)
                except StopIteration:
                    break
                if D0 is FUTURE:
                    c = dict(c, tag=c.get('tag', '') + '+future-dated')
                yield c
    finally:
        D0 = PAST


# ---------------------------------------------------------------- implementation runner

def _canon_frame(r):
    return enc_frame(r)


def _quiet():
    import logging
    logging.getLogger('pyg').setLevel(logging.ERROR)      # is_ts logs every unsorted series it meets


SPELL_NAT = {'nat-pd': lambda: pd.NaT, 'nat-np': lambda: np.datetime64('NaT'), 'nat-np-us': lambda: np.datetime64('NaT', 'us'), 'nat-str': lambda: 'NaT'}
_midnight = lambda d: (d.hour, d.minute, d.second, d.microsecond) == (0, 0, 0, 0)
SPELL_DATE = {'stamp': lambda d: pd.Timestamp(d),
              'np-us': lambda d: np.datetime64(d, 'us'),
              'np-ns': lambda d: np.datetime64(d, 'ns'),
              'np-D': lambda d: np.datetime64(d, 'D') if _midnight(d) else np.datetime64(d, 's'),
              'date': lambda d: d.date() if _midnight(d) else d,
              'int': lambda d: (d.year * 10000 + d.month * 100 + d.day) if _midnight(d) else d,
              'str': lambda d: d.strftime('%Y-%m-%d') if _midnight(d) else d.isoformat()}
SPELLINGS = sorted(SPELL_NAT) + sorted(SPELL_DATE)


def spell(word):
    """the same bound(s) in another spelling: nat-*: every MISSING bound (None) as the missing date NaT; the others: every date bound
    as a Timestamp / datetime64 / date / yyyymmdd integer / string (date, int only at midnight).  Times of day stay"""
    def conv(b):
        if isinstance(b, list):
            return [conv(x) for x in b]
        if b is None:
            return SPELL_NAT[word]() if word in SPELL_NAT else None
        if isinstance(b, datetime.datetime) and word in SPELL_DATE:
            return SPELL_DATE[word](b)
        return b
    return conv


def run_line(state, sx, conv=lambda b: b):
    from pyg_base import df_slice, df_unslice
    _quiet()
    op, args = sx[1], sx[2:]
    if op == 'spell':      # bounds in another spelling (implementation only): the same answer as the plain line (review w4 F3 / item 5)
        word, inner = args[0], args[1]
        try:
            want = run_line(state, inner)
        except Exception:
            return 'ok spell-not-answered'            # not an input of this law: the plain spelling is not answered either
        try:
            got = run_line(state, inner, spell(word))
        except Exception as e:
            return 'violation %s: the bounds spelled %s raised %s: %s; spelled None / datetime the answer is %s' % (inner[1], word, type(e).__name__, str(e)[:100], want[:300])
        if got != want:
            return 'violation %s: with the bounds spelled %s%s%s, spelled None / datetime it is %s' % (inner[1], word, SPELL_MSG, got[:300], want[:300])
        return 'ok spell-checked ' + want[3:]
    convl = lambda b: b if b is None else conv(b)      # a bound-LIST argument that is not given stays not given
    if op == 'one':
        s = dec_ts(args[0])
        return 'ok ' + enc_result(call_slice(s, conv(dec_bound(args[1])), conv(dec_bound(args[2])), args[3]))
    if op == 'onef':
        f = dec_frame(args[0])
        return 'ok ' + enc_frame(call_slice(f, conv(dec_bound(args[1])), conv(dec_bound(args[2])), args[3]))
    if op == 'stitch':
        dfs = [dec_ts(x) for x in args[0][1:]]
        n = int(args[4][2:])
        return 'ok ' + enc_frame(call_slice(dfs, convl(dec_dates(args[1])), convl(dec_dates(args[2])), args[3], n=n))
    if op == 'stitchm':
        ms = [dec_member(x) for x in args[0][1:]]
        n = int(args[4][2:])
        return 'ok ' + enc_frame(call_slice(ms, convl(dec_blist(args[1])), convl(dec_blist(args[2])), args[3], n=n))
    if op == 'slices':
        s = dec_ts(args[0])
        r = call_slice(s, convl(dec_barg(args[1])), convl(dec_barg(args[2])), args[3])
        if r is None:
            return 'ok N'
        if isinstance(r, list):
            return 'ok (L' + ''.join(' ' + enc_result(x) for x in r) + ')'
        return 'ok (T %s)' % enc_result(r)
    if op == 'roundtrip':
        dfs = [dec_ts(x) for x in args[0][1:]]
        ub = convl(dec_dates(args[1]))
        n = int(args[2][2:])
        f = df_slice(dfs, ub=ub, n=n)
        if f is None:
            return 'ok N'
        u = df_unslice(f, ub)
        g = df_slice(list(u.values()), ub=ub, n=n)
        # the keys of df_unslice are the bounds AS GIVEN (a yyyymmdd int, a string, a date ..): they are compared as the dates they spell
        # (pd.Timestamp(20200203) would read the int as nanoseconds: a false alarm of the thorough tier on the unchanged tree)
        from pyg_base import dt as _dt
        _key = lambda k: _time(k) if k is None or isinstance(k, (datetime.datetime, pd.Timestamp, np.datetime64)) else _time(_dt(k))
        ud = '(L' + ''.join(' (T %s %s)' % (_key(k), enc_result(v)) for k, v in u.items()) + ')'
        return 'ok (T %s %s %s)' % (enc_frame(f), ud, enc_frame(g))
    return 'bad-op'


def compare(case, i, line, ir, mr):
    sx = proto.parse(line)
    op = sx[1]
    if op == 'spell':          # implementation only: the model has one spelling of a bound
        return None if ir.startswith('ok') else ir[len('violation '):] if ir.startswith('violation ') else 'spell line did not return: %s' % ir
    rt = None
    if op == 'roundtrip' and ir.startswith('ok (T'):
        isx = proto.parse(ir[3:])
        if proto.canon(isx[1]) != proto.canon(isx[3]):
            rt = RT_MSG + ': %s became %s' % (proto.render(isx[1]), proto.render(isx[3]))
    if proto.same_reply(ir, mr):
        return rt                   # the statement's own verdict on a line where implementation and model agree
    if rt is not None:
        # the correspondence is NOT switched off on a failing round trip: the finding says that the model disagrees too
        # (matcher `roundtrip_all_nan_row` accepts only findings on which the two agree)
        return rt + '; ' + MODEL_DIFFERS + ': %s' % mr
    if mr == 'bad-op':
        return ('divergence', 'the model does not cover this line (malformed or out of scope): implementation %s' % ir)
    if ir.startswith('err') and mr.startswith('err'):
        return ('divergence', 'both reject the input, with different errors: implementation %s, model %s' % (ir, mr))
    if not ir.startswith('ok'):
        return '%s did not return: %s (model: %s)' % (op, ir, mr)
    if op == 'roundtrip' and mr.startswith('ok (T'):
        isx, msx = proto.parse(ir[3:]), proto.parse(mr[3:])
        if proto.canon(isx[1]) == proto.canon(msx[1]) and proto.canon(isx[3]) == proto.canon(msx[3]):
            return ('divergence', 'df_unslice hands out different series than the model (the re-stitched frame agrees): %s vs %s' % (proto.render(isx[2]), proto.render(msx[2])))
    return 'implementation %s, specification (model) %s' % (ir, mr)


SPELL_MSG = ' the answer is '
RT_MSG = 'stitching the series recovered by df_unslice does not reproduce the frame'
MODEL_DIFFERS = 'moreover the specification (model) answers differently'


def nontrivial(line, reply):
    return reply.startswith('ok') and '(T T:' in reply


# ---------------------------------------------------------------- laws on the implementation alone

def _tod(t):
    return t.time()


def py_in(t, lb, ub, oc):
    l, u = oc[0] in '[c', oc[1] in ']c'

    def lo(b):
        if b is None:
            return True
        x = _tod(t) if isinstance(b, datetime.time) else t
        return x >= b if l else x > b

    def hi(b):
        if b is None:
            return True
        x = _tod(t) if isinstance(b, datetime.time) else t
        return x <= b if u else x < b
    if isinstance(lb, datetime.time) and isinstance(ub, datetime.time) and lb > ub:
        return lo(lb) or hi(ub)
    return lo(lb) and hi(ub)


def py_stitch(dfs, ub, n):
    """the statement: timestamp t in (ub[i-1], ub[i]] takes column j from series i+j; width min(n, m)"""
    m = len(dfs)
    w = min(max(n, 1), m)
    rows = []
    for i in range(m):
        lo = ub[i - 1] if i > 0 else None
        grp = [dict(p) for p in dfs[i:i + max(n, 1)]]
        ts = sorted(set(t for g in grp for t in g))
        for t in ts:
            if (lo is None or t > lo) and (ub[i] is None or t <= ub[i]):      # a missing (None) bound is unbounded
                vs = [g.get(t) for g in grp]
                rows.append((t, vs + [None] * (w - len(vs))))
    return w, rows


def laws(rng, tier, ctx):
    from pyg_base import df_slice, df_unslice
    _quiet()
    count = 0
    DB, TB = date_bounds(), time_bounds()
    m1 = 250 if tier == 'quick' else 4000
    for _ in range(m1):
        pairs = rand_series12(rng)
        if rng.random() < 0.5:
            lb, ub = rng.choice([None] + DB + [pt(3), pt(7)]), rng.choice([None] + DB + [pt(3), pt(7)])
        else:
            lb, ub = rng.choice([None] + TB), rng.choice([None] + TB)
        oc = rng.choice(BR)
        count += 1
        tag = 'law-slice'
        wrap = isinstance(lb, datetime.time) and isinstance(ub, datetime.time) and lb > ub
        if rng.random() < 0.3:
            pairs, sfx = reorder(rng, pairs)
            if sfx == '+duplicate-stamps' and wrap:
                pairs = [p for i, p in enumerate(pairs) if i == 0 or pairs[i - 1][0] != p[0]]
            tag += sfx
        case = dict(tag=tag, lines=[one_line(pairs, lb, ub, oc)])
        s = pd.Series([np.nan if v is None else float(v) for _, v in pairs], pd.DatetimeIndex([t for t, _ in pairs]), dtype=float)
        try:
            r = df_slice(s, lb, ub, oc)
        except Exception as e:
            yield Finding('violation', case, 'df_slice raised %s' % type(e).__name__)
            continue
        want = [(t, v) for t, v in pairs if (py_in(t, lb, ub, oc) if (lb is not None or ub is not None) and pairs else True)]
        if wrap:
            want.sort(key=lambda p: p[0])        # the two halves are put back in time order (sort_index)
        got = [(pd.Timestamp(t).to_pydatetime(), None if v != v else int(v)) for t, v in zip(r.index, r.values)]
        if got != want:
            yield Finding('violation', case, 'rows kept %s, the interval prescribes %s' % (got, want))
    m2 = 200 if tier == 'quick' else 3000
    for _ in range(m2):
        m = rng.choice([2, 3, 3, 4])
        dfs = [rand_series_days(rng, nan=0.0) for _ in range(m)]
        ub = [day(b) for b in rand_bounds(rng, m, strict=True)]
        n = rng.choice(list(range(1, m + 1)))
        count += 2
        opn = rng.random() < 0.2
        if opn:
            # review v4 2.1: the LAST bound missing = unbounded (df_slice documents `None` bounds; `_is_non_decreasing([d1, d2, None])`).
            # The model's bound lists hold dates only (such a line is `bad-op` there): checked on the implementation alone
            ub = ub[:-1] + [None]
        case = dict(tag='law-stitch' + ('+open-end' if opn else ''), lines=[stitch_line(dfs, None, ub, '(]', n)])
        ss = [pd.Series([float(v) for _, v in p], pd.DatetimeIndex([t for t, _ in p]), dtype=float) for p in dfs]
        try:
            f = df_slice(ss, ub=ub, n=n)
        except Exception as e:
            yield Finding('violation', case, 'df_slice raised %s' % type(e).__name__)
            continue
        w, rows = py_stitch(dfs, ub, n)
        got = proto.canon(proto.parse(enc_frame(f)))
        want = proto.canon(proto.parse(enc_frame_rows(w, rows)))
        idx = list(f.index)
        if got != want:
            yield Finding('violation', case, 'stitched frame %s, the bounds prescribe %s' % (enc_frame(f), enc_frame_rows(w, rows)))
            continue
        if len(set(idx)) != len(idx):
            yield Finding('violation', case, 'a timestamp is covered more than once')
            continue
        rub = ub
        if rng.random() < 0.3 and not (opn and m == 2):   # `[None, d]` does not spell a direction (`_is_non_decreasing` reads it as increasing): not generated
            rub = ub[::-1]                                # the same frame, the bounds spelled in decreasing order
        case = dict(tag='law-roundtrip' + ('-decreasing' if rub is not ub else '') + ('+open-end' if opn else ''), lines=[roundtrip_line(dfs if rub is ub else dfs[::-1], rub, n)])
        try:
            u = df_unslice(f, rub)
            g = df_slice(list(u.values()), ub=rub, n=n)
        except Exception as e:
            yield Finding('violation', case, 'df_unslice / re-stitching raised %s' % type(e).__name__)
            continue
        if proto.canon(proto.parse(enc_frame(g))) != got:
            yield Finding('violation', case, 're-stitched frame %s differs from %s' % (enc_frame(g), enc_frame(f)))
        elif list(u) != rub and len(set(rub)) == len(rub):
            yield Finding('violation', case, 'df_unslice does not hand out one series per bound in the order of the bounds: keys %s, bounds %s' % (list(u), rub))
    # --- the new input classes, checked on the implementation alone
    TL = [datetime.time(h) for h in (0, 3, 6, 9, 12, 15, 18, 21)]
    m3 = 120 if tier == 'quick' else 2000
    for _ in range(m3):
        # bound lists of times of day (both lists: a window whose start is later than its end wraps), n = 1
        m = rng.choice([2, 2, 3])
        dfs = [rand_series6(rng) for _ in range(m)]
        lb, ub = sorted(rng.choice(TL) for _ in range(m)), sorted(rng.choice(TL) for _ in range(m))
        oc = rng.choice(BR)
        count += 1
        case = dict(tag='law-tod-lists', lines=[stitchm_line([('s', p) for p in dfs], lb, ub, oc, 1)])
        ss = [pd.Series([float(v) for _, v in p], pd.DatetimeIndex([t for t, _ in p]), dtype=float) for p in dfs]
        try:
            f = df_slice(ss, lb, ub, oc)
        except Exception as e:
            yield Finding('violation', case, 'df_slice raised %s' % type(e).__name__)
            continue
        want = [(t, [v]) for p, a, b in zip(dfs, lb, ub) for t, v in p if py_in(t, a, b, oc)]
        if proto.canon(proto.parse(enc_frame(f))) != proto.canon(proto.parse(enc_frame_rows(1, want))):
            yield Finding('violation', case, 'stitched %s, the time-of-day windows prescribe %s' % (enc_frame(f), enc_frame_rows(1, want)))
    for _ in range(m3):
        # one series, a list of upper bounds: one slice per bound; both bounds as lists: the slices concatenated
        pairs = rand_series12(rng)
        q = rng.choice([2, 3, 4])
        ub = sorted(rng.choice(DB) for _ in range(q))
        oc = rng.choice(BR)
        both = rng.random() < 0.5
        lb = ([rng.choice([None, DB[0]])] + ub[:-1]) if both else rng.choice([None, DB[1], DB[5]])
        count += 1
        case = dict(tag='law-slices', lines=[slices_line(pairs, lb, ub, oc)])
        s = pd.Series([np.nan if v is None else float(v) for _, v in pairs], pd.DatetimeIndex([t for t, _ in pairs]), dtype=float)
        try:
            r = df_slice(s, lb, ub, oc)
        except Exception as e:
            yield Finding('violation', case, 'df_slice raised %s' % type(e).__name__)
            continue
        pieces = [[(t, v) for t, v in pairs if (py_in(t, a, b, oc) if pairs else True)] for a, b in zip(lb if both else [lb] * q, ub)]

        def rows(x):
            return [(pd.Timestamp(t).to_pydatetime(), None if v != v else int(v)) for t, v in zip(x.index, x.values)]
        if both:
            got, want = rows(r) if isinstance(r, pd.Series) else None, [x for p in pieces for x in p]
        else:
            got, want = [rows(x) for x in r] if isinstance(r, list) else None, pieces
        if got != want:
            yield Finding('violation', case, 'slices %s, the bounds prescribe %s' % (got, want))
    for _ in range(m3):
        # lists holding DataFrames and scalars, n = 1: piece i is member i cut to (ub[i-1], ub[i]]; a scalar is constant on the bounds
        m = rng.choice([2, 3, 3])
        ms = [rand_member(rng) for _ in range(m)]
        ubi = rand_bounds(rng, m, strict=True)
        ub = [day(b) for b in ubi]
        count += 1
        case = dict(tag='law-members', lines=[stitchm_line(ms, None, ub, '(]', 1)])
        try:
            f = df_slice([dec_member(proto.parse(enc_member(x))) for x in ms], ub=ub)
        except Exception as e:
            yield Finding('violation', case, 'df_slice raised %s' % type(e).__name__)
            continue
        w = max(x[1] if x[0] == 'f' else 1 for x in ms)
        want = []
        for i, x in enumerate(ms):
            rws = [(t, [v]) for t, v in x[1]] if x[0] == 's' else x[2] if x[0] == 'f' else [(b, [x[1]]) for b in ub]
            want += [(t, vs + [None] * (w - len(vs))) for t, vs in rws if (i == 0 or t > ub[i - 1]) and t <= ub[i]]
        if proto.canon(proto.parse(enc_frame(f))) != proto.canon(proto.parse(enc_frame_rows(w, want))):
            yield Finding('violation', case, 'stitched %s, the bounds prescribe %s' % (enc_frame(f), enc_frame_rows(w, want)))
    yield count


def _dec_pairs(sx):
    out = []
    for item in sx[1:]:
        v = proto.dec(item[2])
        out.append((proto.dec(item[1]), None if (v is None or v != v) else int(v)))
    return out


def roundtrip_all_nan_row(f):
    """C13-N1: a round trip whose stitched frame holds a row that is NaN in every column (series with NaN values)"""
    line = f.case['lines'][0]
    if not line.startswith('(slice roundtrip '):
        return False
    sx = proto.parse(line)
    dfs = [_dec_pairs(x) for x in sx[2][1:]]
    if any(len(set(t for t, _ in p)) != len(p) or [t for t, _ in p] != sorted(t for t, _ in p) for p in dfs):
        return False
    if not has_all_nan_row(dfs, dec_dates(sx[3]), int(sx[4][2:])):
        return False
    # ... and the finding must BE C13-N1: the statement's round-trip verdict on a line where implementation and model
    # agree, the re-stitched frame being the stitched one minus exactly its all-NaN rows.  A wrong stitched frame, a raise,
    # a re-stitch that loses a row holding a value are not this finding and stay violations.
    if RT_MSG not in f.detail or MODEL_DIFFERS in f.detail or not f.impl or not isinstance(f.model, str):
        return False
    ir = f.impl[getattr(f, 'line_index', 0)]
    if not proto.same_reply(ir, f.model) or not ir.startswith('ok (T'):
        return False
    isx = proto.parse(ir[3:])
    F, G = proto.canon(isx[1]), proto.canon(isx[3])          # ('T', width, ('L', row*)), row = ('T', time, cell*)
    live = tuple(r for r in F[2][1:] if any(c != ('F', 'nan') for c in r[2:]))
    return F[1] == G[1] and tuple(G[2][1:]) == live and len(live) < len(F[2][1:])


MATCHERS = {'roundtrip_all_nan_row': roundtrip_all_nan_row}
