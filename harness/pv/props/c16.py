"""C16 - ulist, dictattr and Dict implement ordered set / key algebra without side effects.

Protocol (model name c16, see lean/PygModel/USetDriver.lean):
  ulist histories over handles: u.new / u.copy / u.add / u.and / u.sub (element or list operand) / u.addh / u.andh / u.subh;
      in place on a handle: u.append / u.extend / u.iadd / u.insert / u.setitem / u.imul (reply: the contents afterwards)
  dictattr key algebra, stateless: d.sub d.and d.getl d.gett d.get d.add d.relabel d.keys on (DC <cls> (hexkey v)*)
      cls 1 = pyg_base.Dict, 2 = pyg_base.dictattr, 3 = a subclass of dictattr defined here, 4 = a subclass of Dict defined here
      d.sub with a (T k*) operand is the tuple-PATH form d - (k1, .., kn); d.get / d.gett / d.getl also take dotted keys
  dictattr histories over handles (heap model lean/PygModel/DAHeap.lean): h.new / h.copy / h.sub / h.and / h.add / h.addh / h.getl /
      h.relabel allocate a new handle, h.set / h.setattr / h.del / h.delattr write the target in place, h.get / h.getattr / h.gett /
      h.keys read, h.dump replies with the whole heap.  After EVERY operation (also a failing one) the runner re-reads every handle
      against its snapshot: only the target of an in-place operation may have changed (frame rule).
  Dict.__call__: (c16 call (D (k I:n)*) (K hexkey I:n | (F I:c hexarg*))*)   the function is lambda args: c + 1*a1 + 2*a2 + ...
The implementation runner snapshots every operand before an operation and re-reads it afterwards; a changed operand or a
result of the wrong class is reported in the reply itself (`mutated ...`, `wrongtype ...`) and is a violation.
"""
import itertools, copy as _copy, re, inspect, datetime
import numpy as np
from .. import proto
from ..proto import enc
from ..engine import Finding

ID = 'C16'
TITLE = 'ulist, dictattr and Dict implement ordered set/key algebra without side effects'
LEAN_FILES = ['Basic', 'USet', 'DictCall', 'DAHeap', 'Tree', 'DictAdd', 'DADotted', 'USetDriver', 'USetLemmas', 'DictCallLemmas', 'DictCallOrder', 'DAHeapLemmas',
              'TreeLemmas', 'TreeMerge', 'C16']
RULE = ('distinct protocol lines on which the implementation returned a value or the error the statement prescribes, '
        'excluding operations on an empty ulist / empty mapping with an empty operand')
TRUSTED = ['correspondence harness (pv.engine, pv.proto) and the generators / operand snapshots of pv.props.c16',
           'Lean driver parser/printer (PygModel/Basic.lean, USetDriver.lean)']
ASSUMPTIONS = ['python == / hash on the generated elements (None, ints, quarter floats, strings, tuples of them; no bools, no NaN) is decidable equality after int->float canonicalisation',
               'python dict semantics: insertion order, d[k]=v overwrites in place or appends, dict(**{...}) and update() are successive assignments',
               'kwargs_support(f)(**params) passes exactly the declared arguments by name and raises TypeError when one is missing; generated functions are lambda args: c + 1*a1 + 2*a2 + ... and never declare an argument named key',
               'attribute access (getattr/setattr/delattr = item access, AttributeError for KeyError) and in-place writes are modelled on a heap of handles (DAHeap); a name that is a public attribute of the class (DAHeap.shadowed, compared with dir(cls) by a law) yields the bound method, a private name (leading underscore) is written to the instance dict which is not modelled (known finding K1); object identity beyond handles (aliasing of values) is not modelled',
               'Dict + other is tree_update (C15): modelled by DA.addC / PygModel.DictAdd on the C15 model Tree.itemsToTree; with dict values on both sides it is the recursive merge, not {**d, **o}',
               'tuple paths (d - (a, b)) and absent dotted keys in d[k] / d[k1, k2] / d[[..]] are modelled on Val-valued mappings (PygModel/DADotted.lean) and generated for the stateless operators; in the handle histories (generic heap model) keys hold no dot; the path walk is generated through dict values and into every kind of leaf (numbers, None, strings incl. a part that is a substring of the leaf, tuples, lists: a path into a leaf is absent - no-op since fix bd26767); key selections given as a set / dict / dict view raise TypeError (unhashable) and are not generated: the selections of the statement are a key, a list of keys or a tuple path; relabelling onto an existing key / of two keys to one name (a value is lost: the statement has no reading) is generated for correspondence (d.relabel-collision; model theorem relabel_lookup: the last colliding item wins); self-referential callables are outside the acyclic statement and generated for correspondence only (call-selfloop)']

ELEMS = [None, 0, 1, 2, 3, 4, 5, 1.0, 2.0, 2.5, 'a', 'b', 'c', '', (1, 2), (1, 'a'), (2.0, 1), ()]
# (review 5 w2 F3) hashable elements whose == / hash agree with the model's one equality: numpy numbers are the number (np.int64(2) == 2 == 2.0,
# same hash), datetimes are themselves.  Beside a TUPLE a numpy scalar answers == with an array (np.int64(2) == (2,) is array([True])), so
# `x in u` - every operator with an operand - raises or lies there (numpy's ==, not pyg_base's): such pools are generated for the constructor
# only (tag ulist-new-numpy), where "duplicate" means what python's own sets / dicts mean (hash and ==)
NP_ELEMS = [np.int64(2), np.int64(7), np.float64(2.5), np.float64(1.0), datetime.datetime(2020, 1, 1), datetime.datetime(2020, 1, 2)]
# law only (no wire cell that decodes to the same type, or == and hash disagree between members: np.timedelta64(1,'D') == 1,
# np.datetime64('2020-01-01') == date(2020,1,1), with different hashes; True == 1 with the same hash)
LAW_ELEMS = [np.timedelta64(1, 'D'), np.timedelta64(2, 'D'), np.datetime64('2020-01-01'), datetime.date(2020, 1, 1), datetime.date(2020, 1, 2),
             True, False, np.bool_(True), datetime.timedelta(days=1), np.str_('a'), np.uint8(1), np.float32(2.5)]
KEYS = ['a', 'b', 'c', 'd', 'e', 'x', 'y']
FLAT_VALS = [None, 0, 1, 2, 2.5, 'u', 'v', (1, 2), [1, 2]]
# dict VALUES: `Dict + other` is tree_update (C15), so a dict under the same key on both sides is merged while dictattr replaces it
DICT_VALS = [{'x': 1}, {'y': 2}, {'x': 3, 'z': 'u'}, {'x': {'z': 1}}, {'x': {'w': 2}, 'y': 0}, {'x': None}]
EMPTY_VALS = [{}, {'x': {}}]            # empty branches: outside C15's quantifier (Dict + {'b': {}} drops b); generated, divergence-only
VALS = FLAT_VALS + DICT_VALS
# names that python finds on the CLASS before __getattr__ is asked (known finding K1), and a private name
# keys spelled like the PARAMETER names of the methods under test (review t2 V4: `Dict(a=1)(self=...)`, `d.relabel(self='x')`, `d.relabel(keys='x')`
# raised TypeError 'got multiple values for argument' before fix C16-T1): strings like any other
ARG_KEYS = ['self', 'other', 'function', 'value', 'args', 'relabels']
SHADOW_KEYS = ['keys', 'items', 'copy', 'get', 'update', 'values', 'pop', 'relabel', 'rename', 'apply', 'do']


# the callables handed to `d.relabel(f)` (the Lean driver holds the same five under these names)
REL_FNS = {'upper': str.upper, 'dbl': lambda k: k * 2, 'const': lambda k: 'z', 'first': lambda k: k[:1], 'pre': lambda k: 'q' + k}


def _cls(n):
    from pyg_base import Dict, dictattr
    global MyDA, MyDict
    if 'MyDA' not in globals():
        class MyDA(dictattr):
            pass

        class MyDict(Dict):         # inherits Dict.__add__ = tree_update (review s2 F1; Dict's own docstring uses such a subclass)
            pass
    return {0: dict, 1: Dict, 2: dictattr, 3: MyDA, 4: MyDict}[n]


def rng_free_rename_differs(d, k, kw, res):
    """`rename` is documented as identical to `relabel`"""
    other = d.rename(**kw) if k is None else d.rename(k, **kw)
    return type(other) is not type(res) or list(other.items()) != list(res.items())


def encd(cls, d):
    return '(DC %d' % cls + ''.join(' (%s %s)' % (proto.hexs(k), enc(v)) for k, v in d.items()) + ')'


# ---------------------------------------------------------------- generators

def rand_elems(rng, pool):
    n = rng.choice([0, 1, 2, 3, 4, 6, 9])
    return [rng.choice(pool) for _ in range(n)]          # repeats are the norm with a pool of 3..8


def gen_ulist_new_numpy(rng):
    """the constructor on numpy scalars / datetimes BESIDE tuples (w2 F3: uniqueness came from set(), the position from list.index)"""
    tuples = [e for e in ELEMS if isinstance(e, tuple)]
    pool = rng.sample(NP_ELEMS, rng.choice([1, 2, 3])) + rng.sample(tuples + [(2,), (3,), (7,), (2.5,)], rng.choice([1, 2, 3])) + rng.sample(ELEMS, rng.choice([0, 2, 4]))
    return dict(tag='ulist-new-numpy', lines=['(c16 u.new %s)' % enc([rng.choice(pool) for _ in range(rng.choice([2, 3, 4, 6, 9]))]) for _ in range(rng.choice([1, 2, 3]))])


def gen_ulist_history(rng):
    elems = ELEMS
    if rng.random() < 0.25:
        elems = [e for e in ELEMS if not isinstance(e, tuple)] + NP_ELEMS
    pool = rng.sample(elems, rng.choice([3, 4, 6, 8]))
    lines = ['(c16 u.new %s)' % enc(rand_elems(rng, pool))]
    n = 1
    for _ in range(rng.choice([2, 4, 6, 10])):
        r = rng.random()
        h = rng.randrange(n)
        if r < 0.1:
            lines.append('(c16 u.new %s)' % enc(rand_elems(rng, pool)))
        elif r < 0.3:
            # the inherited in-place list operations (no new handle): they must keep the members unique too
            m = rng.choice(['append', 'extend', 'iadd', 'insert', 'setitem', 'imul'])
            e = enc(rng.choice(pool))
            if m in ('extend', 'iadd'):
                lines.append('(c16 u.%s %d %s)' % (m, h, enc(rand_elems(rng, pool))))
            elif m == 'append':
                lines.append('(c16 u.append %d %s)' % (h, e))
            elif m == 'imul':
                lines.append('(c16 u.imul %d %d)' % (h, rng.choice([0, 1, 2, 3])))
            else:
                lines.append('(c16 u.%s %d %d %s)' % (m, h, rng.choice([0, 0, 1, 2, 3, 5, -1, -2, -7]), e))
            continue
        elif r < 0.35:
            lines.append('(c16 u.copy %d)' % h)
        elif r < 0.5:
            lines.append('(c16 %s %d %d)' % (rng.choice(['u.addh', 'u.andh', 'u.subh']), h, rng.randrange(n)))
        else:
            op = rng.choice(['u.add', 'u.and', 'u.sub'])
            x = enc(rand_elems(rng, pool)) if rng.random() < 0.55 else enc(rng.choice(pool if rng.random() < 0.8 else elems))
            lines.append('(c16 %s %d %s)' % (op, h, x))
        n += 1
    return dict(tag='ulist-history', lines=lines)


def rand_val(rng):
    r = rng.random()
    return rng.choice(FLAT_VALS) if r < 0.7 else rng.choice(DICT_VALS) if r < 0.97 else rng.choice(EMPTY_VALS)


def rand_da(rng, shadow=False):
    ks = rng.sample(KEYS, rng.choice([0, 1, 2, 3, 4, 5]))
    if shadow:
        ks = ks[:3] + rng.sample(SHADOW_KEYS, rng.choice([1, 2]))
        rng.shuffle(ks)
    elif rng.random() < 0.2:
        ks = ks + rng.sample(ARG_KEYS, rng.choice([1, 2]))
        rng.shuffle(ks)
    return rng.choice([1, 1, 2, 2, 3, 4]), {k: rand_val(rng) for k in ks}


def rand_other(rng, d):
    """the right operand of +: new keys, keys of d, and - the case that separates Dict from dictattr - a dict over a dict"""
    o = {k: rand_val(rng) for k in rng.sample(KEYS, rng.choice([0, 1, 2, 3]))}
    for k, v in d.items():
        if isinstance(v, dict) and rng.random() < 0.5:
            o[k] = rng.choice(DICT_VALS)
    items = list(o.items())
    rng.shuffle(items)
    return dict(items)


def _walks(d):
    """all key paths into the nested dict values of d (length >= 1)"""
    out = []
    for k, v in d.items():
        out.append([k])
        if isinstance(v, dict):
            out += [[k] + p for p in _walks(v)]
    return out


def rand_parts(rng, d):
    """a path of >= 2 keys: an existing one, one that leaves the tree (missing part), one that runs into a flat value"""
    paths = [p for p in _walks(d) if len(p) >= 2]
    # every kind of leaf (review v2 W5): None / numbers, and the strings ('u' in 'u' is a SUBSTRING test), tuples and lists of FLAT_VALS
    flat = [k for k, v in d.items() if not isinstance(v, dict)]
    r = rng.random()
    if paths and r < 0.5:
        return rng.choice(paths)
    if paths and r < 0.7:
        p = rng.choice(paths)
        return p[:-1] + [rng.choice(['q', 'zz', p[-1] + 'x'])]
    if flat and r < 0.85:
        k = rng.choice(flat)
        v = d[k]
        last = rng.choice(['x', 'y']) if not isinstance(v, str) or rng.random() < 0.4 else rng.choice([v, v, v[:1], ''])   # a part that IS (in) the string leaf
        return [k, last] + (['z'] if rng.random() < 0.15 else [])
    return [rng.choice([k for k in KEYS + ['zz'] if k not in d] or ['zz2']), rng.choice(['x', 'y'])]


def rand_dotted(rng, d):
    return '.'.join(rand_parts(rng, d))


def rand_path(rng, d):
    p = rand_parts(rng, d)
    if rng.random() < 0.15:
        p = p[:1]                       # a one-key path is the plain key deletion
    return tuple(p)


def _has_empty(x):
    return isinstance(x, dict) and (not x or any(_has_empty(v) for v in x.values()))


def rand_keysel(rng, d):
    """present / absent / mixed key selections, possibly with repeats"""
    n = rng.choice([0, 1, 1, 2, 3, 4])
    pres, absn = list(d), [k for k in KEYS + ['zz'] if k not in d] or ['zz2']
    mode = rng.choice(['present', 'absent', 'mixed', 'mixed'])
    out = []
    for _ in range(n):
        src = pres if (mode == 'present' or (mode == 'mixed' and rng.random() < 0.6)) and pres else absn
        out.append(rng.choice(src))
    return out


def gen_da(rng):
    cls, d = rand_da(rng)
    D = encd(cls, d)
    op = rng.choice(['d.sub', 'd.sub', 'd.and', 'd.and', 'd.getl', 'd.gett', 'd.get', 'd.add', 'd.add', 'd.relabel', 'd.relabel', 'd.keys'])
    ks = rand_keysel(rng, d)
    if op == 'd.sub' and rng.random() < 0.25:
        # d - (k1, .., kn): a tuple is a PATH into the nested mappings; the key is deleted in a COPY of the branch (review s2 F3: the
        # branch shared with d was written)
        if rng.random() < 0.4:
            # a LIST holding paths beside keys: every member is taken on one copy of d, the paths on copies of the branches they go
            # through (seeded C16-u2: the branch copy skipped when __sub__ recurses with copy = False wrote into d's own nested mapping)
            ms = ks + [rand_path(rng, d) for _ in range(rng.choice([1, 1, 2]))]
            rng.shuffle(ms)
            return dict(tag='d.sub-list-with-path', lines=['(c16 d.sub %s %s)' % (D, enc(ms))])
        return dict(tag='d.sub-path', lines=['(c16 d.sub %s %s)' % (D, enc(rand_path(rng, d)))])
    if op in ('d.sub', 'd.and'):
        # an ABSENT key that happens to spell a dotted path into a nested mapping value ('a.b' where d['a'] is a mapping holding 'b')
        # is still just an absent key: nothing is deleted, in particular nothing inside the shared nested value
        dotted = ['%s.%s' % (k, s) for k, v in d.items() if isinstance(v, dict) for s in v]
        if dotted and rng.random() < 0.5:
            ks = ks + [rng.choice(dotted)]
            rng.shuffle(ks)
        arg = enc(ks) if rng.random() < 0.7 or not ks else enc(ks[0])
    elif op in ('d.getl', 'd.gett', 'd.get') and rng.random() < 0.3:
        # ABSENT string keys holding a dot: d[k] then walks part by part through the values (d['a.x'] is d['a']['x']); KeyError at a
        # missing part, TypeError when the walk runs into a number / None (review s2 F2: model said KeyError)
        dk = rand_dotted(rng, d)
        ks = ks + [dk]
        rng.shuffle(ks)
        arg = enc(ks) if op == 'd.getl' else enc(tuple(ks if len(ks) != 1 else ks + ks)) if op == 'd.gett' else enc(dk)
        return dict(tag=op + '-dotted', lines=['(c16 %s %s %s)' % (op, D, arg)])
    elif op == 'd.getl':
        arg = enc(ks)
    elif op == 'd.gett':
        arg = enc(tuple(ks if len(ks) != 1 else ks + ks))
    elif op == 'd.get':
        arg = enc(ks[0] if ks else 'zz')
    elif op == 'd.add':
        o = rand_other(rng, d)
        arg = enc(o)
        if cls in (1, 4) and any(isinstance(v, dict) for v in o.values()):
            tag = ('d.add-Dict-merge' if cls == 1 else 'd.add-DictSubclass-merge') if any(isinstance(d.get(k), dict) and isinstance(v, dict) for k, v in o.items()) else 'd.add-Dict-branch'
            return dict(tag=tag + ('-empty' if any(_has_empty(v) for v in o.values()) else ''), lines=['(c16 d.add %s %s)' % (D, arg)])
    elif op == 'd.relabel' and rng.random() < 0.45:
        # every documented form of the POSITIONAL argument (round k2; model DA.relabelA / relabelMap): a callable, a prefix / suffix /
        # plain string, a dict, a list of new names (right / wrong length, one name), each optionally with keywords on top
        form = rng.choice(['fn', 'fn', 'affix', 'affix', 'dict', 'names', 'none'])
        if form == 'fn':
            name = rng.choice(sorted(REL_FNS))
            a, tag = '(FN %s)' % name, 'fn-' + name
        elif form == 'affix':
            sfx = rng.choice(['x_', '_x', 'x', '_', '_x_', '', 'A_', '_b'])
            a, tag = enc(sfx), 'affix-' + ('suffix' if sfx.startswith('_') else 'prefix' if sfx.endswith('_') else 'plain')
        elif form == 'dict':
            olds = rng.sample(sorted(set(KEYS) | set(d)), rng.choice([0, 1, 2]))
            m = {k: rng.choice(['A', 'B', 'C'] + list(d)[:1]) for k in olds}
            a, tag = enc(m), 'dict'
        elif form == 'names':
            n = rng.choice([len(d), len(d), 1, max(len(d) - 1, 0), len(d) + 1])
            names = [rng.choice(['A', 'B', 'C', 'D2', 'E', 'x_', '_y'] + list(d)[:1]) for _ in range(n)]
            a, tag = enc(names), 'names-' + ('fit' if n == len(d) and n != 1 else 'one' if n == 1 else 'misfit')
        else:
            a, tag = 'N', 'none'
        kw = {}
        if rng.random() < 0.4 or form == 'none':
            for k in rng.sample(sorted(set(KEYS) | set(d)), rng.choice([1, 2])):
                kw[k] = rng.choice(['K1', 'K2'] + list(d)[-1:])
            tag += '+kw'
        return dict(tag='d.relabel-' + tag, lines=['(c16 d.relabela %s %s %s)' % (D, a, enc(kw))])
    elif op == 'd.relabel':
        # (stateless: also `keys`, the first parameter of the module-level relabel(keys, ...) every d.relabel goes through)
        if rng.random() < 0.3:
            extra = rng.sample(ARG_KEYS + ['keys'], rng.choice([1, 2]))
            d.update({k: rand_val(rng) for k in extra if k not in d})
            D = encd(cls, d)
        pool = sorted(set(KEYS) | set(d))
        olds = rng.sample(pool, rng.choice([0, 1, 2])) + ([k for k in d if k in ARG_KEYS + ['keys']][:1] if rng.random() < 0.7 else [])
        olds = list(dict.fromkeys(olds))
        fresh = ['A', 'B', 'C', 'D2']
        if rng.random() < 0.15 and olds:
            fresh = rng.sample([k for k in ARG_KEYS + ['keys'] if k not in d] + ['A'], 1) + fresh      # ... and as a NEW name
        arg = enc({k: fresh[i] for i, k in enumerate(olds)})       # new names never collide with existing keys ...
        if rng.random() < 0.3 and olds and len(d) >= 2:
            # ... except here (review t2): a new name that IS another key of d, or two keys relabelled to one name.  The statement's
            # "exactly the expected keys and untouched values" has no reading then (one value must go); model and code agree on python's
            # dict construction - the LAST of the colliding items wins, at the position of the first (theorem relabel_lookup)
            present = [k for k in olds if k in d]
            others = [k for k in d if k not in olds]
            if present and others and rng.random() < 0.6:
                m = {k: fresh[i] for i, k in enumerate(olds)}
                m[present[0]] = rng.choice(others)
            else:
                m = {k: 'A' for k in olds}
            return dict(tag='d.relabel-collision', lines=['(c16 d.relabel %s %s)' % (D, enc(m))])
        if any(k in ARG_KEYS + ['keys'] for k in olds + fresh[:len(olds)]):
            return dict(tag='d.relabel-argname-keys', lines=['(c16 d.relabel %s %s)' % (D, arg)])
    else:
        return dict(tag=op, lines=['(c16 d.keys %s)' % D])
    return dict(tag=op, lines=['(c16 %s %s %s)' % (op, D, arg)])


def gen_da_history(rng):
    """a history of operators / in-place writes / reads over dictattr handles; `shadow` (plain dicts) only serves to pick
    mostly-valid keys and to know how many handles exist (an operator that raises allocates nothing)"""
    shadowed = rng.random() < 0.12          # some histories use keys that are also method names (known finding K1)
    cls, d = rand_da(rng, shadowed)
    lines = ['(c16 h.new %s)' % encd(cls, d)]
    shadow = [dict(d)]
    classes = [cls]
    for _ in range(rng.choice([3, 5, 8, 12])):
        h = rng.randrange(len(shadow))
        d = shadow[h]
        ks = rand_keysel(rng, d)
        k1 = ks[0] if ks else rng.choice(KEYS + ['zz'])
        if shadowed and rng.random() < 0.5:
            k1 = rng.choice(SHADOW_KEYS + ['_p'])
        op = rng.choice(['set', 'setattr', 'getattr', 'getattr', 'delattr', 'get']) if shadowed and rng.random() < 0.4 else rng.choice(['new', 'copy', 'sub', 'sub', 'and', 'add', 'addh', 'getl', 'relabel', 'set', 'set', 'setattr', 'setattr',
                         'del', 'delattr', 'get', 'getattr', 'gett', 'keys'])
        if op == 'new':
            cls2, d2 = rand_da(rng)
            lines.append('(c16 h.new %s)' % encd(cls2, d2))
            shadow.append(dict(d2))
            classes.append(cls2)
        elif op == 'copy':
            lines.append('(c16 h.copy %d)' % h)
            shadow.append(dict(d))
        elif op == 'sub':
            arg = ks if rng.random() < 0.6 or not ks else ks[0]
            lines.append('(c16 h.sub %d %s)' % (h, enc(arg)))
            shadow.append({k: v for k, v in d.items() if k not in ks[:len(ks) if isinstance(arg, list) else 1]})
        elif op == 'and':
            lines.append('(c16 h.and %d %s)' % (h, enc(ks)))
            shadow.append({k: v for k, v in d.items() if k in ks})
        elif op == 'add':
            o = rand_other(rng, d)
            lines.append('(c16 h.add %d %s)' % (h, enc(o)))
            shadow.append({**d, **o})
        elif op == 'addh':
            # Dict.__add__ is tree_update (C15), for which only exact dict / Dict / dictattr instances are mappings: before fix C16-A1
            # Dict + an instance of any other dict subclass raised ValueError('node item too short')
            gs = list(range(len(shadow)))
            g = rng.choice(gs)
            lines.append('(c16 h.addh %d %d)' % (h, g))
            shadow.append({**d, **shadow[g]})
        elif op == 'getl':
            lines.append('(c16 h.getl %d %s)' % (h, enc(ks)))
            if all(k in d for k in ks):
                shadow.append({k: d[k] for k in ks})
        elif op == 'relabel':
            olds = rng.sample(sorted(set(KEYS) | (set(d) - set(SHADOW_KEYS) - {'_p'})), rng.choice([0, 1, 2]))
            fresh = ['A', 'B', 'C', 'D2']
            m = {k: fresh[i] for i, k in enumerate(olds) if fresh[i] not in d}
            lines.append('(c16 h.relabel %d %s)' % (h, enc(m)))
            shadow.append({m.get(k, k): v for k, v in d.items()})
        elif op in ('set', 'setattr'):
            v = rand_val(rng)
            lines.append('(c16 h.%s %d %s %s)' % (op, h, enc(k1), enc(v)))
            d[k1] = v
        elif op in ('del', 'delattr'):
            lines.append('(c16 h.%s %d %s)' % (op, h, enc(k1)))
            d.pop(k1, None)
        elif op in ('get', 'getattr'):
            lines.append('(c16 h.%s %d %s)' % (op, h, enc(k1)))
        elif op == 'gett':
            lines.append('(c16 h.gett %d %s)' % (h, enc(tuple(ks if len(ks) != 1 else ks + ks))))
        else:
            lines.append('(c16 h.keys %d)' % h)
        classes += [classes[h]] * (len(shadow) - len(classes))          # an operator's result has the receiver's class
    lines.append('(c16 h.dump)')
    return dict(tag='dictattr-history-shadowed' if shadowed else 'dictattr-history', lines=lines)


def call_line(env, kws):
    parts = []
    for k, v in kws:
        if isinstance(v, tuple):
            parts.append('(K %s (F I:%d%s))' % (proto.hexs(k), v[0], ''.join(' ' + proto.hexs(a) for a in v[1])))
        else:
            parts.append('(K %s I:%d)' % (proto.hexs(k), v))
    return '(c16 call %s%s)' % (enc(env), ''.join(' ' + p for p in parts))


def rand_graph(rng, derived, base, cyclic):
    """dependency lists: acyclic = edges only from earlier to later in a random order; cyclic = plus one back edge closing a cycle of length >= 2"""
    order = list(derived)
    rng.shuffle(order)
    deps = {}
    for i, k in enumerate(order):
        cand = order[:i]
        ds = [a for a in cand if rng.random() < 0.45]
        ds += [b for b in base if b not in derived and rng.random() < 0.4]     # (a base key that is redefined counts as a derived key)
        rng.shuffle(ds)
        deps[k] = ds
    if cyclic and len(order) >= 2:
        i = rng.randrange(len(order) - 1)
        j = rng.randrange(i + 1, len(order))
        deps[order[i]] = deps[order[i]] + [order[j]]
        # make sure order[j] really depends (transitively) on order[i]: add the direct edge
        if order[i] not in deps[order[j]]:
            deps[order[j]] = deps[order[j]] + [order[i]]
    return deps


def gen_call(rng):
    argnames = rng.random() < 0.2       # base / derived keys spelled like parameter names of Dict.__call__ / apply (never `key`: see ASSUMPTIONS)
    base = rng.sample(['a', 'self', 'function'] if argnames else ['a', 'b', 'c'], rng.choice([0, 1, 2, 3]))
    env = {k: rng.randrange(-3, 6) for k in base}
    # `key` as a MEMBER name (seeded C16-u3: the member called `key` dropped from the dependency set): a function declares an argument
    # `key` only when a member of that name exists, so apply's default key = <name of the member being evaluated> is always trumped
    derived = rng.sample(['p', 'self', 'key', 'value', 'function', 'u'] if argnames else ['p', 'q', 'r', 's', 't', 'u'], rng.choice([0, 1, 2, 2, 3, 3, 4, 5, 6]))
    if base and derived and rng.random() < 0.35:
        # a callable may REDEFINE a key the mapping already holds; its dependents must then wait for the new value
        for b in rng.sample(base, rng.choice([1, min(2, len(base))])):
            derived[rng.randrange(len(derived))] = b
        derived = list(dict.fromkeys(derived))
    r = rng.random()
    kind = 'cyclic' if r < 0.2 and len(derived) >= 2 else 'missing-arg' if r < 0.28 and derived else 'acyclic'
    deps = rand_graph(rng, derived, base, kind == 'cyclic')
    if kind == 'missing-arg':
        k = rng.choice(derived)
        deps[k] = deps[k] + ['nokey']
    kws = [(k, (rng.randrange(-2, 4), deps[k])) for k in derived]
    for k in rng.sample(['a', 'b', 'c', 'w'], rng.choice([0, 0, 1, 2])):          # constants, some overriding base keys
        if k not in derived:
            kws.append((k, rng.randrange(10, 14)))
    rng.shuffle(kws)
    return dict(tag='call-' + kind + ('-argname-keys' if argnames and any(k in ARG_KEYS for k in list(env) + [k for k, _ in kws]) else ''), lines=[call_line(env, kws)])


def gen_call_selfloop(rng):
    """correspondence only (outside the `Acyclic` theorems, inside `call_keyword_order_independent`): one callable also reads its OWN key.
    Code and model agree: it is never 'independent'; left alone at the end it is evaluated on the old value of its key (TypeError if there
    is none), with another callable still pending the loop raises ValueError."""
    base = rng.sample(['a', 'b', 'c'], rng.choice([1, 2, 3]))
    env = {k: rng.randrange(-3, 6) for k in base}
    derived = rng.sample(['p', 'q', 'r', 's'], rng.choice([1, 1, 2, 3, 4]))
    if rng.random() < 0.5:
        derived[rng.randrange(len(derived))] = rng.choice(base)          # the self-reading key already has a value
        derived = list(dict.fromkeys(derived))
    deps = rand_graph(rng, derived, base, False)
    k = rng.choice([d for d in derived if d in base] or derived)
    deps[k] = deps[k] + [k]
    kws = [(d, (rng.randrange(-2, 4), deps[d])) for d in derived]
    rng.shuffle(kws)
    return dict(tag='call-selfloop', lines=[call_line(env, kws)])


def all_graphs(n):
    """every dependency graph without self loops on n derived keys p,q,.. (each may also read the base key a)"""
    keys = ['p', 'q', 'r', 's'][:n]
    pairs = [(x, y) for x in keys for y in keys if x != y]
    for mask in range(1 << len(pairs)):
        deps = {k: ['a'] for k in keys}
        for b, (x, y) in enumerate(pairs):
            if mask >> b & 1:
                deps[x] = deps[x] + [y]
        yield keys, deps


def generate(rng, tier):
    for c in (1, 2, 3, 4):
        # the Lean list DAHeap.shadowed against dir(cls) (the python copy MODEL_SHADOWED is only used by the K1 matcher)
        yield dict(tag='shadowed-names', lines=['(c16 shadowed %d)' % c])
    n = 350 if tier == 'quick' else 8000
    for _ in range(n):
        yield gen_ulist_history(rng)
    for _ in range(100 if tier == 'quick' else 2000):
        yield gen_ulist_new_numpy(rng)
    n = 1200 if tier == 'quick' else 30000
    for _ in range(n):
        yield gen_da(rng)
    n = 400 if tier == 'quick' else 8000
    for _ in range(n):
        yield gen_da_history(rng)
    n = 500 if tier == 'quick' else 12000
    for _ in range(n):
        yield gen_call(rng)
    for _ in range(n // 5):
        yield gen_call_selfloop(rng)
    # exhaustive: all graphs on <= 3 (quick) / <= 4 (thorough) derived keys in every keyword order
    for m in ([1, 2, 3] if tier == 'quick' else [1, 2, 3, 4]):
        for keys, deps in all_graphs(m):
            perms = list(itertools.permutations(keys))
            if m == 4:
                perms = rng.sample(perms, 4)
            for perm in perms:
                yield dict(tag='call-all-graphs-%d' % m, lines=[call_line({'a': 1}, [(k, (i, deps[k])) for i, k in enumerate(perm)])])


EXHAUSTIVE = {'quick': False, 'thorough': False}


# ---------------------------------------------------------------- implementation runner

def new_state():
    return dict(heap=[], snap=[], dheap=[], dsnap=[])


def _snap(d):
    """deep: a dict VALUE written through by an operator (the F7 mechanism of C15) must be seen"""
    return _copy.deepcopy(list(d.items()))


def _check_dheap(state):
    for i, (d, (n, s)) in enumerate(zip(state['dheap'], state['dsnap'])):
        if list(d.items()) != s or type(d) is not _cls(n):
            return 'mutated handle %d' % i
    return None


def _run_heap(state, op, args):
    """one operation of a dictattr history on the real objects"""
    from pyg_base import ulist
    heap, snap = state['dheap'], state['dsnap']
    if op == 'h.dump':
        return _check_dheap(state) or 'ok (H' + ''.join(' ' + encd(n, d) for d, (n, _) in zip(heap, snap)) + ')'
    if op == 'h.new':
        n = int(args[0][1])
        res = _cls(n)({proto.unhex(kv[0]): proto.dec(kv[1]) for kv in args[0][2:]})
        heap.append(res)
        snap.append((n, _snap(res)))
        return 'ok ' + encd(n, res)
    h = int(args[0])
    if h >= len(heap) or (op == 'h.addh' and int(args[1]) >= len(heap)):
        return 'bad-op'                       # dangling handle (only in shrunk cases): refused by the model driver too
    d, n = heap[h], snap[h][0]
    cls = _cls(n)
    k = int(args[1]) if op == 'h.addh' else proto.dec(args[1]) if len(args) > 1 else None
    inplace = op in ('h.set', 'h.setattr', 'h.del', 'h.delattr')
    ksnap = _copy.deepcopy(k)
    res = None
    try:
        if op == 'h.copy':
            res = d.copy()
        elif op == 'h.sub':
            res = d - k
        elif op == 'h.and':
            res = d & k
        elif op == 'h.add':
            res = d + k
            bad = _check_or(d, k, res, cls, n)
            if bad:
                return bad
        elif op == 'h.addh':
            res = d + heap[k]
        elif op == 'h.getl':
            res = d[k]
        elif op == 'h.relabel':
            res = d.relabel(**k)
        elif op == 'h.set':
            d[k] = proto.dec(args[2])
        elif op == 'h.setattr':
            v = proto.dec(args[2])
            setattr(d, k, v)
            if not (k in d and (dict.__getitem__(d, k) is v or dict.__getitem__(d, k) == v)):
                snap[h] = (n, _snap(d))
                return 'attribute write d.%s (class %d) = v did not write the item d[%r]' % (k, n, k)
        elif op == 'h.del':
            del d[k]
        elif op == 'h.delattr':
            delattr(d, k)
        elif op in ('h.get', 'h.gett'):
            res = d[k]
        elif op == 'h.getattr':
            res = getattr(d, k)
            if k in d and res is not dict.__getitem__(d, k):
                return 'attribute access d.%s (class %d) differs from item access d[%r]: %s' % (k, n, k, 'a bound method' if inspect.isroutine(res) else enc(res))
            if inspect.isroutine(res):
                return 'ok method'
        elif op == 'h.keys':
            res = d.keys()
            if type(res) is not ulist:
                return 'wrongtype %s' % type(res).__name__
            res = list(res)
        else:
            return 'bad-op'
    finally:
        # frame rule, also when the operation raised: nothing but the target of an in-place operation may change
        if inplace:
            snap[h] = (n, _snap(d))
        bad = _check_dheap(state) or ('mutated operand' if k != ksnap else None)
        if bad:
            return bad
    if inplace:
        return 'ok ' + encd(n, d)
    if op in ('h.get', 'h.getattr', 'h.gett', 'h.keys'):
        return 'ok ' + enc(res)
    if type(res) is not cls:
        return 'wrongtype %s' % type(res).__name__
    if any(res is u for u in heap):
        return 'aliased result'
    heap.append(res)
    snap.append((n, _snap(res)))
    return 'ok ' + encd(n, res)


def _flat(x):
    return not any(isinstance(v, dict) for v in x.values())


def _check_or(d, o, res, cls, n):
    """`d | other` is the plain update `{**d, **other}` of the receiver's class; it equals `d + other` wherever the C16 law for +
    applies (every class but Dict; Dict when `other` holds no dict: theorem dict_add_flat)"""
    alt = d | o
    if type(alt) is not cls or dict(alt) != {**d, **o}:
        return 'or-differs-from-update %s' % enc(dict(alt))
    if (n not in (1, 4) or _flat(o)) and dict(alt) != dict(res):
        return 'or-differs-from-add %s' % enc(dict(alt))
    return None


def _check_heap(state):
    from pyg_base import ulist
    for i, (u, s) in enumerate(zip(state['heap'], state['snap'])):
        if list(u) != s or type(u) is not ulist:
            return 'mutated handle %d' % i
    return None


def make_fn(c, args):
    body = ' + '.join(['%d' % c] + ['%d * %s' % (i + 1, a) for i, a in enumerate(args)])
    return eval('lambda %s: %s' % (', '.join(args), body))


def run_line(state, sx):
    from pyg_base import ulist
    op, args = sx[1], sx[2:]
    if op.startswith('u.'):
        heap = state['heap']
        if op != 'u.new' and (int(args[0]) >= len(heap) or (op.endswith('h') and int(args[1]) >= len(heap))):
            return 'bad-op'                   # dangling handle (only in shrunk cases): refused by the model driver too
        if op in ('u.append', 'u.extend', 'u.iadd', 'u.insert', 'u.setitem', 'u.imul'):
            h = int(args[0])
            u = v = heap[h]
            try:
                if op == 'u.append':
                    u.append(proto.dec(args[1]))
                elif op == 'u.extend':
                    u.extend(proto.dec(args[1]))
                elif op == 'u.iadd':
                    v += proto.dec(args[1])
                elif op == 'u.insert':
                    u.insert(int(args[1]), proto.dec(args[2]))
                elif op == 'u.setitem':
                    u[int(args[1])] = proto.dec(args[2])
                else:
                    v *= int(args[1])
            finally:
                state['snap'][h] = list(u)
                bad = _check_heap(state)
                if bad:
                    return bad
            if v is not u:
                return 'aliased result'          # an in-place operator must return its receiver
            if len(_dedup(list(u))) != len(u):
                return 'duplicates %s' % enc(list(u))
            return 'ok ' + enc(list(u))
        if op == 'u.new':
            res = ulist(proto.dec(args[0]))
        elif op == 'u.copy':
            res = heap[int(args[0])].copy()
        else:
            u = heap[int(args[0])]
            x = heap[int(args[1])] if op.endswith('h') else proto.dec(args[1])
            f = op[:5]
            res = u + x if f == 'u.add' else (u & x if f == 'u.and' else u - x)
            if f == 'u.add':
                alt = u | x
                if list(alt) != list(res) or type(alt) is not ulist:
                    return 'or-differs-from-add %s' % enc(list(alt))
        if type(res) is not ulist:
            return 'wrongtype %s' % type(res).__name__
        bad = _check_heap(state)
        if bad:
            return bad
        if any(res is u for u in heap):
            return 'aliased result'
        heap.append(res)
        state['snap'].append(list(res))
        return 'ok ' + enc(list(res))
    if op == 'shadowed':
        return 'ok ' + enc(sorted(a for a in dir(_cls(int(args[0]))) if not a.startswith('_')))
    if op.startswith('h.'):
        return _run_heap(state, op, args)
    if op.startswith('d.'):
        n = int(args[0][1])
        cls = _cls(n)
        d = cls({proto.unhex(kv[0]): proto.dec(kv[1]) for kv in args[0][2:]})
        snap = _snap(d)
        if op == 'd.relabela':
            k = REL_FNS[args[1][1]] if isinstance(args[1], list) and args[1][0] == 'FN' else proto.dec(args[1])
            kw = proto.dec(args[2])
            ksnap = k if callable(k) else _copy.deepcopy(k)
        else:
            k = proto.dec(args[1]) if len(args) > 1 else None
            ksnap = _copy.deepcopy(k)
        if op == 'd.sub':
            res = d - k
        elif op == 'd.and':
            res = d & k
        elif op in ('d.getl', 'd.gett', 'd.get'):
            res = d[k]
        elif op == 'd.add':
            res = d + k
            bad = _check_or(d, k, res, cls, n)
            if bad:
                return bad
        elif op == 'd.relabel':
            res = d.relabel(**k)
        elif op == 'd.relabela':
            res = d.relabel(**kw) if k is None else d.relabel(k, **kw)
            if rng_free_rename_differs(d, k, kw, res):
                return 'rename differs from relabel'
        elif op == 'd.keys':
            res = d.keys()
            if type(res) is not ulist:
                return 'wrongtype %s' % type(res).__name__
            res = list(res)
        if list(d.items()) != snap or type(d) is not cls or k != ksnap:
            return 'mutated operand'
        if op == 'd.get' and k.isidentifier() and not k.startswith('_'):
            a = getattr(d, k)
            if a is not res and a != res:
                return 'attribute access differs from item access'
        if op in ('d.gett', 'd.get', 'd.keys'):
            return 'ok ' + enc(res)
        if type(res) is not cls:
            return 'wrongtype %s' % type(res).__name__
        if res is d:
            return 'aliased result'
        return 'ok ' + encd(n, res)
    if op == 'call':
        from pyg_base import Dict
        d = Dict({proto.unhex(kv[0]): proto.dec(kv[1]) for kv in args[0][1:]})
        snap = list(d.items())
        kw = {}
        for k in args[1:]:
            key = proto.unhex(k[1])
            kw[key] = make_fn(int(k[2][1][2:]), [proto.unhex(a) for a in k[2][2:]]) if isinstance(k[2], list) else proto.dec(k[2])
        try:
            res = d(**kw)
        finally:
            if list(d.items()) != snap:
                return 'mutated operand'
        if type(res) is not Dict:
            return 'wrongtype %s' % type(res).__name__
        return 'ok ' + enc(dict(res))
    return 'bad-op'


def _canon_reply(r, ordered=True):
    """canonical form of a reply (numbers exact).  The key ORDER of a mapping is kept: `sub_keys`, `and_keys`, `relabel_keys`,
    `add_keys`/`setAll` pin the insertion order of every result (the order of d, new keys behind), and python `==` on dicts - which
    ignores it - would hide a model/code difference there.  `ordered=False` gives the order-insensitive form (only used to tell
    an order-only difference apart)."""
    a = r.split(None, 1)
    if a[0] != 'ok' or len(a) != 2:
        return r
    sx = proto.parse(a[1])
    srt = (lambda x: tuple(x)) if ordered else (lambda x: tuple(sorted(x)))
    if isinstance(sx, list) and sx and sx[0] == 'DC':
        return ('DC', sx[1]) + srt((kv[0], _canon_val(kv[1], ordered)) for kv in sx[2:])
    if isinstance(sx, list) and sx and sx[0] == 'H':
        return ('H',) + tuple(('DC', d[1]) + srt((kv[0], _canon_val(kv[1], ordered)) for kv in d[2:]) for d in sx[1:])
    return proto.canon(sx)


def _canon_val(sx, ordered):
    """proto.canon sorts the items of a dict value; keep their order when asked to"""
    if ordered and isinstance(sx, list) and sx and sx[0] == 'D':
        return ('Dord',) + tuple((kv[0], _canon_val(kv[1], ordered)) for kv in sx[1:])
    return proto.canon(sx)


def compare(case, i, line, ir, mr):
    if ir == mr:
        return None
    if ir.split()[0] in ('mutated', 'wrongtype', 'aliased', 'or-differs-from-add', 'or-differs-from-update', 'attribute', 'duplicates'):
        return 'side effect / class / alias / uniqueness rule broken: %s' % ir
    try:
        ci, cm = _canon_reply(ir), _canon_reply(mr)
    except Exception:
        ci, cm = ir, mr
    if ci == cm:
        return None
    op = proto.parse(line)[1]
    if op == 'shadowed':
        a, b = proto.parse(ir[3:])[1:], proto.parse(mr[3:])[1:]
        if sorted(a) == sorted(b):
            return None
        return ('divergence', 'public attributes of class %s: dir(cls) gives %s, the model (DAHeap.shadowed) lists %s' % (line, sorted(map(proto.dec, a)), sorted(map(proto.dec, b))))
    if op in ('d.add', 'h.add') and (case.get('tag', '').endswith('-empty') or _line_has_empty(line)):
        return ('divergence', 'empty dict values are outside the quantifier of C15 (Dict + other): implementation %s, model %s' % (ir, mr))
    try:
        if _canon_reply(ir, False) == _canon_reply(mr, False):
            return 'same items in another ORDER: implementation %s, specification (model) %s' % (ir, mr)
    except Exception:
        pass
    if op == 'call' and ir.startswith('err') and mr.startswith('err') and 'ValueError' not in (ir + mr):
        return ('divergence', 'error kinds differ: %s vs %s' % (ir, mr))
    return 'implementation %s, specification (model) %s' % (ir, mr)


def _line_has_empty(line):
    return '(D)' in line


def nontrivial(line, reply):
    if reply == 'err Other' and ('h.getattr' in line or 'h.delattr' in line):     # AttributeError for an absent key
        return True
    if not (reply.startswith('ok') or reply in ('err ValueError', 'err KeyError')):
        return False
    return '(L)' not in line and '(DC 1)' not in line and '(DC 2)' not in line and '(DC 3)' not in line and '(DC 4)' not in line


# ---------------------------------------------------------------- laws on the implementation alone

def _dedup(xs):
    out = []
    for x in xs:
        if x not in out:
            out.append(x)
    return out


def _first_members(xs):
    """reference for the constructor: first occurrences, two elements being one member when they are the same object or have the same
    hash and compare == (what a python set / dict key means; written out so that neither set() nor dict is relied on)"""
    out = []
    for x in xs:
        if not any(y is x or (hash(y) == hash(x) and bool(y == x)) for y in out):
            out.append(x)
    return out


def _roundtrips(x):
    try:
        y = proto.dec(proto.parse(enc(x)))
    except Exception:
        return False
    if isinstance(x, tuple):
        return isinstance(y, tuple) and len(x) == len(y) and all(type(a) is type(b) and a == b for a, b in zip(x, y))
    return type(y) is type(x) and y == x


def _topo_eval(env, consts, fns):
    """reference: evaluate every callable once all of its callable arguments are known; None if impossible (cycle)"""
    res = dict(env)
    res.update(consts)
    pending = dict(fns)
    while pending:
        ready = [k for k, (c, args) in pending.items() if not any(a in pending for a in args)]
        if not ready:
            return None
        vals = {k: make_fn(*pending[k])(**{a: res[a] for a in pending[k][1]}) for k in ready}
        res.update(vals)
        for k in ready:
            del pending[k]
    return res


def _ref_add(cls_n, d, o):
    """reference for d + o: {**d, **o}; for Dict (C15 governs dict values) a dict of o is merged into a dict of d under the same key"""
    def merge(a, b):
        res = dict(a)
        for k, v in b.items():
            if isinstance(v, dict):
                res[k] = merge(res[k] if isinstance(res.get(k), dict) else {}, v)
            else:
                res[k] = v
        return res
    return merge(d, o) if cls_n in (1, 4) else {**d, **o}


INPLACE = [('append', lambda l, x, xs, i, n: l.append(x)), ('extend', lambda l, x, xs, i, n: l.extend(xs)),
           ('+=', lambda l, x, xs, i, n: l.__iadd__(xs)), ('insert', lambda l, x, xs, i, n: l.insert(i, x)),
           ('u[i]=x', lambda l, x, xs, i, n: l.__setitem__(i, x)), ('u[i:j]=xs', lambda l, x, xs, i, n: l.__setitem__(slice(i, i + 1), xs)),
           ('*=', lambda l, x, xs, i, n: l.__imul__(n))]
MODEL_SHADOWED = {1: {'clear', 'copy', 'fromkeys', 'get', 'items', 'keys', 'pop', 'popitem', 'setdefault', 'update', 'values', 'relabel', 'rename',
                      'apply', 'do', 'if_none', 'if_else'}}
MODEL_SHADOWED[2] = MODEL_SHADOWED[3] = MODEL_SHADOWED[1] - {'apply', 'do', 'if_none', 'if_else'}
MODEL_SHADOWED[4] = MODEL_SHADOWED[1]


def laws(rng, tier, ctx):
    from pyg_base import ulist, Dict, dictattr
    count = 0
    # assumption of the model (DAHeap.shadowed): the public attribute names of the three classes
    for n in (1, 2, 3, 4):
        count += 1
        names = {a for a in dir(_cls(n)) if not a.startswith('_')}
        if names != MODEL_SHADOWED[n]:
            yield Finding('divergence', dict(tag='law-shadowed-names', lines=[]), 'public attributes of class %d are %s, the model (DAHeap.shadowed) lists %s'
                          % (n, sorted(names), sorted(MODEL_SHADOWED[n])))
    # in-place list operations: the ulist afterwards is ulist(what a plain list would hold) - never a duplicate, first occurrences kept
    m = 300 if tier == 'quick' else 6000
    for _ in range(m):
        pool = rng.sample(ELEMS, rng.choice([3, 5, 8]))
        xs, ys = rand_elems(rng, pool), rand_elems(rng, pool)
        x, i, n = rng.choice(pool), rng.choice([0, 0, 1, 2, 5]), rng.choice([0, 1, 2, 3])
        for name, f in INPLACE:
            u, ref = ulist(xs), _dedup(xs)
            proto_op = {'append': '(c16 u.append 0 %s)' % enc(x), 'extend': '(c16 u.extend 0 %s)' % enc(ys), '+=': '(c16 u.iadd 0 %s)' % enc(ys),
                        'insert': '(c16 u.insert 0 %d %s)' % (i, enc(x)), 'u[i]=x': '(c16 u.setitem 0 %d %s)' % (i, enc(x)),
                        'u[i:j]=xs': None, '*=': '(c16 u.imul 0 %d)' % n}[name]
            case = dict(tag='law-ulist-inplace', lines=['(c16 u.new %s)' % enc(xs)] + ([proto_op] if proto_op else []))
            if proto_op is None:
                case['note'] = 'u[%d:%d] = %s (slice assignment has no protocol line: this finding does not replay)' % (i, i + 1, enc(ys))
            count += 1
            try:
                f(ref, x, ys, i, n)
            except IndexError:
                continue
            f(u, x, ys, i, n)
            if type(u) is not ulist or list(u) != _dedup(ref):
                yield Finding('violation', case, 'ulist after %s is %s; a list without duplicates in first-occurrence order would be %s' % (name, enc(list(u)), enc(_dedup(ref))))
    # (w2 F3) the constructor on every kind of hashable element, decided by IDENTITY of the kept objects: the members are the first
    # occurrences, in their order, where two elements are one member exactly when python's sets / dicts say so (same hash and ==)
    for _ in range(600 if tier == 'quick' else 12000):
        pool = rng.sample(ELEMS + NP_ELEMS + LAW_ELEMS + [(2,), (3,), (1,)], rng.choice([2, 3, 5, 8]))
        xs = [rng.choice(pool) for _ in range(rng.choice([2, 3, 4, 6, 9]))]
        count += 1
        lines = ['(c16 u.new %s)' % enc(xs)] if all(_roundtrips(x) for x in xs) else []
        case = dict(tag='law-ulist-new-identity', lines=lines, note='ulist(%r)' % (xs,))
        want = _first_members(xs)
        try:
            got = list(ulist(xs))
        except Exception as e:
            yield Finding('violation', case, 'ulist(%r) raised %s: %s' % (xs, type(e).__name__, e))
            continue
        if [id(x) for x in got] != [id(x) for x in want]:
            yield Finding('violation', case, 'ulist(%r) = %r; the first occurrences of its members (same hash and ==), in order, are %r' % (xs, got, want))
    m = 400 if tier == 'quick' else 8000
    for _ in range(m):
        pool = rng.sample(ELEMS, rng.choice([3, 5, 8]))
        xs, ys = rand_elems(rng, pool), rand_elems(rng, pool)
        e = rng.choice(pool)
        u = ulist(xs)
        snap = list(u)
        case = dict(tag='law-ulist', lines=['(c16 u.new %s)' % enc(xs), '(c16 u.add 0 %s)' % enc(ys), '(c16 u.and 0 %s)' % enc(ys),
                                            '(c16 u.sub 0 %s)' % enc(ys), '(c16 u.add 0 %s)' % enc(e), '(c16 u.and 0 %s)' % enc(e), '(c16 u.sub 0 %s)' % enc(e)])
        base = _dedup(xs)
        exp = [('new', u, base), ('+list', u + ys, _dedup(base + ys)), ('|list', u | ys, _dedup(base + ys)),
               ('&list', u & ys, [x for x in base if x in ys]), ('-list', u - ys, [x for x in base if x not in ys]),
               ('+elem', u + e, _dedup(base + [e])), ('|elem', u | e, _dedup(base + [e])),
               ('&elem', u & e, [x for x in base if x == e]), ('-elem', u - e, [x for x in base if x != e])]
        for name, got, want in exp:
            count += 1
            if type(got) is not ulist:
                yield Finding('violation', case, 'ulist %s returned a %s' % (name, type(got).__name__))
            elif list(got) != want:
                yield Finding('violation', case, 'ulist %s = %s, ordered set algebra gives %s' % (name, enc(list(got)), enc(want)))
            elif len(set(map(repr, got))) != len(got) and len(_dedup(list(got))) != len(got):
                yield Finding('violation', case, 'ulist %s holds duplicates' % name)
        if list(u) != snap:
            yield Finding('violation', case, 'ulist operand modified')
    m = 400 if tier == 'quick' else 8000
    for _ in range(m):
        cls_n, d0 = rand_da(rng)
        cls = _cls(cls_n)
        d = cls(d0)
        ks = rand_keysel(rng, d0)
        o = rand_other(rng, d0)
        if any(_has_empty(v) for v in o.values()):
            continue
        case = dict(tag='law-dictattr', lines=['(c16 d.sub %s %s)' % (encd(cls_n, d0), enc(ks)), '(c16 d.and %s %s)' % (encd(cls_n, d0), enc(ks)),
                                               '(c16 d.add %s %s)' % (encd(cls_n, d0), enc(o))])
        ops = [('-', lambda x: x - ks, {k: v for k, v in d0.items() if k not in ks}), ('&', lambda x: x & ks, {k: v for k, v in d0.items() if k in ks}),
               ('+', lambda x: x + o, _ref_add(cls_n, d0, o)), ('|', lambda x: x | o, {**d0, **o})]
        if all(k in d0 for k in ks):
            ops.append(('[list]', lambda x: x[ks], {k: d0[k] for k in ks}))
        checks = []
        deep0, deepo = _copy.deepcopy(d0), _copy.deepcopy(o)
        for name, f, want in ops:
            x = cls(d0)                      # a fresh operand per operator: an operator that writes its operand cannot derail the next law
            checks.append((name, f(x), want))
            count += 1
            if dict(x) != deep0 or list(x) != list(d0) or o != deepo:
                yield Finding('violation', case, 'dictattr operand modified by %s' % name)
        for name, got, want in checks:
            count += 1
            if type(got) is not cls:
                yield Finding('violation', case, 'dictattr %s returned a %s, not a %s' % (name, type(got).__name__, cls.__name__))
            elif dict(got) != want or (name != '+' and list(got) != list(want)):
                yield Finding('violation', case, 'dictattr %s = %s, expected %s (same key order)' % (name, enc(dict(got)), enc(want)))
        count += 2
        x = cls(d0)
        if list((x - ks).keys()) != list(d.keys() - ks):
            yield Finding('violation', case, '(d - k).keys() != d.keys() - k')
        if dict(x) != d0 or list(x) != list(d0) or dict(d) != d0 or list(d) != list(d0):
            yield Finding('violation', case, 'dictattr operand modified')
        if ks and all(k in d0 for k in ks) and len(ks) > 1:
            count += 1
            if d[tuple(ks)] != [d0[k] for k in ks]:
                yield Finding('violation', case, 'd[k1, k2] is not the list of values')
        for k in d0:
            count += 1
            a = getattr(d, k)
            if a is not d0[k] and a != d0[k]:
                yield Finding('violation', case, 'attribute access does not mirror item access')
    # Dict.__call__: every keyword order gives the dependency-order result; cycles raise ValueError
    m = 150 if tier == 'quick' else 3000
    for _ in range(m):
        c = gen_call(rng)
        if c['tag'].startswith('call-missing-arg'):
            continue
        sx = proto.parse(c['lines'][0])
        env = {proto.unhex(kv[0]): proto.dec(kv[1]) for kv in sx[2][1:]}
        kws = [(proto.unhex(k[1]), (int(k[2][1][2:]), [proto.unhex(a) for a in k[2][2:]]) if isinstance(k[2], list) else proto.dec(k[2])) for k in sx[3:]]
        consts = {k: v for k, v in kws if not isinstance(v, tuple)}
        fns = {k: v for k, v in kws if isinstance(v, tuple)}
        want = _topo_eval(env, consts, fns)
        perms = [kws] + [rng.sample(kws, len(kws)) for _ in range(3 if tier == 'quick' else 8)]
        for perm in perms:
            count += 1
            case = dict(tag='law-' + c['tag'], lines=[call_line(env, perm)])
            d = Dict(env)
            try:
                got = d(**{k: (make_fn(*v) if isinstance(v, tuple) else v) for k, v in perm})
                got = dict(got)
            except ValueError:
                got = None
            except Exception as e:
                yield Finding('violation', case, 'Dict.__call__ raised %s' % type(e).__name__)
                continue
            if dict(d) != env:
                yield Finding('violation', case, 'Dict.__call__ modified its receiver')
            if got != want:
                yield Finding('violation', case, 'Dict.__call__ gave %s; evaluation in dependency order gives %s (None = ValueError for a circular definition)'
                              % (got if got is None else enc(got), want if want is None else enc(want)))
    yield count


def _k1(f):
    """K1, exactly (review s2 F4): READING an attribute whose name is a public attribute of the handle's OWN class yields a bound
    method instead of the item; reading / writing a private name (leading underscore) goes to the instance dict.  Not matched: a
    shadowed public name whose WRITE does not reach the item (K1 says it does), a wrong non-method value, a name that is no
    attribute of this class (apply/do/if_none/if_else on a dictattr)."""
    d = f.detail or ''
    m = re.search(r'attribute access d\.(\w+) \(class (\d)\) differs from item access d\[[^\]]*\]: (.*)$', d)
    if m:
        name, cls, what = m.group(1), int(m.group(2)), m.group(3)
        return name.startswith('_') or (name in MODEL_SHADOWED[cls] and what.startswith('a bound method'))
    m = re.search(r'attribute write d\.(\w+) \(class (\d)\) = v did not write the item', d)
    return bool(m) and m.group(1).startswith('_')


def _k2(f):
    """K2, exactly: `d + other` (Dict.__add__ = tree_update) where `other` is a HANDLE that holds, at some depth, a branch whose class is
    a dict subclass other than dict / Dict / dictattr - e.g. the branches `MyDict + {...}` itself creates (a new branch gets the class of
    the root) - which tree_update reads as a LEAF: the branch of d under that key is replaced, not merged.  Accepted only when: the failing
    line is an h.addh, the receiver is a Dict, the operand really holds such a nested branch, and the implementation's answer on the same
    operand with all nested branches made plain dicts IS the model's answer (so nothing else differs)."""
    lines = f.case.get('lines', [])
    i = getattr(f, 'line_index', None)
    if i is None or i >= len(lines) or not lines[i].startswith('(c16 h.addh '):
        return False
    from pyg_base import Dict, dictattr
    st = new_state()
    for l in lines[:i]:
        try:
            run_line(st, proto.parse(l))
        except Exception:
            pass                              # a line that raises (KeyError, ...) allocates nothing, as in the engine
    try:
        sx = proto.parse(lines[i])
        h, g = int(sx[2]), int(sx[3])
        d, o, n = st['dheap'][h], st['dheap'][g], st['dsnap'][h][0]
    except Exception:
        return False
    strict = lambda v: isinstance(v, dict) and type(v) not in (dict, Dict, dictattr)          # noqa: E731
    nested = lambda v: isinstance(v, dict) and any(strict(x) or nested(x) for x in v.values())   # noqa: E731
    plain = lambda v: {k: plain(x) for k, x in v.items()} if isinstance(v, dict) else v        # noqa: E731
    if not isinstance(d, Dict) or not nested(o) or not isinstance(f.model, str):
        return False
    try:
        res = d + plain(o)
    except Exception:
        return False
    return _canon_reply('ok ' + encd(n, res)) == _canon_reply(f.model)


MATCHERS = {'attribute_name_is_a_method_or_private': _k1, 'nested_subclass_branch_is_a_leaf': _k2}
