"""C03 - alignment puts all timeseries on the prescribed common index, values intact."""
import math
import collections
import numpy as np
import pandas as pd
from .. import proto
from ..engine import Finding
from . import _w5ts as W
from . import c12 as C12

ID = 'C03'
TITLE = 'alignment puts all timeseries on the prescribed common index, values intact'
LEAN_FILES = ['Basic', 'TSBasic', 'Fill', 'FillDriver', 'Align', 'AlignDriver', 'FillAlias', 'FillLemmas', 'FillIndep', 'FillRows', 'FillEdge', 'FillAliasLemmas', 'AlignLemmas', 'AlignAsOf', 'AlignTree', 'AlignLimit', 'AlignFill', 'C12', 'C03']
RULE = ('distinct protocol lines (container, join policy, fill method, column policy) on which the implementation returned a value '
        'and the container holds at least two timeseries / arrays with different indices / lengths')
TRUSTED = ['correspondence harness (pv.engine, pv.proto, pv.props._w5ts) and generators of pv.props.c03',
           'Lean driver parser/printer (PygModel/Basic.lean, TSBasic.lean, FillDriver.lean, AlignDriver.lean)']
ASSUMPTIONS = ['pandas: Index.intersection/union of sorted DatetimeIndexes are the sorted set operations; reindex(index) is a lookup; '
               'reindex(index, method=ffill|bfill) of a NaN-free sorted object is the as-of / next-observation lookup (reference functions of PygModel/Align.lean, sampled)',
               'reindex(index, method, limit) of a NaN-free sorted object onto a sorted index: of the requested labels landing inexactly on one observation only the first `limit` '
               '(from the observation outwards) get it (libalgos.pad / backfill; reference limAux of PygModel/Align.lean, sampled)',
               'indices are sorted and duplicate-free; explicit indices likewise; limit in {None, 1, 2, 3} (limit=0 not generated); method lists and numeric / other fill methods '
               '(outside the quantifier, which names None / ffill / bfill) go through the C12 model for the tail of the list and are generated lightly',
               'nested tuples (_list does not descend into them: members reindexed, not counted for the joint index) are outside the statement (nested lists/dicts) and generated only lightly, against the model',
               'presync with join naming a parameter: the named argument is a timeseries, a pd.Index, an array or dict(index=...); a list / plain dict there (list of indexes, no reindex accepts it) is not generated',
               'the ORDER of the columns after column alignment is not compared (a set in the statement); arrays mixed with pandas objects (ValueError) are sampled only lightly; 2-d arrays are NOT generated (the wire carries 1-d arrays only; probed by hand: '
               'df_sync([a(3x2), b(1x2), c(2,)], "oj") front-pads each along axis 0)',
               'float values are exact multiples of 1/4',
               'READING of clause 2 ("at each surviving timestamp a series keeps exactly its original value"): it is read for VALUES - a NaN cell held at a surviving '
               'timestamp is not an observation; with a fill method it is filled like a timestamp the series lacked (the code reindexes `_nona(ts)`; df_reindex(x, x.index, "ffill") '
               'equals df_fillna(x, "ffill"), not x: theorems reindex_fill_own_nan, reindex_own_index_ffill/_bfill, law-reindex-own-index); without a fill method the NaN stays. '
               'Non-NaN cells are kept under every method (reindex_keep, reindex_fill_keeps)',
               'containers (rounds i4 / j4): list / tuple / dict and - tags DS / DD - instances of a dict SUBCLASS and collections.defaultdict, which `_list` opens and `loops` does not (known finding C03-S1, matcher dict_subclass_left_unaligned); presync lines with subclass containers are not generated. An explicit index is given as pd.Index / Series / dict(index=..): the LIST and ndarray spellings raise or work depending on the data (`df_reindex(a, [d1, d2])` works for one series, `df_reindex([a, b], [d1, d2])` raises - loops splits the list) and are outside these three spellings; intraday stamps and `pd.Series([], dtype=float)` members are not generated (probed: outer gives all-NaN on the datetime index, inner empty)',
               "presync policy words (round k4, review v4 2.2): since repo fix d00fd3f (C03-W1) inner / outer / left / right / ij / oj / lj / rj always mean the policy, whatever the parameters of the decorated function are called (presyncw lines: names left / right / inner / outer / x / y, policy as word, attribute or default); any OTHER string that names a parameter selects that argument's index (presyncn lines, names p0..p3). RESERVED NAMES (round l4, review w4 F4): 'whatever the parameters are called' holds for arguments given POSITIONALLY (presyncw names join / method / columns are generated so) and for keywords of any other name (spelling kw); the keywords join, method and columns are presync's own documented controls, popped before the call (_pandas.py presync.wrapped), so a decorated function with a PARAMETER called join / method / columns cannot be given it by keyword - presync(lambda x, method: ..)(a, method = b) reads b as the fill method and raises TypeError missing argument 'method'. Declared, not a finding: join = 'oj' by keyword must stay the policy; such calls are outside 'presync-decorated functions get their arguments' as checked here. presync with columns != False is sampled (law-presync-columns) and, for pointwise functions, proved under C08 (binopFG_value); the ORDER of aligned columns is compared as a set"]
S = 4
nan = float('nan')
VALS = [1.0, 2.0, 0.0, -1.5, 0.25, 3.0, 7.75, -4.0, 10.0, 20.5]
HOWS = ['ij', 'oj', 'lj', 'rj']
HOW_WORD = {'ij': 'ij', 'oj': 'oj', 'lj': 'lj', 'rj': 'rj'}
METHODS = ['N', 'ffill', 'bfill']
SCALARS = [None, 1, 2.5, 'a', 'xyz', True]


# ------------------------------------------------------------------ wire

class MyDict(dict):
    """a user subclass of dict (review v4 2.1): `_list` / `df_index` open every `isinstance(.., dict)`, `loops` used to open only the
    classes it was given by exact type"""


def like_dict(x, items):
    """a dict of the same class as x (a defaultdict keeps its factory)"""
    if isinstance(x, collections.defaultdict):
        return collections.defaultdict(x.default_factory, items)
    return type(x)(items)


def subdicts(rng, x, p=0.5):
    """the same tree with some of its dicts as a dict SUBCLASS instance / a defaultdict"""
    if isinstance(x, (list, tuple)):
        return type(x)(subdicts(rng, v, p) for v in x)
    if isinstance(x, dict) and 'index' not in x:
        kids = {k: subdicts(rng, v, p) for k, v in x.items()}
        r = rng.random()
        return MyDict(kids) if r < p / 2 else collections.defaultdict(list, kids) if r < p else kids
    return x


def has_subdict(x):
    if isinstance(x, (list, tuple)):
        return any(has_subdict(v) for v in x)
    if isinstance(x, dict):
        return type(x) is not dict or any(has_subdict(v) for v in x.values())
    return False


def enc_tree(x, reply=False):
    """`reply`: a result - every dict spells `D` (the model has one kind of dict; that the CLASS of each container is kept is checked
    by `passthrough_ok` on the implementation's side, `type(a) is type(b)`)"""
    if reply:
        return enc_tree(x).replace('(DS', '(D').replace('(DD', '(D')
    if isinstance(x, pd.Series):
        return '(ts %s)' % W.enc_series(x, S)
    if isinstance(x, pd.DataFrame):
        return '(df %s)' % W.enc_frame(x, S)
    if isinstance(x, np.ndarray):
        return '(arr %s)' % W.enc_arr(x, S)
    if isinstance(x, pd.Index):
        return '(pi%s)' % ''.join(' ' + W.enc_t(t) for t in x)
    if isinstance(x, list):
        return '(L' + ''.join(' ' + enc_tree(v) for v in x) + ')'
    if isinstance(x, tuple):
        return '(T' + ''.join(' ' + enc_tree(v) for v in x) + ')'
    if isinstance(x, dict):
        tag = 'D' if type(x) is dict else 'DD' if isinstance(x, collections.defaultdict) else 'DS'
        return '(' + tag + ''.join(' (%s %s)' % (proto.hexs(k), enc_tree(v)) for k, v in x.items()) + ')'
    return '(o %s)' % proto.enc(x)


def dec_tree(sx):
    h = sx[0]
    if h == 'ts':
        return W.dec_series(sx[1], S)
    if h == 'df':
        return W.dec_frame(sx[1], S)
    if h == 'arr':
        return W.dec_arr1(sx[1], S)
    if h == 'o':
        return proto.dec(sx[1])
    if h == 'pi':
        return pd.DatetimeIndex([W.dec_t(a) for a in sx[1:]])
    if h == 'L':
        return [dec_tree(v) for v in sx[1:]]
    if h == 'T':
        return tuple(dec_tree(v) for v in sx[1:])
    if h == 'D':
        return {proto.unhex(kv[0]): dec_tree(kv[1]) for kv in sx[1:]}
    if h == 'DS':
        return MyDict({proto.unhex(kv[0]): dec_tree(kv[1]) for kv in sx[1:]})
    if h == 'DD':
        return collections.defaultdict(list, {proto.unhex(kv[0]): dec_tree(kv[1]) for kv in sx[1:]})
    raise ValueError('bad tree %r' % (h,))


def dec_method(a):
    """N | ffill | bfill | a method list / tuple / bare method in the spelling of C12"""
    if isinstance(a, list):
        return C12.dec_methods(a)
    return None if a == 'N' else a


MLISTS = [['ffill', 'bfill'], ['bfill', 'ffill'], ['ffill', 'c:0'], ['bfill', 'c:6'], ['c:0'], ['c:-3'], ['ffill_na'], ['ffill_0'], ['ffill', 'ffill_0'],
          ['bfill', 'ffill_na'], ['ffill_na', 'bfill'], ['c:4', 'ffill'], ['ffill', 'ffill'], ['backfill'], ['backfill', 'c:0'], ['ffill'], ['bfill'], []]


def rand_mlist(rng, removing=True):
    """a method LIST / tuple / bare numeric method (outside the quantifier; the tail goes through C12's df_fillna)"""
    ms = list(rng.choice(MLISTS))
    if removing and rng.random() < 0.12:
        ms.insert(rng.randint(0, len(ms)), rng.choice(['nona', 'fnna']))
    sp = 'M1' if len(ms) == 1 and rng.random() < 0.6 else rng.choice(['M', 'M', 'MT'])
    return C12.enc_methods(ms, sp)


def mtag(m):
    return m if m in METHODS else 'mlist'


def enc_join(days, spelling='X'):
    return '(%s%s)' % (spelling, ''.join(' ' + W.enc_t(W.day(d)) for d in days))


def dec_join(a):
    """a policy word, or an explicit index in one of its three spellings: pd.Index / a timeseries carrying it / dict(index=...)"""
    if not isinstance(a, list):
        return a
    if a[0] == 'N':
        return int(a[1][2:])
    idx = pd.DatetimeIndex([W.dec_t(x) for x in a[1:]])
    if a[0] == 'XS':
        return pd.Series(np.arange(len(idx), dtype=float), idx)
    if a[0] == 'XD':
        return dict(index=idx)
    return idx


# ------------------------------------------------------------------ generators

def rand_days(rng, kind, base):
    """an index (sorted list of day numbers 0..11) related to `base` in a prescribed way"""
    if kind == 'empty':
        return []
    if kind == 'disjoint':
        pool = [d for d in range(12) if d not in base]
    elif kind == 'nested':
        pool = list(base) or list(range(12))
    elif kind == 'super':
        extra = [d for d in range(12) if d not in base]
        return sorted(set(base) | set(rng.sample(extra, min(len(extra), rng.randint(0, 3)))))
    else:
        pool = list(range(12))
    k = rng.randint(1, max(1, min(len(pool), 6)))
    return sorted(rng.sample(pool, min(k, len(pool))))


def rand_series(rng, days, nan_rate):
    return pd.Series([nan if rng.random() < nan_rate else rng.choice(VALS) for _ in days], pd.DatetimeIndex([W.day(d) for d in days]), dtype=float)


def rand_frame(rng, days, nan_rate, names):
    return pd.DataFrame({c: np.array([nan if rng.random() < nan_rate else rng.choice(VALS) for _ in days], dtype=float) for c in names},
                        index=pd.DatetimeIndex([W.day(d) for d in days]), columns=names, dtype=float)


def rand_members(rng, with_frames):
    """2-4 timeseries with a chosen index relation, plus the relation's name"""
    rel = rng.choice(['disjoint', 'nested', 'super', 'overlap', 'overlap', 'empty'])
    base = rand_days(rng, 'overlap', [])
    n = rng.choice([2, 2, 3, 4])
    nan_rate = rng.choice([0.0, 0.2, 0.4, 0.6])
    out = []
    for j in range(n):
        days = base if j == 0 else rand_days(rng, rel if (rel != 'empty' or j == 1) else 'overlap', base)
        if with_frames and rng.random() < 0.5:
            names = rng.choice([['a', 'b'], ['b', 'c'], ['a', 'c'], ['a', 'b', 'c'], ['b'], ['z']])
            out.append(rand_frame(rng, days, nan_rate, names))
        else:
            out.append(rand_series(rng, days, nan_rate))
    rng.shuffle(out)
    return out, rel


def wrap(rng, members, shape):
    """put the members (and some non-timeseries) into a container of the given shape"""
    extras = [rng.choice(SCALARS) for _ in range(rng.choice([0, 1, 1, 2]))]
    items = list(members) + extras
    if shape != 'flat-list-pure':
        rng.shuffle(items)
    if shape in ('flat-list', 'flat-list-pure'):
        return items
    if shape == 'flat-tuple':
        return tuple(items)
    if shape == 'flat-dict':
        return {k: v for k, v in zip('pqrstuvw', items)}
    if shape == 'nested2':
        cut = rng.randint(1, max(1, len(items) - 1))
        inner = items[:cut]
        inner = inner if rng.random() < 0.5 else {k: v for k, v in zip('xyzw', inner)}
        rest = items[cut:]
        return [inner] + rest if rng.random() < 0.5 else {'n': inner, **{k: v for k, v in zip('pqrs', rest)}}
    if shape == 'nested-tuple':
        # a tuple BELOW the top level: `_list` does not open it, so its members are reindexed but do not contribute to the joint
        # index (outside the statement, which speaks of nested lists / dicts; the model follows the code here)
        cut = rng.randint(1, max(1, len(items) - 1))
        return [tuple(items[:cut])] + items[cut:]
    # nested3
    a, b = items[:1], items[1:]
    cut = rng.randint(0, len(b))
    return [[a + [rng.choice(SCALARS)], {'k': b[:cut]}], b[cut:], 'leaf']


def generate(rng, tier):
    n = 700 if tier == 'quick' else 20000
    for _ in range(n):
        with_frames = rng.random() < 0.35
        members, rel = rand_members(rng, with_frames)
        shape = rng.choice(['flat-list', 'flat-list', 'flat-list-pure', 'flat-tuple', 'flat-dict', 'nested2', 'nested2', 'nested3'] * 3 + ['nested-tuple'])
        tree = wrap(rng, members, shape)
        if rng.random() < 0.25:
            tree = subdicts(rng, tree)      # dict subclasses / defaultdicts (review v4 2.1)
            if has_subdict(tree):
                shape += '+subdict'
        how, m = rng.choice(HOWS), rng.choice(METHODS)
        r = rng.random()
        if r < 0.48:
            ch = rng.choice(['ij', 'oj', 'lj', 'rj', 'N']) if with_frames else rng.choice(['ij', 'N'])
            yield dict(tag='sync/%s/%s/%s/%s%s' % (shape, rel, how, m, '/cols-' + ch if with_frames else ''),
                       lines=['(align sync %s %s %s %s)' % (enc_tree(tree), how, m, ch)])
        elif r < 0.55:
            # df_sync with an EXPLICIT index as join policy
            ch = rng.choice(['ij', 'oj', 'N']) if with_frames else 'ij'
            sp = rng.choice(['X', 'X', 'XS', 'XD'])
            days = rand_days(rng, rng.choice(['overlap', 'empty', 'overlap', 'nested']), [d_.day - 1 for d_ in members[0].index])
            yield dict(tag='sync-explicit/%s/%s/%s' % (shape, sp, m),
                       lines=['(align sync %s %s %s %s)' % (enc_tree(tree), enc_join(days, sp), m, ch)])
        elif r < 0.70:
            days = rand_days(rng, rng.choice(['overlap', 'empty', 'overlap']), [])
            sp = rng.choice(['X', 'X', 'XS', 'XD'])
            yield dict(tag='reindex-explicit/%s/%s/%s' % (shape, sp, m),
                       lines=['(align reindex %s %s %s)' % (enc_tree(tree), enc_join(days, sp), m)])
        elif r < 0.80:
            if isinstance(tree, tuple):
                tree = list(tree)   # df_index does not open a tuple (only df_sync / presync open their top-level container)
            if not any(isinstance(x, (pd.Series, pd.DataFrame, np.ndarray)) for x in flat(tree)):
                # every timeseries sits inside a nested tuple: df_index sees none, the index is None and `_df_reindex(ts, None, 'ffill')`
                # returns `_nona(ts)` (thorough tier, g6).  Outside the statement (nested lists / dicts); the model returns the input: not generated
                continue
            yield dict(tag='reindex-how/%s/%s/%s' % (shape, how, m), lines=['(align reindex %s %s %s)' % (enc_tree(tree), how, m)])
        elif r < 0.88:
            yield dict(tag='index/%s/%s/%s' % (shape, rel, how), lines=['(align index %s %s)' % (enc_tree(tree), how)])
        else:
            k = rng.choice([2, 3])
            args = [m_ for m_ in members if isinstance(m_, pd.Series)][:k]
            while len(args) < k:
                args.append(rng.choice([1, 2.5, 'a', None, rand_series(rng, rand_days(rng, 'overlap', []), 0.2)]))
            if rng.random() < 0.3:
                args[0] = [args[0], rand_series(rng, rand_days(rng, 'overlap', []), 0.3)]
            yield dict(tag='presync/%d/%s/%s' % (k, how, m), lines=['(align presync %s %s %s)' % (enc_tree(tuple(args)), how, m)])
    # the policy as a WORD / attribute / default, the function's parameters named like policy words (review v4 2.2)
    for _ in range(80 if tier == 'quick' else 1500):
        args = [rand_series(rng, rand_days(rng, 'overlap', []), 0.2), rand_series(rng, rand_days(rng, 'overlap', []), 0.2)]
        if rng.random() < 0.15:
            args[rng.randrange(2)] = rng.choice([1, 2.5, None])
        k, how, m = rng.randrange(len(WNAMES)), rng.choice(HOWS), rng.choice(METHODS)
        sp = rng.choice(['word', 'attr'] + (['default'] if how == 'ij' else []) + (['kw'] if WNAMES[k][1] not in RESERVED else []))
        yield dict(tag='presyncw/%s/%s/%s' % ('+'.join(WNAMES[k]), how, sp),
                   lines=['(align presyncw %s I:%d %s %s %s)' % (enc_tree(tuple(args)), k, how, sp, m)])
    # presync(f)(*args, columns=False, **kwargs): Series, one- and multi-column frames, scalars, nested lists / dicts, keywords
    for _ in range(150 if tier == 'quick' else 4000):
        case = gen_presynck(rng)
        yield case
    # bare numpy arrays of different lengths (aligned at the end)
    n = 250 if tier == 'quick' else 6000
    for _ in range(n):
        k = rng.choice([2, 2, 3, 4])
        arrs = []
        for _j in range(k):
            ln = rng.choice([0, 1, 2, 3, 4, 5, 6])
            arrs.append(np.array([nan if rng.random() < 0.25 else rng.choice(VALS) for _ in range(ln)], dtype=float))
        items = arrs + [rng.choice(SCALARS) for _ in range(rng.choice([0, 1]))]
        rng.shuffle(items)
        shape = rng.choice(['list', 'list', 'dict', 'nested'])
        tree = items if shape == 'list' else {k_: v for k_, v in zip('pqrstu', items)} if shape == 'dict' else [items[:1], items[1:]]
        how, m = rng.choice(HOWS), rng.choice(METHODS)
        if rng.random() < 0.15:
            # an explicit common length: df_reindex(arrays, n)
            yield dict(tag='arrays-explicit-len/%s/%s' % (shape, m), lines=['(align reindex %s (N I:%d) %s)' % (enc_tree(tree), rng.choice([0, 1, 2, 3, 5, 7]), m)])
            continue
        yield dict(tag='arrays/%s/%s/%s' % (shape, how, m), lines=['(align sync %s %s %s ij)' % (enc_tree(tree), how, m)])
    # arrays mixed with timeseries: the code raises unless the lengths happen to fit
    for _ in range(20 if tier == 'quick' else 300):
        s = rand_series(rng, rand_days(rng, 'overlap', []), 0.2)
        a = np.array([rng.choice(VALS) for _ in range(rng.choice([0, 1, len(s), len(s), 3]))], dtype=float)
        yield dict(tag='mixed-array-ts', lines=['(align sync %s %s N ij)' % (enc_tree([s, a]), rng.choice(HOWS))])
    for case in gen_extra(rng, tier):
        yield case


def gen_extra(rng, tier):
    """limit on df_reindex, method lists / numeric methods, dict members keyed 'index', pd.Index members, presync(join=<parameter name>)"""
    big = tier != 'quick'
    # (1) limit: dense-ish requested labels so that several of them land on one observation
    for _ in range(6000 if big else 300):
        with_frames = rng.random() < 0.3
        members, rel = rand_members(rng, with_frames)
        tree = wrap(rng, members, rng.choice(['flat-list', 'flat-list-pure', 'flat-dict', 'nested2', 'nested3']))
        r = rng.random()
        m = 'ffill' if r < 0.35 else 'bfill' if r < 0.7 else rand_mlist(rng)
        lim = 'I:%d' % rng.choice([1, 1, 2, 2, 3])
        if rng.random() < 0.7:
            days = sorted(rng.sample(range(12), rng.randint(3, 10)))
            join, jt = enc_join(days, rng.choice(['X', 'X', 'XS', 'XD'])), 'explicit'
        else:
            join = jt = rng.choice(HOWS)
        yield dict(tag='reindex-limit/%s/%s/%s' % (jt, mtag(m), lim), lines=['(align reindex %s %s %s %s)' % (enc_tree(tree), join, m, lim)])
    # a single series, every requested pattern of a small range: limit 1 / 2 against every gap shape
    for _ in range(3000 if big else 150):
        src = sorted(rng.sample(range(10), rng.randint(0, 4)))
        s_ = rand_series(rng, src, rng.choice([0.0, 0.3]))
        days = sorted(rng.sample(range(10), rng.randint(1, 10)))
        m = rng.choice(['ffill', 'bfill'])
        lim = 'I:%d' % rng.choice([1, 2, 3])
        yield dict(tag='reindex-limit/single/%s/%s' % (m, lim), lines=['(align reindex %s %s %s %s)' % (enc_tree(s_), enc_join(days), m, lim)])
    # (2) method lists / numeric methods in df_sync, df_reindex, presync
    for _ in range(5000 if big else 250):
        with_frames = rng.random() < 0.35
        members, rel = rand_members(rng, with_frames)
        shape = rng.choice(['flat-list', 'flat-dict', 'nested2', 'nested3', 'flat-tuple'])
        tree = wrap(rng, members, shape)
        m = rand_mlist(rng)
        how = rng.choice(HOWS)
        r = rng.random()
        if r < 0.5:
            ch = rng.choice(['ij', 'oj', 'N']) if with_frames else 'ij'
            yield dict(tag='sync-mlist/%s/%s' % (shape, how), lines=['(align sync %s %s %s %s)' % (enc_tree(tree), how, m, ch)])
        elif r < 0.8:
            days = rand_days(rng, 'overlap', [])
            lim = rng.choice(['N', 'N', 'I:1', 'I:2'])
            yield dict(tag='reindex-mlist/%s/%s' % (shape, 'lim' if lim != 'N' else 'nolim'),
                       lines=['(align reindex %s %s %s %s)' % (enc_tree(tree if not isinstance(tree, tuple) else list(tree)), enc_join(days), m, lim)])
        else:
            case = gen_presynck(rng, m)
            yield dict(case, tag='presynck-mlist')
    # arrays with method lists and a limit
    for _ in range(800 if big else 60):
        arrs = [np.array([nan if rng.random() < 0.3 else rng.choice(VALS) for _ in range(rng.choice([0, 1, 2, 3, 5, 6]))], dtype=float) for _ in range(rng.choice([2, 3]))]
        m = rand_mlist(rng, removing=False)
        yield dict(tag='arrays-mlist', lines=['(align reindex %s (N I:%d) %s %s)' % (enc_tree(arrs), rng.choice([0, 2, 4, 7]), m, rng.choice(['N', 'I:1', 'I:2']))])
    # (3) dict members keyed 'index' (a timeseries, a pd.Index, a scalar under that key) and pd.Index members
    for _ in range(2500 if big else 150):
        members, rel = rand_members(rng, rng.random() < 0.3)
        under = rng.choice(['ts', 'ts', 'pi', 'scalar'])
        x = members[0] if under == 'ts' else pd.DatetimeIndex([W.day(d) for d in rand_days(rng, 'overlap', [])]) if under == 'pi' else rng.choice(SCALARS)
        rest = members[1:] if under == 'ts' else members
        d_ = {'index': x, 'v': rest[0]} if rng.random() < 0.5 else {'v': rest[0], 'index': x}
        others = rest[1:] + [rng.choice(SCALARS)] * rng.choice([0, 1])
        shape = rng.choice(['top', 'in-list', 'in-dict'])
        tree = dict(d_, **{k: v for k, v in zip('pq', others)}) if shape == 'top' else [d_] + others if shape == 'in-list' else {'n': d_, **{k: v for k, v in zip('pq', others)}}
        how, m = rng.choice(HOWS), rng.choice(METHODS)
        r = rng.random()
        if r < 0.5:
            yield dict(tag='index-key/%s/%s/sync' % (under, shape), lines=['(align sync %s %s %s %s)' % (enc_tree(tree), how, m, rng.choice(['ij', 'N']))])
        elif r < 0.75:
            yield dict(tag='index-key/%s/%s/reindex-how' % (under, shape), lines=['(align reindex %s %s %s)' % (enc_tree(tree), how, m)])
        elif r < 0.9:
            yield dict(tag='index-key/%s/%s/reindex-explicit' % (under, shape), lines=['(align reindex %s %s %s)' % (enc_tree(tree), enc_join(rand_days(rng, 'overlap', [])), m)])
        else:
            yield dict(tag='index-key/%s/%s/index' % (under, shape), lines=['(align index %s %s)' % (enc_tree(tree), how)])
    # (4) presync(f)(*args, join=<name of a parameter>, **kwargs): the index is that argument's index
    for _ in range(3000 if big else 200):
        yield gen_presyncn(rng)


def gen_presyncn(rng):
    members, rel = rand_members(rng, rng.random() < 0.4)
    n = rng.choice([2, 2, 3, 3, 4])
    items = list(members)[:n]
    while len(items) < n:
        items.append(rng.choice(SCALARS))
    rng.shuffle(items)
    kind = rng.choice(['ts', 'ts', 'ts', 'ts', 'pi', 'dict-ts', 'dict-pi', 'array', 'scalar', 'ts-nested'])
    k = rng.randrange(n)
    if kind == 'ts':
        cand = [i for i, x in enumerate(items) if isinstance(x, (pd.Series, pd.DataFrame))]
        k = rng.choice(cand) if cand else k
        if not cand:
            items[k] = rand_series(rng, rand_days(rng, 'overlap', []), 0.3)
    elif kind == 'pi':
        items[k] = pd.DatetimeIndex([W.day(d) for d in rand_days(rng, rng.choice(['overlap', 'empty', 'overlap']), [])])
    elif kind == 'dict-ts':
        items[k] = {'index': rand_series(rng, rand_days(rng, 'overlap', []), 0.3), 'w': rng.choice(SCALARS)}
    elif kind == 'dict-pi':
        items[k] = {'w': rand_series(rng, rand_days(rng, 'overlap', []), 0.3), 'index': pd.DatetimeIndex([W.day(d) for d in rand_days(rng, 'overlap', [])])}
    elif kind == 'array':
        items[k] = np.array([rng.choice(VALS) for _ in range(rng.choice([0, 1, 2, 4]))], dtype=float)
        if rng.random() < 0.6:   # arrays only: aligned at the end to the length of the named one
            items = [x if i == k else np.array([rng.choice(VALS) for _ in range(rng.choice([0, 1, 3, 5]))], dtype=float) for i, x in enumerate(items)]
    elif kind == 'scalar':
        items[k] = rng.choice(SCALARS)
    else:
        j = (k + 1) % n
        items[j] = [items[j], rand_series(rng, rand_days(rng, 'overlap', []), 0.3)]   # another argument holds a nested list
    npos = rng.randint(0, n)
    pos, kw = items[:npos], {'p%d' % i: items[i] for i in range(npos, n)}
    m = rng.choice(METHODS + METHODS + [rand_mlist(rng)])
    return dict(tag='presyncn/%s/%d+%d/%s' % (kind, npos, n - npos, mtag(m)),
                lines=['(align presyncn %s %s %s %s)' % (enc_tree(tuple(pos)), enc_tree(kw), proto.hexs('p%d' % k), m)])


def gen_presynck(rng, m=None):
    members, rel = rand_members(rng, rng.random() < 0.6)
    if rng.random() < 0.12:
        members = [np.array([nan if rng.random() < 0.25 else rng.choice(VALS) for _ in range(rng.choice([0, 1, 2, 3, 5]))], dtype=float) for _ in members]
        rel = 'arrays'
    items = list(members) + [rng.choice(SCALARS) for _ in range(rng.choice([0, 1, 1]))]
    rng.shuffle(items)
    nk = rng.choice([0, 0, 1, 1, 2])
    nk = min(nk, len(items) - 1)
    pos, kw = items[:len(items) - nk], items[len(items) - nk:]
    if pos and rng.random() < 0.3:
        pos[0] = [pos[0], rng.choice(SCALARS)] if rng.random() < 0.5 else {'u': pos[0]}
    kwargs = {k: v for k, v in zip(rng.sample(['k', 'z', 'w', 'a'], len(kw)), kw)}
    if kwargs and rng.random() < 0.3:
        k0 = next(iter(kwargs))
        kwargs[k0] = [kwargs[k0], rand_series(rng, rand_days(rng, 'overlap', []), 0.3)]
    m = m or rng.choice(METHODS)
    if rel != 'arrays' and rng.random() < 0.25:   # an explicit DatetimeIndex for bare arrays alone is meaningless (the code raises assorted errors): not generated
        sp = rng.choice(['X', 'XS', 'XD'])
        join = enc_join(rand_days(rng, rng.choice(['overlap', 'empty', 'overlap']), []), sp)
        jt = 'explicit-' + sp
    else:
        join = jt = rng.choice(HOWS)
    return dict(tag='presynck/%s/%d+%d/%s/%s' % (rel, len(pos), len(kwargs), jt, mtag(m)),
                lines=['(align presynck %s %s %s %s)' % (enc_tree(tuple(pos)), enc_tree(kwargs), join, m)])


# ------------------------------------------------------------------ implementation runner

# parameter names that are also presync's policy words (review v4 2.2): `.lj` IS join='left', and a string that names a parameter used
# to be read as "the index of that argument" before it was read as a policy
# round l4 (review w4 F4): presync's OWN keywords join / method / columns as parameter names - given positionally they are ordinary
# parameters (generated); by keyword they are presync's controls and never reach the function (RESERVED, declared in ASSUMPTIONS)
WNAMES = [('left', 'right'), ('right', 'left'), ('x', 'left'), ('right', 'y'), ('inner', 'y'), ('x', 'outer'), ('outer', 'inner'), ('a', 'b'),
          ('join', 'x'), ('x', 'method'), ('columns', 'y'), ('method', 'join')]
RESERVED = ('join', 'method', 'columns')
POLICY_WORD = {'ij': 'inner', 'oj': 'outer', 'lj': 'left', 'rj': 'right'}


def _f2(a, b):
    return (a, b)


def _f3(a, b, c):
    return (a, b, c)


def _fv(*args, **kwargs):
    return (args, kwargs)


def _g1(p0):
    return (p0,)


def _g2(p0, p1):
    return (p0, p1)


def _g3(p0, p1, p2):
    return (p0, p1, p2)


def _g4(p0, p1, p2, p3):
    return (p0, p1, p2, p3)


_GN = {1: _g1, 2: _g2, 3: _g3, 4: _g4}


def snapshot_tree(x):
    if isinstance(x, (pd.Series, pd.DataFrame, np.ndarray)):
        return x.copy()
    if isinstance(x, (list, tuple)):
        return type(x)(snapshot_tree(v) for v in x)
    if isinstance(x, dict):
        return like_dict(x, {k: snapshot_tree(v) for k, v in x.items()})
    return x


def same_tree(a, b):
    if isinstance(a, (pd.Series, pd.DataFrame, np.ndarray)):
        return W.same_pd(a, b)
    if isinstance(a, (list, tuple)):
        return type(a) is type(b) and len(a) == len(b) and all(same_tree(x, y) for x, y in zip(a, b))
    if isinstance(a, dict):
        return type(a) is type(b) and list(a) == list(b) and all(same_tree(a[k], b[k]) for k in a)
    return a is b or a == b


def passthrough_ok(a, b):
    """container structure preserved and every non-timeseries member is the very same object"""
    if isinstance(a, (pd.Series, pd.DataFrame)):
        return type(b) is type(a)
    if isinstance(a, np.ndarray):
        return isinstance(b, np.ndarray)
    if isinstance(a, (list, tuple)):
        return type(a) is type(b) and len(a) == len(b) and all(passthrough_ok(x, y) for x, y in zip(a, b))
    if isinstance(a, dict):
        return type(a) is type(b) and list(a) == list(b) and all(passthrough_ok(a[k], b[k]) for k in a)
    return a is b


def run_line(state, sx):
    import pyg_base
    W.begin_line(sx)
    op, args = sx[1], sx[2:]
    tree = dec_tree(args[0])
    before = snapshot_tree(tree)
    if op == 'sync':
        ch = None if args[3] == 'N' else args[3]
        res = pyg_base.df_sync(tree, dec_join(args[1]), dec_method(args[2]), ch)
    elif op == 'reindex':
        res = pyg_base.df_reindex(tree, dec_join(args[1]), dec_method(args[2]), C12.dec_limit(args[3]) if len(args) > 3 else None)
    elif op == 'presyncn':
        kw = dec_tree(args[1])
        if not isinstance(tree, tuple) or not isinstance(kw, dict):
            return 'bad-op'
        n = len(tree) + len(kw)
        if list(kw) != ['p%d' % i for i in range(len(tree), n)] or n not in _GN:
            return 'bad-op'
        name = proto.unhex(args[2])
        if name not in ['p%d' % i for i in range(n)]:
            return 'bad-op'
        before_kw = snapshot_tree(kw)
        res = pyg_base.presync(_GN[n])(*tree, join=name, method=dec_method(args[3]), columns=False, **kw)
        if not same_tree(tree, before) or not same_tree(kw, before_kw):
            return 'violation input-modified'
        res = (tuple(res[:len(tree)]), {k: v for k, v in zip(kw, res[len(tree):])})
        if not (passthrough_ok(tree, res[0]) and passthrough_ok(kw, res[1])):
            return 'violation structure-or-passthrough %s' % enc_tree(res)
        return 'ok ' + enc_tree(res, True)
    elif op == 'presynck':
        kw = dec_tree(args[1])
        if not isinstance(tree, tuple) or not isinstance(kw, dict):
            return 'bad-op'
        before_kw = snapshot_tree(kw)
        res = pyg_base.presync(_fv)(*tree, join=dec_join(args[2]), method=dec_method(args[3]), columns=False, **kw)
        if not same_tree(tree, before) or not same_tree(kw, before_kw):
            return 'violation input-modified'
        if not (isinstance(res, tuple) and len(res) == 2 and passthrough_ok(tree, res[0]) and passthrough_ok(kw, res[1])):
            return 'violation structure-or-passthrough %s' % enc_tree(res)
        return 'ok ' + enc_tree(res, True)
    elif op == 'index':
        ix = pyg_base.df_index(tree, args[1])
        if ix is None:
            return 'ok N'
        if isinstance(ix, (int, np.integer)):
            return 'ok I:%d' % ix
        return 'ok (L%s)' % ''.join(' ' + W.enc_t(t) for t in ix)
    elif op == 'presyncw':
        if not isinstance(tree, tuple) or len(tree) != 2:
            return 'bad-op'
        names, how, sp = WNAMES[int(args[1][2:])], args[2], args[3]
        f = pyg_base.presync(eval('lambda %s, %s: (%s, %s)' % (names + names)))
        if sp == 'kw' and names[1] not in RESERVED:      # the second argument by keyword
            res = f(tree[0], join=POLICY_WORD[how], method=dec_method(args[4]), **{names[1]: tree[1]})
        elif sp == 'word':
            res = f(*tree, join=POLICY_WORD[how], method=dec_method(args[4]))
        elif sp == 'attr':
            res = getattr(f, how)(*tree, method=dec_method(args[4]))
        elif sp == 'default' and how == 'ij':
            res = f(*tree, method=dec_method(args[4]))
        else:
            return 'bad-op'
    elif op == 'presync':
        if not isinstance(tree, tuple) or len(tree) not in (2, 3):
            return 'bad-op'
        f = pyg_base.presync(_f2 if len(tree) == 2 else _f3)
        res = f(*tree, join=args[1], method=dec_method(args[2]))
    else:
        return 'bad-op'
    if not same_tree(tree, before):
        return 'violation input-modified'
    if not passthrough_ok(tree, res):
        return 'violation structure-or-passthrough %s' % (enc_tree(res) if not isinstance(res, type(None)) else 'None')
    return 'ok ' + enc_tree(res, True)


def _canon_ordered(x):
    if isinstance(x, str):
        return proto.canon_cell(x, True)
    return (x[0],) + tuple(_canon_ordered(y) for y in x[1:])


def _recolumns(line):
    """does the line ask for column alignment of a frame with several columns? (then the ORDER of the columns is pandas' business)"""
    sx = proto.parse(line)
    if sx[1] != 'sync' or sx[-1] == 'N':
        return False
    def multi(t):
        if isinstance(t, str):
            return False
        if t and t[0] == 'df':
            return len(t[1][2]) - 1 > 1
        return any(multi(y) for y in t[1:])
    return multi(sx[2])


def compare(case, i, line, ir, mr):
    if proto.same_reply(ir, mr):
        # `same_reply` sorts dict entries; where no column alignment takes place the ORDER of dict keys and of frame columns is part
        # of "container structure preserved / values intact" and both sides keep it: compare it too
        if ir != mr and ir.startswith('ok ') and not _recolumns(line):
            a, b = proto.parse(ir.split(None, 1)[1]), proto.parse(mr.split(None, 1)[1])
            if _canon_ordered(a) != _canon_ordered(b):
                return 'order of dict keys / frame columns changed: implementation %s, model %s' % (ir, mr)
        return None
    if ir == 'bad-op':
        # the runner refuses a line (a shrunk presync call that is no call any more): fine only if the model refuses it too
        return None if mr == 'bad-op' else ('divergence', 'the runner refuses the line, the model answers %s' % mr)
    if ir.startswith('violation'):
        return ir
    return 'implementation %s, model %s' % (ir, mr)


def nontrivial(line, reply):
    if not reply.startswith('ok'):
        return False
    return line.count('(ts ') + line.count('(df ') + line.count('(arr ') >= 2


# ------------------------------------------------------------------ the statement, checked directly on the implementation

def flat(x, top=True):
    """members in the order the joint index sees them: lists and dicts are opened, nested tuples are not"""
    if isinstance(x, list) or (top and isinstance(x, tuple)):
        return [m for v in x for m in flat(v, False)]
    if isinstance(x, dict):
        return [m for v in x.values() for m in flat(v, False)]
    return [x]


def leaves(x):
    if isinstance(x, (list, tuple)):
        return [m for v in x for m in leaves(v)]
    if isinstance(x, dict):
        return [m for v in x.values() for m in leaves(v)]
    return [x]


def expected_index(members, how):
    ixs = [list(m.index) for m in members if isinstance(m, (pd.Series, pd.DataFrame))]
    if not ixs:
        return None
    if how == 'ij':
        s = set(ixs[0])
        for i in ixs[1:]:
            s &= set(i)
        return sorted(s)
    if how == 'oj':
        s = set()
        for i in ixs:
            s |= set(i)
        return sorted(s)
    return ixs[0] if how == 'lj' else ixs[-1]


def _isnan(v):
    return isinstance(v, float) and math.isnan(v)


def expected_series(s, index, method):
    obs = [(t, float(v)) for t, v in zip(s.index, s.values)]
    have = dict(obs)
    out = []
    for t in index:
        if method is None:
            out.append(have.get(t, nan))
        elif method == 'ffill':
            c = [v for (u, v) in obs if u <= t and not _isnan(v)]
            out.append(c[-1] if c else nan)
        else:
            c = [v for (u, v) in obs if u >= t and not _isnan(v)]
            out.append(c[0] if c else nan)
    return out


def same_vals(a, b):
    return len(a) == len(b) and all((_isnan(x) and _isnan(y)) or x == y for x, y in zip(a, b))


def check_members(ins, outs, want, m, cs):
    """the statement on every timeseries member: on the common index `want`, own value / NaN or (per column) the last / next
    non-NaN observation; multi-column frames on the column set `cs` (None: columns untouched), a column the frame lacked NaN"""
    for a, b in zip(ins, outs):
        if not isinstance(a, (pd.Series, pd.DataFrame)):
            continue
        if list(b.index) != want:
            return 'a member is not on the common index: %s instead of %s' % ([t.day for t in b.index], [t.day for t in want])
        if isinstance(a, pd.Series):
            if not same_vals(list(map(float, b.values)), expected_series(a, want, dec_method(m))):
                return 'series values: got %s, the statement gives %s' % (list(b.values), expected_series(a, want, dec_method(m)))
        else:
            if a.shape[1] > 1 and cs is not None and set(b.columns) != cs:
                return 'columns %s instead of %s' % (list(b.columns), sorted(cs))
            if (a.shape[1] <= 1 or cs is None) and list(b.columns) != list(a.columns):
                return 'columns of a frame that needs no column alignment changed: %s -> %s' % (list(a.columns), list(b.columns))
            for c in b.columns:
                if c in a.columns:
                    # the statement, column by column: own value / NaN, or the column's last / next non-NaN observation
                    exp = expected_series(a[c], want, dec_method(m))
                    if not same_vals(list(map(float, b[c].values)), exp):
                        return 'frame column %s values: got %s, the statement gives %s' % (c, list(b[c].values), exp)
                elif not all(_isnan(float(v)) for v in b[c].values):
                    return 'a column the frame lacked is not NaN'
    return None


def laws(rng, tier, ctx):
    import pyg_base
    count = 0
    n = 350 if tier == 'quick' else 6000
    for _ in range(n):
        with_frames = rng.random() < 0.3
        members, rel = rand_members(rng, with_frames)
        shape = rng.choice(['flat-list', 'flat-tuple', 'flat-dict', 'nested2', 'nested3'])
        tree = wrap(rng, members, shape)
        sub = rng.random() < 0.3
        if sub:
            tree = subdicts(rng, tree, 0.8)
        how, m = rng.choice(HOWS), rng.choice(METHODS)
        ch = rng.choice(['ij', 'oj', 'lj', 'rj']) if with_frames else 'ij'
        case = dict(tag='law-sync' + ('+subdict' if sub and has_subdict(tree) else ''), lines=['(align sync %s %s %s %s)' % (enc_tree(tree), how, m, ch)])
        try:
            res = pyg_base.df_sync(tree, how, dec_method(m), ch)
        except Exception as e:
            yield Finding('violation', case, 'df_sync raised %s: %s' % (type(e).__name__, str(e)[:120]))
            continue
        count += 1
        if not passthrough_ok(tree, res):
            yield Finding('violation', case, 'container structure changed or a non-timeseries member was not passed through unchanged')
            continue
        want = expected_index(flat(tree), how)
        ins, outs = leaves(tree), leaves(res)
        multi = [list(x.columns) for x in flat(tree) if isinstance(x, pd.DataFrame) and x.shape[1] > 1]
        if multi:
            if ch == 'ij':
                cs = set(multi[0]).intersection(*map(set, multi[1:]))
            elif ch == 'oj':
                cs = set().union(*map(set, multi))
            else:
                cs = set(multi[0] if ch == 'lj' else multi[-1])
        bad = check_members(ins, outs, want, m, cs if multi else None)
        if bad:
            yield Finding('violation', case, bad)
    # an explicit index as join policy (df_sync, df_reindex) and the arguments a presync-decorated function receives (keywords too)
    for _ in range(n // 2):
        members, rel = rand_members(rng, rng.random() < 0.4)
        m = rng.choice(METHODS)
        kind = rng.choice(['sync-explicit', 'reindex-explicit', 'presync', 'presync'])
        if kind != 'presync':
            tree = wrap(rng, members, rng.choice(['flat-list', 'flat-dict', 'nested2', 'nested3']))
            sp = rng.choice(['X', 'XS', 'XD'])
            days = rand_days(rng, rng.choice(['overlap', 'empty', 'overlap']), [])
            j = enc_join(days, sp)
            want = [pd.Timestamp(W.day(d)) for d in days]
            if kind == 'sync-explicit':
                case = dict(tag='law-sync-explicit', lines=['(align sync %s %s %s N)' % (enc_tree(tree), j, m)])
                call = lambda: pyg_base.df_sync(tree, dec_join(proto.parse(j)), dec_method(m), None)
            else:
                case = dict(tag='law-reindex-explicit', lines=['(align reindex %s %s %s)' % (enc_tree(tree), j, m)])
                call = lambda: pyg_base.df_reindex(tree, dec_join(proto.parse(j)), dec_method(m))
            try:
                res = call()
            except Exception as e:
                yield Finding('violation', case, '%s raised %s: %s' % (kind, type(e).__name__, str(e)[:120]))
                continue
            count += 1
            if not passthrough_ok(tree, res):
                yield Finding('violation', case, 'container structure changed or a non-timeseries member was not passed through unchanged')
                continue
            bad = check_members(leaves(tree), leaves(res), want, m, None)
        else:
            case = gen_presynck(rng)
            sx = proto.parse(case['lines'][0])
            case = dict(case, tag='law-presync')
            pos, kw = dec_tree(sx[2]), dec_tree(sx[3])
            if any(isinstance(x, np.ndarray) for x in leaves(pos) + leaves(kw)):
                continue
            try:
                res = pyg_base.presync(_fv)(*pos, join=dec_join(sx[4]), method=dec_method(sx[5]), columns=False, **kw)
            except Exception as e:
                yield Finding('violation', case, 'the presync-decorated call raised %s: %s' % (type(e).__name__, str(e)[:120]))
                continue
            count += 1
            if not (isinstance(res, tuple) and len(res) == 2 and passthrough_ok(pos, res[0]) and passthrough_ok(kw, res[1])):
                yield Finding('violation', case, 'the function did not receive its arguments in their containers / non-timeseries unchanged')
                continue
            allin = flat(list(pos) + list(kw.values()))
            if isinstance(sx[4], list):
                want = [pd.Timestamp(W.dec_t(a)) for a in sx[4][1:]] if any(isinstance(x, (pd.Series, pd.DataFrame)) for x in allin) else None
            else:
                want = expected_index(allin, sx[4])
            if want is None:
                continue
            bad = check_members(leaves(pos) + leaves(kw), leaves(res[0]) + leaves(res[1]), want, sx[5], None)
        if bad:
            yield Finding('violation', case, bad)
    # presync with a column policy (the DEFAULT is columns='ij'): the decorated function is called once per column of the common
    # column set, each time with that column of every multi-column frame (a frame lacking it: the default, NaN), Series as they
    # are, all on the common index - "multi-column frames onto the matching common column set" for ANY decorated function
    # (the function here only records what it receives)
    for _ in range(n // 3):
        days0 = rand_days(rng, 'overlap', [])
        k = rng.choice([2, 2, 3])
        heads = [rng.choice([['a', 'b'], ['b', 'c'], ['a', 'c'], ['a', 'b', 'c'], ['b', 'a']]) for _ in range(k)]
        nan_rate = rng.choice([0.0, 0.2, 0.4])
        ops = [rand_frame(rng, days0 if j == 0 else rand_days(rng, rng.choice(['overlap', 'nested', 'disjoint']), days0), nan_rate, heads[j]) for j in range(k)]
        if rng.random() < 0.4:
            ops.insert(rng.randrange(k + 1), rand_series(rng, rand_days(rng, 'overlap', days0), nan_rate))
        how, ch, m = rng.choice(['ij', 'oj', 'lj', 'rj']), rng.choice(['ij', 'oj', 'default']), rng.choice(METHODS)
        case = dict(tag='law-presync-columns/%s' % ch, lines=['(align sync %s %s %s %s)' % (enc_tree(ops), how, m, 'ij' if ch == 'default' else ch)])
        calls = []

        def rec(*args):
            calls.append(args)
            return [a for a in args if isinstance(a, pd.Series)][0]
        try:
            kw = {} if ch == 'default' else dict(columns=ch)
            res = pyg_base.presync(rec)(*ops, join=how, method=dec_method(m), **kw)
        except Exception as e:
            yield Finding('violation', case, 'the presync-decorated call raised %s: %s' % (type(e).__name__, str(e)[:120]))
            continue
        count += 1
        want = expected_index(ops, how)
        hs = [set(x.columns) for x in ops if isinstance(x, pd.DataFrame)]
        cols = set.union(*hs) if ch == 'oj' else set.intersection(*hs)
        if len(calls) != len(cols):
            yield Finding('violation', case, 'the function was called %d times, the common column set is %s' % (len(calls), sorted(cols)))
            continue

        def matches(args, c):
            if len(args) != len(ops):
                return False
            for x, a in zip(ops, args):
                if isinstance(x, pd.DataFrame) and c not in x.columns:
                    if isinstance(a, (pd.Series, pd.DataFrame)) or not _isnan(float(a)):
                        return False
                    continue
                src = x[c] if isinstance(x, pd.DataFrame) else x
                if not isinstance(a, pd.Series) or list(a.index) != want or not same_vals(list(map(float, a.values)), expected_series(src, want, dec_method(m))):
                    return False
            return True
        left, bad = set(cols), None
        for args in calls:
            hit = [c for c in sorted(left) if matches(args, c)]
            if not hit:
                bad = 'a call received arguments that are no column of the common column set %s on the common index %s: %s' % (
                    sorted(cols), [t.day for t in want], [list(a.values) if isinstance(a, pd.Series) else a for a in args])
                break
            left.discard(hit[0])
        if bad:
            yield Finding('violation', case, bad)
            continue
        if cols and not (isinstance(res, pd.DataFrame) and set(res.columns) == cols and list(res.index) == want):
            yield Finding('violation', case, 'the result is not a frame with the common columns %s on the common index' % sorted(cols))
    # bare arrays: aligned at the end - flat lists, nested lists / dicts beside scalars and strings (the joint length is taken over
    # EVERY array at any depth: theorem sync_arrays), with a fill method (aligned, then filled by position), and as the
    # arguments of a presync-decorated function
    for _ in range(n // 2):
        arrs = [np.array([rng.choice(VALS) if rng.random() > 0.2 else nan for _ in range(rng.choice([0, 1, 2, 3, 4, 6]))], dtype=float) for _ in range(rng.choice([2, 3]))]
        # arrays of another dtype (int, bool, float32): the statement's NaN padding holds for "bare numpy arrays", not for float64 only
        # (seeded C03-u2: padding with np.full_like(ts, nan) writes -9223372036854775808 / True into int / bool arrays)
        adt = rng.choice([None, None, None, np.int64, np.int32, bool, np.float32])
        if adt is not None:
            arrs = [np.array([0 if v != v else v for v in a]).astype(adt) if adt is not np.float32 else a.astype(adt) for a in arrs]
        how = rng.choice(HOWS)
        m = rng.choice(['N', 'N', 'ffill', 'bfill'])
        shape = rng.choice(['flat', 'flat', 'nested', 'presync'])
        if shape == 'nested':
            tree = [arrs[0], rng.choice(SCALARS), {'k': arrs[1], 'j': rng.choice(SCALARS)}] + [[a, 'x'] for a in arrs[2:]]
        else:
            tree = list(arrs)
        case = dict(tag='law-arrays' + ('' if shape == 'flat' else '-' + shape) + ('' if m == 'N' else '+fill'), lines=['(align sync %s %s %s ij)' % (enc_tree(tree), how, m)])
        try:
            if shape == 'presync':
                res = pyg_base.presync(_fv)(*tree, join=how, method=dec_method(m), columns=False)
                res = list(res[0]) if isinstance(res, tuple) and len(res) == 2 and res[1] == {} else None
            else:
                res = pyg_base.df_sync(tree, how, dec_method(m))
        except Exception as e:
            yield Finding('violation', case, 'df_sync / presync raised %s: %s' % (type(e).__name__, str(e)[:120]))
            continue
        count += 1
        if res is None or not passthrough_ok(tree, res):
            yield Finding('violation', case, 'container structure changed or a non-array member was not passed through unchanged')
            continue
        lens = [len(a) for a in arrs]
        want = min(lens) if how == 'ij' else max(lens) if how == 'oj' else lens[0] if how == 'lj' else lens[-1]
        outs = [x for x in leaves(res) if isinstance(x, np.ndarray)]
        for a, b in zip(arrs, outs):
            exp = list(a[len(a) - want:]) if want <= len(a) else [nan] * (want - len(a)) + list(a)
            if m != 'N':
                seq, last = (exp if m == 'ffill' else exp[::-1]), nan
                filled = []
                for v in seq:
                    last = v if v == v else last
                    filled.append(last)
                exp = filled if m == 'ffill' else filled[::-1]
            if not same_vals(list(map(float, b)), list(map(float, exp))):
                yield Finding('violation', case, 'arrays%s are not aligned at the end%s: got %s, expected %s' % ('' if adt is None else ' of dtype %s' % np.dtype(adt).name, '' if m == 'N' else ' and then filled', list(b), exp))
                break
    # the declared reading of "keeps exactly its original value" (review t4 2.1): a NaN HELD at a surviving timestamp is no value -
    # reindexing an object onto ITS OWN index with a fill method is the plain fill of C12, df_fillna(x, method), and without a
    # method the object itself (theorems reindex_own_index_ffill / _bfill, reindex_keep); ties C03 to C12 on the implementation
    for _ in range(n // 2):
        days = rand_days(rng, 'overlap', [])
        x = rand_series(rng, days, 0.4) if rng.random() < 0.5 else rand_frame(rng, days, 0.4, rng.choice([['a'], ['a', 'b'], ['b', 'a', 'c']]))
        m = rng.choice(METHODS)
        case = dict(tag='law-reindex-own-index/%s' % m, lines=['(align reindex %s %s %s)' % (enc_tree(x), enc_join(days), m)])
        try:
            res = pyg_base.df_reindex(x, x.index, dec_method(m))
            want = x if m == 'N' else pyg_base.df_fillna(x, dec_method(m))
        except Exception as e:
            yield Finding('violation', case, 'df_reindex(x, x.index, %s) / df_fillna raised %s: %s' % (m, type(e).__name__, str(e)[:120]))
            continue
        count += 1
        if type(res) is not type(want) or list(res.index) != list(x.index) or not same_tree(res, snapshot_tree(want)):
            yield Finding('violation', case, 'df_reindex(x, x.index, %s) is not %s: got %s' % (m, 'x' if m == 'N' else 'df_fillna(x, %s)' % m, enc_tree(res)))
            continue
        vals = lambda o: [list(map(float, o.values))] if isinstance(o, pd.Series) else [list(map(float, o[c].values)) for c in o.columns]
        for a, b in zip(vals(x), vals(res)):          # ... and a non-NaN cell never changes (clause 2 for VALUES)
            if any(not _isnan(u) and u != v for u, v in zip(a, b)):
                yield Finding('violation', case, 'a non-NaN cell at a surviving timestamp changed: %s -> %s' % (a, b))
                break
    yield count


shrink = W.shrink
def _plain(sx):
    """the s-expression with every dict-subclass tag read as a plain dict"""
    if isinstance(sx, str):
        return sx
    return ['D' if sx[0] in ('DS', 'DD') else sx[0]] + [_plain(y) for y in sx[1:]] if sx and isinstance(sx[0], str) else [_plain(y) for y in sx]


def _unparse(sx):
    return sx if isinstance(sx, str) else '(' + ' '.join(_unparse(y) for y in sx) + ')'


def _graft(t_in, r_plain):
    """the result for the plain-dict spelling, with every subtree that sits inside a dict SUBCLASS of the input put back as it went in"""
    if isinstance(t_in, str) or isinstance(r_plain, str):
        return r_plain
    if t_in and t_in[0] in ('DS', 'DD'):
        return _plain(t_in)
    if len(t_in) != len(r_plain):
        return r_plain
    return [_graft(x, y) for x, y in zip(t_in, r_plain)]


def dict_subclass_left_unaligned(f):
    """C03-S1: df_sync / df_reindex over a tree holding an instance of a dict SUBCLASS (class MyDict(dict), collections.defaultdict) with
    timeseries inside.  Matches ONLY the symptom of that finding: the implementation's answer is exactly its answer for the same tree
    spelt with plain dicts, except that everything inside a subclass instance comes back as it went in.  A raise, a changed class, a wrong
    value outside the subclass or a half-aligned series inside it is not this finding and stays a violation."""
    line = f.case['lines'][0]
    if len(f.case['lines']) != 1 or not ('(DS ' in line or '(DD ' in line):
        return False
    sx = proto.parse(line)
    if sx[1] not in ('sync', 'reindex'):
        return False
    def holds_ts(t, inside):
        if isinstance(t, str):
            return False
        if t and t[0] in ('ts', 'df'):
            return inside
        return any(holds_ts(y, inside or t[0] in ('DS', 'DD')) for y in t[1:])
    if not holds_ts(sx[2], False):
        return False
    got = run_line(None, sx)
    plain = run_line(None, proto.parse(_unparse(_plain(sx))))
    if not (got.startswith('ok ') and plain.startswith('ok ')):
        return False
    want = _graft(sx[2], proto.parse(plain[3:]))
    return proto.same_reply('ok ' + _unparse(want), got) and got != plain


MATCHERS = {'dict_subclass_left_unaligned': dict_subclass_left_unaligned}
