"""C17 - bitemporal store: reading as of T sees exactly what had been published by T.

A case is a publication history: `merge` lines (one version each: a stamp and a partial series over a common
set of observation dates) interleaved with `read` lines (bi_read(store, asof, what)) and `spec` lines (the
implementation's as-of read compared with the Lean fold of the full publication log, i.e. with the property
statement itself).  Values are small integers (exact), dates are whole days, stamps are 2 days apart so that
reads fall before / on / between / after the stamps.
"""
import datetime
import numpy as np
import pandas as pd
from .. import proto
from ..proto import enc
from ..engine import Finding

ID = 'C17'
TITLE = 'bitemporal store: reading as of T sees exactly what had been published by T'
STATEMENT = ('bi_read(store, asof=T) = per date the latest non-NaN value published with stamp <= T (merge order breaks ties), '
             'no row for dates first published after T; what=0 = first published value; re-merging a stored version changes no read')
LEAN_FILES = ['Basic', 'TSBasic', 'Bitemp', 'BitempDriver', 'BitempLemmas', 'BitempInv', 'BitempFrames', 'BitempCols', 'BitempFirstS', 'BitempEmb', 'BitempH5', 'C17']
RULE = ('distinct protocol lines (a merge, a read or a spec read inside a publication history) on which the implementation '
        'returned a non-empty frame / series')
TRUSTED = ['correspondence harness (pv.engine, pv.proto) and generators of pv.props.c17',
           'Lean driver parser/printer (PygModel/Basic.lean, TSBasic.lean, BitempDriver.lean)']
ASSUMPTIONS = ['pandas: sort_values(kind="stable") is a stable sort; groupby(index) yields groups in ascending key order with rows in frame order; '
               'ffill, drop_duplicates(keep="last"), concat, boolean row selection behave as the reference functions of PygModel/Bitemp.lean',
               'modelled: series versions stamped with one date (Bi(ts, date)), with "shift" and with bumps of whole days (the wall clock '
               'dt() that Bi reads is replaced by the `now` of the protocol line while Bi runs), versions with unsorted or repeated dates, '
               'what = int | "last" | "first", frames with 2-3 value columns sharing one column set; not modelled: business-day / month '
               'bumps (calendar), frames with mixed column sets (_column_names), bi_asof (raises KeyError on every bitemporal frame '
               'under pandas 3), bi_read(asof=<bitemporal frame>), existing_data policies, tz-aware times']

D0 = datetime.datetime(2020, 1, 1)
S0 = datetime.datetime(2021, 1, 1)
DAY = datetime.timedelta(days=1)


def date(i):
    return D0 + i * DAY


def stamp(k2):
    """stamps of versions are the even multiples; odd ones fall strictly between"""
    return S0 + k2 * DAY


def enc_ts(pairs):
    return '(L' + ''.join(' (T %s %s)' % (enc(date(i)), 'F:nan' if v is None else 'I:%d' % v) for i, v in pairs) + ')'


def merge_line(k, pairs, names=None):
    """names = (Series.name, index.name) of the version handed to Bi (None = the three-argument line: an anonymous Series)"""
    if names is not None:
        return '(bitemp merge %s %s %s %s)' % (enc(stamp(2 * k)), enc_ts(pairs), *('N' if n is None else enc(n) for n in names))
    return '(bitemp merge %s %s)' % (enc(stamp(2 * k)), enc_ts(pairs))


# review t5: a Series that has a name (every column taken out of a DataFrame: df['px']) / an index that has a name.  The property
# speaks of "versions of a series": a name changes nothing about the publication.  'updated' as an index name is kept out (it is the
# name of the stamp column: bi_read raises "both an index level and a column label").
SERIES_NAMES = [None, 'px', 'px', 'value', '_is_series', 0]
INDEX_NAMES = [None, None, 'date', 'index']


def gen_names(rng, p=0.35):
    """per history: None (anonymous throughout, the old lines) or a function version number -> (series name, index name)"""
    if rng.random() >= p:
        return lambda j: None
    name, iname = rng.choice(SERIES_NAMES[1:]), rng.choice(INDEX_NAMES)
    flip = rng.random() < 0.4                      # some versions of a named history are anonymous (and the other way round)
    picks = [(name, iname) if not (flip and rng.random() < 0.3) else (None, iname) for _ in range(12)]
    return lambda j: picks[j % len(picks)]


def mergelist_line(batch):
    return '(bitemp mergelist (L%s))' % ''.join(' (T %s %s)' % (enc(stamp(2 * k)), enc_ts(pairs)) for k, pairs in batch)


def read_line(t2, what, spelling=None):
    """spelling: how the read time is handed to bi_read - None = a datetime.datetime; otherwise one of SPELLINGS (the model sees
    the same time T whatever its spelling)"""
    if spelling is not None and t2 is not None:
        return '(bitemp read %s I:%d %s)' % (enc(stamp(t2)), what, enc(spelling))
    return '(bitemp read %s I:%d)' % ('N' if t2 is None else enc(stamp(t2)), what)


# the spellings of a date that Bi(ts, asof) accepts for the stamp (through dt()); an as-of read at T spelled in any of them must
# be the as-of read at T (all stamps and read times of the generators are midnights, so every spelling is exact)
SPELLINGS = ['str', 'str-compact', 'int', 'date', 'timestamp', 'datetime64']
# spellings that keep a time of day (intraday histories: stamps and read times are whole minutes)
SPELLINGS_INTRADAY = ['str-minute', 'str-second', 'timestamp', 'datetime64']


def spell(t, spelling):
    if spelling == 'str':
        return t.strftime('%Y-%m-%d')
    if spelling == 'str-compact':
        return t.strftime('%Y%m%d')
    if spelling == 'int':
        return int(t.strftime('%Y%m%d'))
    if spelling == 'date':
        return t.date()
    if spelling == 'str-minute':
        return t.strftime('%Y-%m-%d %H:%M')
    if spelling == 'str-second':
        return t.strftime('%Y-%m-%dT%H:%M:%S')
    if spelling == 'timestamp':
        return pd.Timestamp(t)
    if spelling == 'datetime64':
        return np.datetime64(t)
    if spelling == 'offset':      # dt(n) for a small int n is today's midnight + n days: T = today is spelled 0 (a falsy asof)
        return int((t - datetime.datetime.combine(datetime.date.today(), datetime.time())).days)
    raise ValueError(spelling)


def reads_line(t2, sel):
    return '(bitemp reads %s %s)' % ('N' if t2 is None else enc(stamp(t2)), enc(sel))


def shift_line(now, pairs):
    return '(bitemp mergeshift %s %s)' % (enc(now), enc_ts(pairs))


def bump_line(days, now, pairs):
    return '(bitemp mergebump I:%d %s %s)' % (days, enc(now), enc_ts(pairs))


def enc_tsf(rows):
    return '(L' + ''.join(' (T %s (L%s))' % (enc(date(i)), ''.join(' ' + ('F:nan' if v is None else 'I:%d' % v) for v in vs))
                          for i, vs in rows) + ')'


def fmerge_line(k, rows):
    return '(bitemp fmerge %s %s)' % (enc(stamp(2 * k)), enc_tsf(rows))


def fread_line(t2, what):
    return '(bitemp fread %s I:%d)' % ('N' if t2 is None else enc(stamp(t2)), what)


def freads_line(t2, sel, width):
    return '(bitemp freads %s %s I:%d)' % ('N' if t2 is None else enc(stamp(t2)), enc(sel), width)


def read_at(t, what):
    """a read at an arbitrary datetime (bump / shift histories: the stamps are not on the 2-day grid)"""
    return '(bitemp read %s I:%d)' % ('N' if t is None else enc(t), what)


def read_at_spelled(t, what, spelling):
    return '(bitemp read %s I:%d %s)' % (enc(t), what, enc(spelling))


def merge_at(t, pairs):
    return '(bitemp merge %s %s)' % (enc(t), enc_ts(pairs))


def spec_at(t):
    return '(bitemp spec %s)' % ('N' if t is None else enc(t))


def spec_line(t2):
    return '(bitemp spec %s)' % ('N' if t2 is None else enc(stamp(t2)))


# ---------------------------------------------------------------- generators

def gen_history(rng, ndates, nver, ordered=True, ties=0.45, nonempty_start=False):
    """list of (k, [(date index, value | None)]) ; k = stamp number (non-decreasing when ordered)"""
    hist = []
    k = rng.choice([0, 0, 1])
    seen = {}
    for j in range(nver):
        if j > 0:
            if ordered:
                if rng.random() >= ties:
                    k += rng.choice([1, 1, 2])
            else:
                k = rng.randrange(0, 4)
        r = rng.random()
        if r < 0.08 and (j > 0 or not nonempty_start):
            ds = []
        elif r < 0.35:
            ds = list(range(ndates))
        else:
            p = rng.choice([0.3, 0.6, 0.85])
            ds = [i for i in range(ndates) if rng.random() < p]
            if not ds and j == 0 and nonempty_start:
                ds = [rng.randrange(ndates)]
        pairs = []
        for i in ds:
            past = seen.setdefault(i, [])
            r = rng.random()
            if r < 0.25:
                v = None
            elif r < 0.5 and past:
                v = past[-1]                      # repeat
            elif r < 0.65 and len(past) > 1:
                v = rng.choice(past[:-1])         # revert
            else:
                v = rng.choice([1, 2, 3, 4, 5])
            if v is not None:
                past.append(v)
            pairs.append((i, v))
        hist.append((k, pairs))
    return hist


def read_times(hist):
    ks = sorted(set(k for k, _ in hist))
    ts = set([None, 2 * ks[0] - 1, 2 * ks[-1] + 1])
    for k in ks:
        ts.add(2 * k)
        ts.add(2 * k + 1)
    return sorted(ts, key=lambda t: (-10 ** 6 if t is None else t))


def history_case(rng, ndates, ordered, idem):
    nver = rng.choice([1, 2, 3, 3, 4, 5, 6])
    hist = gen_history(rng, ndates, nver, ordered)
    ks = [k for k, _ in hist]
    kind = 'unordered' if not ordered else ('ties' if len(set(ks)) < len(ks) else 'distinct')
    lines = []
    T = read_times(hist)
    names = gen_names(rng)
    for j, (k, pairs) in enumerate(hist):
        lines.append(merge_line(k, pairs, names(j)))
        last = j == len(hist) - 1
        sub = T if (last or ndates <= 5 and rng.random() < 0.3) else rng.sample(T, min(len(T), 2))
        for t in sub:
            lines.append(read_line(t, -1))
            if ordered:
                lines.append(spec_line(t))
            if last or rng.random() < 0.5:
                lines.append(read_line(t, 0))
        if rng.random() < 0.3:
            lines.append(read_line(rng.choice(T), rng.choice([1, 2, -2, -3, 7, -9])))
        if rng.random() < 0.5:
            lines.append(read_line(rng.choice(T), rng.choice([-1, -1, 0]), rng.choice(SPELLINGS)))
        if rng.random() < 0.5:
            lines.append(reads_line(rng.choice(T), rng.choice(['last', 'last', 'first'])))
    tag = 'h%d-%s' % (ndates, kind)
    if names(0) is not None:
        tag += '+named'
    if idem:
        # re-merge a version that is in the store: the one merged last (always claimed by the property)
        k, pairs = hist[-1]
        lines.append(merge_line(k, pairs, names(len(hist) - 1)))
        for t in T:
            lines.append(read_line(t, -1))
            lines.append(read_line(t, 0))
        tag += '+remerge'
    return dict(tag=tag, lines=lines, ordered=ordered)


def intraday_case(rng, ndates):
    """stamps and read times with a time of day (review s5): versions published 7 hours (and some minutes) apart, several per day,
    some sharing a stamp; reads one minute before / on / one minute after every stamp, spelled as datetime, 'YYYY-MM-DD HH:MM',
    ISO seconds, Timestamp, datetime64.  The model compares the microsecond counts, so nothing changes on its side."""
    nver = rng.choice([2, 3, 4, 5, 6])
    hist = gen_history(rng, ndates, nver, True)
    minute = datetime.timedelta(minutes=1)
    at = lambda k: S0 + k * datetime.timedelta(hours=7) + (k % 3) * 17 * minute
    ks = sorted(set(k for k, _ in hist))
    T = [None, at(ks[0]) - minute, at(ks[-1]) + minute]
    for k in ks:
        T += [at(k) - minute, at(k), at(k) + minute]
    lines = []
    for j, (k, pairs) in enumerate(hist):
        lines.append(merge_at(at(k), pairs))
        for t in (T if j == len(hist) - 1 else rng.sample(T, 3)):
            lines += [read_at(t, -1), spec_at(t), read_at(t, 0)]
            if t is not None and rng.random() < 0.6:
                lines.append(read_at_spelled(t, rng.choice([-1, -1, 0]), rng.choice(SPELLINGS_INTRADAY)))
    return dict(tag='h%d-intraday' % ndates, lines=lines, ordered=True)


def batch_case(rng, ndates):
    """the same kind of history, but consecutive versions handed to ONE bi_merge call as a list"""
    nver = rng.choice([2, 3, 4, 5, 6])
    hist = gen_history(rng, ndates, nver, True, nonempty_start=rng.random() < 0.8)
    T = read_times(hist)
    lines = []
    i = 0
    while i < len(hist):
        k = rng.choice([0, 1, 2, 2, 3]) if i > 0 or rng.random() < 0.3 else rng.choice([1, 2, 3])
        batch = hist[i:i + k]
        i += k
        lines.append(mergelist_line(batch))
        for t in (T if i >= len(hist) else rng.sample(T, min(len(T), 2))):
            lines += [read_line(t, -1), spec_line(t), read_line(t, 0)]
    return dict(tag='h%d-batches' % ndates, lines=lines, ordered=True)


def index_case(rng, ndates):
    """versions whose index is not sorted, or holds a date twice (item 3 of g4).  Unsorted, duplicate-free versions are partial
    series over the set of dates like any other (inside the quantifier); a date held twice by a LATER version is read as two
    publications (theorem read_spec_any_index, still compared with the log fold); a date held twice by the FIRST version is not
    a series over a set of dates - the code returns that frame as it is - correspondence only."""
    nver = rng.choice([2, 3, 4, 5])
    hist = gen_history(rng, ndates, nver, True, nonempty_start=True)
    kind = rng.choice(['shuffled', 'shuffled', 'dup-later', 'dup-first'])
    if kind == 'dup-first' and ndates > 5:
        # a first version with a repeated date is stored as it is; with more than ~16 rows bi_read's own (unstable) sort_values
        # then orders the equal-stamp rows of that date arbitrarily - outside the quantifier, not generated
        kind = 'dup-later'
    out = []
    for j, (k, pairs) in enumerate(hist):
        pairs = list(pairs)
        if kind == 'dup-later' and j > 0 or kind == 'dup-first' and j == 0:
            for _ in range(rng.choice([1, 1, 2])):
                i = rng.choice(pairs)[0] if pairs else rng.randrange(ndates)
                pairs.insert(rng.randrange(len(pairs) + 1), (i, rng.choice([None, 1, 2, 3, 4, 5])))
        if rng.random() < 0.8:
            rng.shuffle(pairs)
        out.append((k, pairs))
    ordered = kind != 'dup-first'
    T = read_times(out)
    lines = []
    for j, (k, pairs) in enumerate(out):
        lines.append(merge_line(k, pairs))
        for t in (T if j == len(out) - 1 else rng.sample(T, min(len(T), 2))):
            lines.append(read_line(t, -1))
            if ordered:
                lines.append(spec_line(t))
            lines.append(read_line(t, 0))
            lines.append(reads_line(t, 'last'))
    return dict(tag='h%d-index-%s' % (ndates, kind), lines=lines, ordered=ordered)


def _py_stamps(kind, arg, now, pairs):
    """the stamps Bi gives (mirrors the model; used only to classify a generated history as per-date ordered or not)"""
    if kind == 'shift':
        ds = [date(i) for i, _ in pairs]
        return ds[1:] + [now]
    return [min(date(i) + arg * DAY, now) for i, _ in pairs]


def stamped_case(rng, ndates, kind):
    """Bi with a bump of whole days / with 'shift': every row has its own stamp.  The creation times `now` (the wall clock Bi
    reads, set by the runner) do not decrease.  Dates beyond `now` (forecast dates) exercise the cap."""
    nver = rng.choice([1, 2, 3, 4])
    days = rng.choice([0, 1, 1, 2, 3, 7, -1])
    now = D0 + rng.choice([0, 1, 2, ndates // 2]) * DAY + datetime.timedelta(hours=rng.choice([0, 6]))
    lines, per, ok, T = [], {}, True, set([None])
    for j in range(nver):
        now = now + rng.choice([0, 0, 1, 2, 5]) * DAY
        ds = sorted(rng.sample(range(ndates), rng.randrange(1, ndates + 1)))
        if rng.random() < 0.15:
            rng.shuffle(ds)
        pairs = [(i, rng.choice([None, 1, 2, 3, 4, 5])) for i in ds]
        if j > 0 and kind == 'shift' and rng.random() < 0.15:
            pairs.append((rng.choice(ds), 3))                      # a date twice in a later version (Bi with a bump raises on it)
        st = _py_stamps(kind, days, now, pairs)
        for (i, _), u in zip(pairs, st):
            if i in per and per[i] > u:
                ok = False
            per[i] = max(per.get(i, u), u)
            T.add(u)
            T.add(u - DAY / 2)
        lines.append(shift_line(now, pairs) if kind == 'shift' else bump_line(days, now, pairs))
        for t in rng.sample(sorted(T, key=lambda t: (t is not None, t)), min(len(T), 4)):
            lines.append(read_at(t, -1))
            if ok:
                lines.append(spec_at(t))
            lines.append(read_at(t, 0))
    lines += [read_at(None, -1), read_at(None, 0), reads_line(None, 'last'), reads_line(None, 'first')]
    if ok:
        lines.append(spec_at(None))
    return dict(tag='h%d-%s%s' % (ndates, kind, '' if ok else '-unordered'), lines=lines, ordered=ok)


def gen_frame_history(rng, ndates, nver, width):
    hist, k, seen = [], rng.choice([0, 1]), {}
    for j in range(nver):
        if j > 0 and rng.random() >= 0.35:
            k += rng.choice([1, 1, 2])
        p = rng.choice([0.4, 0.7, 1.0])
        rows = []
        for i in range(ndates):
            if rng.random() < p:
                past = seen.setdefault(i, [[] for _ in range(width)])
                vs = []
                for c in range(width):
                    r = rng.random()
                    if r < 0.2:
                        v = None
                    elif r < 0.65 and past[c]:
                        v = past[c][-1]                 # this column repeats (the others may not)
                    else:
                        v = rng.choice([1, 2, 3, 4, 5])
                    if v is not None:
                        past[c].append(v)
                    vs.append(v)
                rows.append((i, vs))
        hist.append((k, rows))
    return hist


def frame_case(rng, ndates, width):
    """frames with 2-3 value columns: rows where only some columns repeat, partial NaN rows, same-stamp versions"""
    hist = gen_frame_history(rng, ndates, rng.choice([2, 3, 4, 5]), width)
    if not hist[0][1]:
        hist[0] = (hist[0][0], [(0, [1] * width)])
    T = read_times(hist)
    lines = []
    for j, (k, rows) in enumerate(hist):
        lines.append(fmerge_line(k, rows))
        for t in (T if j == len(hist) - 1 else rng.sample(T, min(len(T), 2))):
            lines += [fread_line(t, -1), fread_line(t, 0), freads_line(t, 'last', width)]
        if rng.random() < 0.4:
            lines.append(fread_line(rng.choice(T), rng.choice([1, -2, 2, -3])))
        if rng.random() < 0.4:
            lines.append(freads_line(rng.choice(T), 'first', width))
    return dict(tag='f%d-w%d' % (ndates, width), lines=lines, ordered=True)


def generate(rng, tier):
    n = 15 if tier == 'quick' else 400
    for nd in (3, 5, 25):
        for _ in range(max(3, n // 5)):
            yield index_case(rng, nd)
        for _ in range(max(3, n // 5)):
            yield stamped_case(rng, nd, 'bump')
        for _ in range(max(3, n // 6)):
            yield stamped_case(rng, nd, 'shift')
    for nd in (2, 4, 12):
        for w in (2, 3):
            for _ in range(max(3, n // 5)):
                yield frame_case(rng, nd, w)
    # the witnesses of the frame theorems (frame_default_read_nan_overrides, frame_last_loses_value) and a one-column frame
    yield dict(tag='special-frame-nan-column', ordered=True, lines=[
        fmerge_line(0, [(0, [1, 1])]), fmerge_line(1, [(0, [None, 2])]), fread_line(None, -1), freads_line(None, 'last', 2),
        fread_line(None, 0), fread_line(1, -1)])
    yield dict(tag='special-frame-same-stamp', ordered=True, lines=[
        fmerge_line(0, [(0, [1, 1])]), fmerge_line(1, [(0, [5, 1])]), fmerge_line(1, [(0, [None, 2])]), fread_line(None, -1),
        freads_line(None, 'last', 2), freads_line(None, 'first', 2)])
    yield dict(tag='special-frame-one-column', ordered=True, lines=[
        fmerge_line(0, [(0, [1]), (1, [None])]), fmerge_line(1, [(0, [1]), (1, [2])]), fmerge_line(1, [(0, [None]), (1, [3])]),
        fread_line(None, -1), fread_line(None, 0), freads_line(None, 'last', 1)])
    # read times spelled as day offsets from today (dt(0) = today, dt(-1) = yesterday ...): versions stamped around the real today,
    # so that T = today is the integer 0 - a read time that is falsy (seeded C17-q3: `elif asof:` for `elif asof is not None:`)
    k0 = (datetime.datetime.combine(datetime.date.today(), datetime.time()) - S0).days
    for what in (-1, 0):
        yield dict(tag='special-asof-offset-from-today', ordered=True, lines=[
            '(bitemp merge %s %s)' % (enc(stamp(k0 + d)), enc_ts(pairs)) for d, pairs in ((-2, [(0, 1), (1, 1)]), (0, [(0, 2)]), (2, [(0, 3), (1, 3)]))] +
            [read_line(k0 + d, what, 'offset') for d in (-3, -2, -1, 0, 1, 2, 3)])
    # the store that holds two consecutive equal values (no_consecutive_repeats_fails)
    yield dict(tag='special-consecutive-repeat', ordered=True, lines=[
        merge_line(0, [(0, 3)]), merge_line(1, [(0, 5)]), merge_line(2, [(0, 6)]), merge_line(2, [(0, 5)]),
        read_line(None, -1), read_line(None, -2), reads_line(None, 'last'), reads_line(None, 'first')])
    for nd in (3, 5, 25):
        for _ in range(max(4, n // 5)):
            yield batch_case(rng, nd)
        for _ in range(max(4, n // 4)):
            yield intraday_case(rng, nd)
    for nd in (3, 5, 25):
        for _ in range(n):
            yield history_case(rng, nd, True, rng.random() < 0.35)
        for _ in range(max(3, n // 8)):
            yield history_case(rng, nd, False, False)
    # the special shapes DESIGN lists, deterministically
    for nd in (3, 25):
        full = lambda v: [(i, v) for i in range(nd)]
        specials = [
            ('same-stamp-override', [(0, full(1)), (0, full(2))]),
            ('nan-never-overrides', [(0, full(1)), (1, full(None)), (1, full(None))]),
            ('nan-first', [(0, full(None)), (0, full(None)), (1, full(3))]),
            ('revert', [(0, full(1)), (1, full(2)), (2, full(1))]),
            ('revert-same-stamp', [(0, full(1)), (1, full(2)), (1, full(1))]),
            ('late-dates', [(0, [(0, 1)]), (1, [(i, 2) for i in range(1, nd)])]),
            ('empty-first', [(0, []), (0, full(1)), (1, [])]),
            ('two-empty-first', [(0, []), (1, []), (1, full(1))]),      # the second bi_merge raises ValueError (historyE_raises)
        ]
        for name, hist in specials:
            lines = []
            T = read_times(hist)
            for k, pairs in hist:
                lines.append(merge_line(k, pairs))
                for t in T:
                    lines += [read_line(t, -1), spec_line(t), read_line(t, 0)]
            yield dict(tag='special-%s-%d' % (name, nd), lines=lines, ordered=True)
        # the read time in every spelling, before / on / between / after two stamps
        hist = [(0, full(1)), (1, full(2)), (2, [(0, 3)])]
        lines = [merge_line(k, pairs) for k, pairs in hist]
        for t in read_times(hist):
            if t is not None:
                for sp in SPELLINGS:
                    lines += [read_line(t, -1, sp), read_line(t, 0, sp)]
        yield dict(tag='special-asof-spellings-%d' % nd, lines=lines, ordered=True)


# ---------------------------------------------------------------- implementation runner

def new_state():
    return dict(store=None, mode=None, frame=None, fstore=None, ints=False)


class _clock(object):
    """Bi(ts, 'shift' | bump) reads the wall clock through dt(); while Bi runs the clock is the `now` of the protocol line"""

    def __init__(self, now):
        self.now = now

    def __enter__(self):
        import logging
        import pyg_base._bitemporal as B
        logging.getLogger('pyg').setLevel(logging.ERROR)      # dt_bump warns about every unsorted index on stderr
        self.B, self.real = B, B.dt
        real, now = self.real, self.now
        B.dt = lambda *a, **k: (now if not a and not k else real(*a, **k))

    def __exit__(self, *exc):
        self.B.dt = self.real


COLS = ['a', 'b', 'c']


def _frame(rows, width):
    idx = pd.DatetimeIndex([t for t, _ in rows])
    return pd.DataFrame({COLS[c]: np.array([np.nan if vs[c] is None else float(vs[c]) for _, vs in rows], dtype=float)
                         for c in range(width)}, index=idx)


def _dec_tsf(sx):
    out = []
    for item in sx[1:]:
        vs = [proto.dec(x) for x in item[2][1:]]
        out.append((proto.dec(item[1]), [None if (isinstance(v, float) and v != v) else v for v in vs]))
    return out


def _width(df):
    return len([c for c in COLS if c in df.columns])


def enc_fstore(df):
    from pyg_base._bitemporal import _updated
    w = _width(df)
    return '(L' + ''.join(' (T %s %s (L%s))' % (_enc_time(t), _enc_time(u), ''.join(' ' + _enc_val(df[COLS[c]].values[i]) for c in range(w)))
                          for i, (t, u) in enumerate(zip(df.index, df[_updated].values))) + ')'


def enc_frame(r, w):
    if not isinstance(r, pd.DataFrame):
        raise proto.Unencodable('bi_read returned %s' % type(r).__name__)
    return '(L' + ''.join(' (T %s (L%s))' % (_enc_time(t), ''.join(' ' + _enc_val(r[COLS[c]].values[i]) for c in range(w)))
                          for i, t in enumerate(r.index)) + ')'


def _version(state, pairs, line, names=None):
    """the object handed to Bi: a fresh Series, or - on every third history - a one-column DataFrame; a publisher that revises
    its data keeps ONE frame object, updates it in place and publishes the same object again (same index), which is how
    an aliasing slip in Bi (stamping the caller's frame) becomes visible"""
    import zlib
    if state['mode'] is None:
        state['mode'] = 'frame' if zlib.crc32(line.encode()) % 3 == 0 and names is None else 'series'
        state['ints'] = zlib.crc32(line.encode()) % 4 == 1
    # on every fourth history a version without NaN is an int64 series (review s5): the stored column starts as int64 and turns
    # float with the first NaN
    s = _series(pairs, ints=state.get('ints', False), names=names)
    if state['mode'] == 'series':
        return s
    f = state['frame']
    if f is not None and len(f.index) == len(s.index) and (f.index == s.index).all():
        f['x'] = s.values                      # the same object, revised in place
        return f
    state['frame'] = pd.DataFrame({'x': s.values}, index=s.index)
    return state['frame']


def _series(pairs, ints=False, names=None):
    name, iname = names if names is not None else (None, None)
    idx = pd.DatetimeIndex([t for t, _ in pairs], name=iname)
    if ints and pairs and all(v is not None and int(v) == v for _, v in pairs):
        return pd.Series([int(v) for _, v in pairs], index=idx, dtype=np.int64, name=name)
    return pd.Series([np.nan if v is None else float(v) for _, v in pairs], index=idx, dtype=float, name=name)


def _dec_ts(sx):
    out = []
    for item in sx[1:]:
        t = proto.dec(item[1])
        v = proto.dec(item[2])
        out.append((t, None if (isinstance(v, float) and v != v) else v))
    return out


def _enc_val(v):
    if v is None or (isinstance(v, float) and v != v) or v is pd.NaT:
        return 'F:nan'
    return enc(float(v))


def _enc_time(t):
    return enc(pd.Timestamp(t).to_pydatetime())


def enc_series(r):
    if isinstance(r, pd.DataFrame) and list(r.columns) == ['x']:
        r = r['x']
    if not isinstance(r, pd.Series):
        raise proto.Unencodable('bi_read returned %s' % type(r).__name__)
    return '(L' + ''.join(' (T %s %s)' % (_enc_time(t), _enc_val(v)) for t, v in zip(r.index, r.values)) + ')'


def enc_store(df):
    from pyg_base._bitemporal import _updated, _series as col
    if col not in df.columns and 'x' in df.columns:
        col = 'x'
    return '(L' + ''.join(' (T %s %s %s)' % (_enc_time(t), _enc_time(u), _enc_val(v))
                          for t, u, v in zip(df.index, df[_updated].values, df[col].values)) + ')'


def run_line(state, sx):
    from pyg_base._bitemporal import bi_merge, bi_read, Bi
    op, args = sx[1], sx[2:]
    if op == 'merge':
        st = proto.dec(args[0])
        names = tuple(None if a == 'N' else proto.dec(a) for a in args[2:4]) if len(args) == 4 else None
        state['store'] = bi_merge(state['store'], Bi(_version(state, _dec_ts(args[1]), proto.render(sx), names), st))
        return 'ok ' + enc_store(state['store'])
    if op == 'mergelist':
        news = [Bi(_series(_dec_ts(item[2])), proto.dec(item[1])) for item in args[0][1:]]
        state['store'] = bi_merge(state['store'], news)
        return 'ok N' if state['store'] is None else 'ok ' + enc_store(state['store'])
    if op in ('mergeshift', 'mergebump'):
        now = proto.dec(args[-2])
        ts = _series(_dec_ts(args[-1]))
        with _clock(now):
            new = Bi(ts, 'shift' if op == 'mergeshift' else proto.dec(args[0]))
        state['store'] = bi_merge(state['store'], new)
        return 'ok ' + enc_store(state['store'])
    if op == 'reads':
        asof = None if args[0] == 'N' else proto.dec(args[0])
        if state['store'] is None:
            return 'ok N'
        return 'ok ' + enc_series(bi_read(state['store'], asof, proto.dec(args[1])))
    if op == 'fmerge':
        rows = _dec_tsf(args[1])
        w = len(rows[0][1]) if rows else (_width(state['fstore']) if state['fstore'] is not None else 2)
        state['fstore'] = bi_merge(state['fstore'], Bi(_frame(rows, w), proto.dec(args[0])))
        return 'ok ' + enc_fstore(state['fstore'])
    if op in ('fread', 'freads'):
        asof = None if args[0] == 'N' else proto.dec(args[0])
        if state['fstore'] is None:
            return 'ok N'
        return 'ok ' + enc_frame(bi_read(state['fstore'], asof, proto.dec(args[1])), _width(state['fstore']))
    if op in ('read', 'spec'):
        asof = None if args[0] == 'N' else proto.dec(args[0])
        what = proto.dec(args[1]) if op == 'read' else -1
        if len(args) > 2:
            asof = spell(asof, proto.dec(args[2]))
        if state['store'] is None:
            return 'ok N'
        return 'ok ' + enc_series(bi_read(state['store'], asof, what))
    return 'bad-op'


def compare(case, i, line, ir, mr):
    if proto.same_reply(ir, mr):
        return None
    if mr == 'bad-op':
        return ('divergence', 'the model does not cover this line (malformed or out of scope): implementation %s' % ir)
    sx = proto.parse(line)
    op = sx[1]
    ordered = case.get('ordered', _ordered(case))
    if not ir.startswith('ok'):
        return '%s did not return: %s (model: %s)' % (op, ir, mr)
    if not ordered:
        return ('divergence', 'history not in stamp order (outside the statement): implementation %s, model %s' % (ir, mr))
    if op == 'spec':
        return 'as-of read differs from the fold of the publication log: implementation %s, specification %s' % (ir, mr)
    if op == 'read' and len(sx) > 4 and sx[3] in ('I:-1', 'I:0'):
        t = proto.dec(sx[2])
        return 'bi_read(asof=%r, what=%s) is not the read as of %s: implementation %s, model %s' % (
            spell(t, proto.dec(sx[4])), sx[3][2:], t, ir, mr)
    if op == 'reads' and proto.dec(sx[3]) == 'last':
        return "bi_read(what='last'): implementation %s, model (proved equal to the default read and the log fold) %s" % (ir, mr)
    if op == 'read' and sx[3] in ('I:-1', 'I:0'):
        return 'bi_read(what=%s): implementation %s, model (proved equal to the log fold) %s' % (sx[3][2:], ir, mr)
    return ('divergence', '%s: implementation %s, model %s' % (op, ir, mr))


def _ordered(case):
    last = None
    for l in case['lines']:
        sx = proto.parse(l)
        stamps = [sx[2]] if sx[1] == 'merge' else [item[1] for item in sx[2][1:]] if sx[1] == 'mergelist' else []
        for a in stamps:
            t = int(a[2:])
            if last is not None and t < last:
                return False
            last = t
    return True


def nontrivial(line, reply):
    return reply.startswith('ok (L (')


# ---------------------------------------------------------------- laws on the implementation alone

def _fold(pubs):
    """pubs: values of one date in merge order -> latest non-NaN (None if there is none)"""
    out = None
    for v in pubs:
        if v is not None:
            out = v
    return out


def py_spec(hist, t2, first=False):
    """the statement, computed from the publication log: {date index: value} as of stamp number t2/2"""
    per = {}
    for k, pairs in hist:
        if t2 is None or 2 * k <= t2:
            for i, v in pairs:
                per.setdefault(i, []).append((k, v))
    out = {}
    for i, pubs in per.items():
        if first == 'literal':
            out[i] = pubs[0][1]                   # the statement as written: the first value published for the date (NaN if that was NaN)
            continue
        if first:
            k0 = pubs[0][0]
            pubs = [p for p in pubs if p[0] == k0]
        out[i] = _fold([v for _, v in pubs])
    return out


def _hist_of(lines):
    """the publication history spelled by the merge lines of a case: [(stamp number k, [(date index, value | None)])]"""
    hist = []
    for l in lines:
        sx = proto.parse(l)
        if sx[1] == 'merge':
            k = (proto.dec(sx[2]) - S0) // DAY // 2
            hist.append((k, [((t - D0) // DAY, v) for t, v in _dec_ts(sx[3])]))
    return hist


def _k_first(f):
    """what=0 after two or more publications of a date that share the date's FIRST stamp: the store keeps one row per (date, stamp)
    - the value merged last (_drop_repeats, drop_duplicates(keep='last')) - so the first published value is gone.  Recognised: a
    'law-read-first-literal' finding in which every date read differently from the first published value (a) has at least two
    publications with its first stamp and (b) is read as the fold of exactly those publications."""
    if f.case.get('tag') != 'law-read-first-literal':
        return False
    hist = _hist_of(f.case['lines'])
    sx = proto.parse(f.case['lines'][-1])
    t2 = None if sx[2] == 'N' else (proto.dec(sx[2]) - S0) // DAY
    lit, fold = py_spec(hist, t2, 'literal'), py_spec(hist, t2, True)
    got = {int(i): v for i, v in f.case['got']}
    if set(got) != set(lit):
        return False
    odd = [i for i in got if got[i] != lit[i]]

    def shared_first(i):
        ks = [k for k, pairs in hist if (t2 is None or 2 * k <= t2) and any(j == i for j, _ in pairs)]
        return len(ks) > 1 and ks[1] == ks[0]
    return bool(odd) and all(got[i] == fold[i] and shared_first(i) for i in odd)


def _read(store, t2, what, spelling=None):
    from pyg_base._bitemporal import bi_read
    asof = None if t2 is None else stamp(t2)
    r = bi_read(store, asof if spelling is None or asof is None else spell(asof, spelling), what)
    return {int((pd.Timestamp(t).to_pydatetime() - D0) // DAY): (None if (v is None or v != v) else (int(v) if float(v) == int(v) else float(v)))
            for t, v in zip(r.index, r.values)}, len(r)


def _dump(df):
    """everything a caller can see of a stored frame"""
    return (('index name', df.index.name), ('columns', list(df.columns)), ('dtypes', [str(x) for x in df.dtypes]),
            ('rows', [tuple(None if x != x else x for x in row) for row in df.itertuples()]))


def _rows(store):
    """the rows of a store as (date index, stamp number, value | None)"""
    from pyg_base._bitemporal import _updated, _series as col
    return set((int((pd.Timestamp(t).to_pydatetime() - D0) // DAY), (pd.Timestamp(u).to_pydatetime() - S0) // DAY // 2,
                None if v != v else (int(v) if float(v) == int(v) else float(v)))
               for t, u, v in zip(store.index, store[_updated].values, store[col].values))


def laws(rng, tier, ctx):
    from pyg_base._bitemporal import bi_merge, bi_read, Bi, _updated as BUPD, _series as BCOL
    count = 0
    m = 9 if tier == 'quick' else 150
    for nd in (3, 5, 25):
        for _ in range(m):
            nver = rng.choice([2, 3, 4, 5, 6])
            hist = gen_history(rng, nd, nver, True, nonempty_start=True)
            T = read_times(hist)
            lines = []
            store = None
            snaps = []
            bad = None
            first_bad = None
            names = gen_names(rng)
            for j, (k, pairs) in enumerate(hist):
                lines.append(merge_line(k, pairs, names(j)))
                # Bi(ts, stamp) is the version that is merged: one row per row of ts, its values, the stamp (the model's `Bi` by definition;
                # review t5: a Series that has a name came out with no row at all)
                ver = _series([(date(i), v) for i, v in pairs], ints=(j % 2 == 1), names=names(j))
                new = Bi(ver, stamp(2 * k))
                count += 1
                got_rows = [(pd.Timestamp(t), None if v != v else float(v)) for t, v in zip(new.index, new[BCOL].values)] if BCOL in new.columns else None
                want_rows = [(pd.Timestamp(date(i)), None if v is None else float(v)) for i, v in pairs]
                if (got_rows != want_rows or any(pd.Timestamp(u) != pd.Timestamp(stamp(2 * k)) for u in new[BUPD].values)) and bad is None:
                    bad = ('law-bi-rows', lines + [read_line(None, -1), spec_line(None)],
                           'Bi(series named %r, stamp) has the rows %s, the series has %s' % (ver.name, got_rows, want_rows))
                store = bi_merge(store, new)
                snaps.append(store)
                for t in (T if j == len(hist) - 1 else rng.sample(T, 3)):
                    for what, first in ((-1, False), (0, True)):
                        count += 1
                        got, n = _read(store, t, what)
                        want = py_spec(hist[:j + 1], t, first)
                        if (got != want or n != len(want)) and bad is None:
                            bad = ('law-read-spec' if what == -1 else 'law-read-first', lines + [read_line(t, what)],
                                   'bi_read(asof=%s, what=%d) = %s but the publication log gives %s' % (t, what, got, want))
                        if first:
                            # the clause as written: the FIRST value published per date (known finding C17-K1 when several
                            # publications share the date's first stamp)
                            count += 1
                            lit = py_spec(hist[:j + 1], t, 'literal')
                            if got != lit and first_bad is None:
                                first_bad = Finding('violation', dict(tag='law-read-first-literal', lines=lines + [read_line(t, 0)], atomic=True,
                                                                     ordered=True, got=sorted(got.items())),
                                                    'bi_read(asof=%s, what=0) = %s but the first values published are %s' % (t, got, lit))
            # what='last' is the default read (theorem read_str_last)
            for t in T:
                count += 1
                a, b = _read(store, t, -1)[0], _read(store, t, 'last')[0]
                if a != b and bad is None:
                    bad = ('law-str-last', lines + [reads_line(t, 'last')],
                           "bi_read(asof=%s, what='last') = %s but the default read is %s" % (t, b, a))
            # the read time in another spelling is the same read time
            for t in T:
                if t is not None:
                    sp = rng.choice(SPELLINGS)
                    count += 1
                    a = _read(store, t, -1)[0]
                    try:
                        b = _read(store, t, -1, sp)[0]
                    except Exception as e:
                        b = 'raised %s' % type(e).__name__
                    if a != b and bad is None:
                        bad = ('law-asof-spelling', lines + [read_line(t, -1, sp)],
                               'bi_read(asof=%r) = %s but the read as of that time is %s' % (spell(stamp(t), sp), b, a))
            # no look-ahead, directly: what was readable as of T before later versions arrived is still what is read
            for j in range(len(hist) - 1):
                later = min(k for k, _ in hist[j + 1:])
                for t in T:
                    if t is not None and t < 2 * later:
                        count += 1
                        a, b = _read(snaps[j], t, -1)[0], _read(store, t, -1)[0]
                        if a != b and bad is None:
                            bad = ('law-no-lookahead', lines + [read_line(t, -1)],
                                   'read as of %s changed after merging versions stamped later: %s -> %s' % (t, a, b))
            # idempotence: re-merge the last version, and any earlier version whose values are (NaN or) the visible ones
            for j in range(len(hist) - 1, -1, -1):
                k, pairs = hist[j]
                if j < len(hist) - 1:
                    vis = _read(store, 2 * k, -1)[0]
                    if not all(i in vis and (v is None or vis[i] == v) for i, v in pairs):
                        continue
                again = bi_merge(store, Bi(_series([(date(i), v) for i, v in pairs]), stamp(2 * k)))
                for t in T:
                    for what in (-1, 0):
                        count += 1
                        a, b = _read(store, t, what)[0], _read(again, t, what)[0]
                        if a != b and bad is None:
                            bad = ('law-remerge', lines + [merge_line(k, pairs), read_line(t, what)],
                                   're-merging version %d changed bi_read(asof=%s, what=%d): %s -> %s' % (j, t, what, a, b))
            # idempotence for the REST of the history (theorems merge_idem_future, merge_idem_future_visible): re-merge a version that is
            # in the store - also one stamped earlier than the last version -, merge further versions, and compare every read with the
            # history that was not re-merged
            # (candidates: versions whose values are NaN or the values visible as of their stamp - theorem merge_idem_future_visible; among
            # them those whose rows are all rows of the store - merge_idem_future; a repeat row is compressed away and only visible)
            rows = _rows(store)

            def visible(k, pairs):
                vis = _read(store, 2 * k, -1)[0]
                return all(i in vis and (v is None or vis[i] == v) for i, v in pairs)
            cands = [j for j, (k, pairs) in enumerate(hist) if pairs and (all((i, k, v) in rows for i, v in pairs) or visible(k, pairs))]
            if cands:
                # one to three of them, in any order, the same one possibly twice (theorem merge_idem_many; the candidates stay candidates:
                # the test is on reads, and the reads do not change)
                js = [rng.choice(cands) for _ in range(rng.choice([1, 1, 2, 3]))]
                j = js[0]
                later = [(hist[-1][0] + k2, ps) for k2, ps in gen_history(rng, nd, rng.choice([1, 2, 3]), True)]
                a, b = store, store
                for jj in js:
                    k, pairs = hist[jj]
                    b = bi_merge(b, Bi(_series([(date(i), v) for i, v in pairs], names=names(jj)), stamp(2 * k)))
                for k2, ps in later:
                    new = lambda: Bi(_series([(date(i), v) for i, v in ps]), stamp(2 * k2))
                    a, b = bi_merge(a, new()), bi_merge(b, new())
                for t in read_times(hist + later):
                    for what in (-1, 0):
                        count += 1
                        ra, rb = _read(a, t, what)[0], _read(b, t, what)[0]
                        if ra != rb and bad is None:
                            bad = ('law-remerge-future', lines + [merge_line(*hist[jj], names(jj)) for jj in js] + [merge_line(k2, ps) for k2, ps in later] + [read_line(t, what)],
                                   're-merging version(s) %s (their values are the ones visible as of their stamps) changed bi_read(asof=%s, what=%d) after %d further merges: %s -> %s'
                                   % (js, t, what, len(later), ra, rb))
            # idempotence, fully interleaved (theorem merge_idem_interleaved): new versions and re-merges alternate; at every re-merge the
            # candidate is tested against the store AT THAT MOMENT (published so far, values NaN or visible as of its stamp); the history
            # without the re-merges is run beside it and every read compared
            if bad is None:
                pub = list(hist)
                a, b = store, store
                il_lines = []
                nre = 0
                for k2, ps in [(hist[-1][0] + k2, ps) for k2, ps in gen_history(rng, nd, rng.choice([2, 3, 4]), True)]:
                    for _ in range(rng.choice([0, 1, 1, 2])):
                        kk, pp = rng.choice(pub)
                        vis = _read(b, 2 * kk, -1)[0]
                        if pp and all(i in vis and (v is None or vis[i] == v) for i, v in pp):
                            b = bi_merge(b, Bi(_series([(date(i), v) for i, v in pp]), stamp(2 * kk)))
                            il_lines.append(merge_line(kk, pp))
                            nre += 1
                    new = lambda: Bi(_series([(date(i), v) for i, v in ps]), stamp(2 * k2))
                    a, b = bi_merge(a, new()), bi_merge(b, new())
                    il_lines.append(merge_line(k2, ps))
                    pub.append((k2, ps))
                if nre:
                    for t in read_times(pub):
                        for what in (-1, 0):
                            count += 1
                            ra, rb = _read(a, t, what)[0], _read(b, t, what)[0]
                            if ra != rb and bad is None:
                                bad = ('law-remerge-interleaved', lines + il_lines + [read_line(t, what)],
                                       '%d re-merges of published, visible versions between the later merges changed bi_read(asof=%s, what=%d): %s -> %s'
                                       % (nre, t, what, ra, rb))
            # a read is a read (review t5): bi_read leaves the store it is given as it was (values, stamps, dtypes, index name), and the
            # same read twice is the same Series including the name of its index - on a store no read has touched yet
            fresh = None
            for j, (k, pairs) in enumerate(hist):
                fresh = bi_merge(fresh, Bi(_series([(date(i), v) for i, v in pairs], names=names(j)), stamp(2 * k)))
            for t in (None, T[-1]):
                for what in (-1, 0):
                    count += 1
                    before = _dump(fresh)
                    r1 = bi_read(fresh, None if t is None else stamp(t), what)
                    after = _dump(fresh)
                    r2 = bi_read(fresh, None if t is None else stamp(t), what)
                    if before != after and bad is None:
                        bad = ('law-read-pure', lines + [read_line(t, what)],
                               'bi_read(store, asof=%s, what=%d) changed the store it was given: %s -> %s' % (
                                   t, what, [a for a, b in zip(before, after) if a != b], [b for a, b in zip(before, after) if a != b]))
                    if (r1.index.name, r1.name) != (r2.index.name, r2.name) and bad is None:
                        bad = ('law-read-pure', lines + [read_line(t, what), read_line(t, what)],
                               'the same bi_read(store, asof=%s, what=%d) twice: index name / name %r, then %r' % (
                                   t, what, (r1.index.name, r1.name), (r2.index.name, r2.name)))
            if bad is not None:
                yield Finding('violation', dict(tag=bad[0], lines=bad[1], atomic=True, ordered=True), bad[2])
            if first_bad is not None:
                yield first_bad
    # values that are not small integers (review t5): the model and the wire hold tokens 1..5; the code is vectorised and should not care
    # what the floats are.  The statement (py_spec) on histories whose tokens stand for non-integer floats, huge / tiny numbers, infinities
    # and the two zeros (0.0 == -0.0: a "repeat" in the sense of ==, either zero may be read - python's == on the dicts agrees)
    PALETTE = [0.1 + 0.2, 0.3, 1e300, -1e300, float('inf'), float('-inf'), 5e-324, 2.0 ** 53, 2.0 ** 53 + 2, 0.5, 0.0, -0.0]
    for nd in (3, 5, 25):
        for _ in range(max(3, m // 3)):
            hist = gen_history(rng, nd, rng.choice([2, 3, 4, 5, 6]), True, nonempty_start=True)
            pal = dict(zip([1, 2, 3, 4, 5], rng.sample(PALETTE, 5)))
            fhist = [(k, [(i, None if v is None else pal[v]) for i, v in pairs]) for k, pairs in hist]
            store, bad = None, None
            for k, pairs in fhist:
                store = bi_merge(store, Bi(pd.Series([np.nan if v is None else v for _, v in pairs], index=pd.DatetimeIndex([date(i) for i, _ in pairs]), dtype=float),
                                           stamp(2 * k)))
            for t in read_times(hist):
                for what, first in ((-1, False), (0, True)):
                    count += 1
                    r = bi_read(store, None if t is None else stamp(t), what)
                    got = {int((pd.Timestamp(x).to_pydatetime() - D0) // DAY): (None if v != v else float(v)) for x, v in zip(r.index, r.values)}
                    want = py_spec(fhist, t, first)
                    if (got != want or len(r) != len(want)) and bad is None:
                        bad = 'bi_read(asof=%s, what=%d) = %s but the publication log gives %s (values %s stand for the tokens of the lines)' % (t, what, got, want, pal)
                        badlines = [merge_line(k, pairs) for k, pairs in hist] + [read_line(t, what)]
            if bad is not None:
                yield Finding('violation', dict(tag='law-read-spec-floats', lines=badlines, atomic=True, ordered=True), bad)
    # k5 - int64 versions beyond 2**53 (open since i5): a history ALL of whose versions are int64 Series (no NaN, no empty version - a pandas
    # Series holding a NaN is float64) keeps an int64 column, "repeat" is exact integer equality (2**53+1 then 2**53 are two publications) and
    # every read returns the published integers exactly.  DECLARED outside: as soon as one version is a float Series (a NaN, an empty version)
    # pd.concat makes the stored column float64 and 2**53+1 is stored as 2.0**53 (pandas' upcast; such an integer is not a value a float
    # series holds) - the history below never contains one.
    IPAL = [2 ** 53 - 1, 2 ** 53, 2 ** 53 + 1, 2 ** 53 + 2, 2 ** 53 + 3, -(2 ** 53 + 1), 2 ** 62 + 1, 7]
    for nd in (3, 5, 25):
        for _ in range(max(3, m // 3)):
            hist = gen_history(rng, nd, rng.choice([2, 3, 4, 5, 6]), True, nonempty_start=True)
            pal = dict(zip([1, 2, 3, 4, 5], rng.sample(IPAL, 5)))
            hist = [(k, [(i, v) for i, v in pairs if v is not None]) for k, pairs in hist]
            hist = [(k, pairs) for k, pairs in hist if pairs]
            if not hist:
                continue
            ihist = [(k, [(i, pal[v]) for i, v in pairs]) for k, pairs in hist]
            store, bad = None, None
            for k, pairs in ihist:
                store = bi_merge(store, Bi(pd.Series([v for _, v in pairs], index=pd.DatetimeIndex([date(i) for i, _ in pairs]), dtype='int64'), stamp(2 * k)))
            for t in read_times(hist):
                for what, first in ((-1, False), (0, True)):
                    count += 1
                    r = bi_read(store, None if t is None else stamp(t), what)
                    got = {int((pd.Timestamp(x).to_pydatetime() - D0) // DAY): int(v) for x, v in zip(r.index, r.values)}
                    want = py_spec(ihist, t, first)
                    if (got != want or len(r) != len(want) or (len(r) and r.dtype != np.int64)) and bad is None:
                        bad = 'int64 versions: bi_read(asof=%s, what=%d) = %s (dtype %s) but the publication log gives %s (values %s stand for the tokens of the lines)' % (t, what, got, r.dtype, want, pal)
                        badlines = [merge_line(k, pairs) for k, pairs in hist] + [read_line(t, what)]
            if bad is not None:
                yield Finding('violation', dict(tag='law-read-spec-int64', lines=badlines, atomic=True, ordered=True), bad)
    # review v5: (a) bi_merge stamping by itself - bi_merge(store, plain series, asof=T), the first one into None - builds the very store that
    # bi_merge(store, Bi(series, T)) builds (every other line of this module stamps with Bi first); (b) a row labelled NaT: NaT is no observation date
    # (outside the quantifier), groupby drops the label in bi_merge and in bi_read - silently.  Decision: declared outside, and what the property says
    # about the DATES is checked in its presence: every read is the fold of the publication log without the NaT rows, no row for NaT is returned.
    for nd in (3, 5, 25):
        for n in range(max(3, m // 3)):
            hist = gen_history(rng, nd, rng.choice([2, 3, 4, 5, 6]), True, nonempty_start=True)
            lines = [merge_line(k, pairs) for k, pairs in hist]
            mk = lambda pairs: pd.Series([np.nan if v is None else float(v) for _, v in pairs], index=pd.DatetimeIndex([date(i) for i, _ in pairs]), dtype=float)
            ref = None
            for k, pairs in hist:
                ref = bi_merge(ref, Bi(mk(pairs), stamp(2 * k)))
            if n % 2 == 0:
                store = None
                for k, pairs in hist:
                    store = bi_merge(store, mk(pairs), asof=stamp(2 * k))
                count += 1
                if _dump(store) != _dump(ref):
                    yield Finding('violation', dict(tag='law-merge-asof', lines=lines + [read_line(None, -1)], atomic=True, ordered=True),
                                  'bi_merge(store, series, asof=stamp) built %s but bi_merge(store, Bi(series, stamp)) built %s' % (_dump(store), _dump(ref)))
                continue
            store, bad, where = None, None, []
            for k, pairs in hist:
                ts, vs = [date(i) for i, _ in pairs], [np.nan if v is None else float(v) for _, v in pairs]
                if rng.random() < 0.6:
                    p = rng.randrange(len(ts) + 1)
                    ts.insert(p, pd.NaT)
                    vs.insert(p, rng.choice([np.nan, 1.0, 2.0, 7.0]))
                    where.append((k, p, vs[p]))
                store = bi_merge(store, Bi(pd.Series(vs, index=pd.DatetimeIndex(ts), dtype=float), stamp(2 * k)))
            for t in read_times(hist):
                for what, first in ((-1, False), (0, True)):
                    count += 1
                    r = bi_read(store, None if t is None else stamp(t), what)
                    got = {(None if x is pd.NaT else int((pd.Timestamp(x).to_pydatetime() - D0) // DAY)): (None if v != v else float(v)) for x, v in zip(r.index, r.values)}
                    want = py_spec(hist, t, first)
                    if (got != want or len(r) != len(want)) and bad is None:
                        bad = ('with rows labelled NaT (stamp number, position, value: %s) added to the versions of the lines, bi_read(asof=%s, what=%d) = %s '
                               'but the publication log of the dates gives %s' % (where, t, what, got, want))
                        badlines = lines + [read_line(t, what)]
            if bad is not None:
                yield Finding('violation', dict(tag='law-nat-label', lines=badlines, atomic=True, ordered=True), bad)
    # frames, column by column (theorem frame_read_last_columns): when per date every version carries a new stamp, what='last'
    # is in every column the fold of that column's publications
    from pyg_base._bitemporal import bi_read
    for nd in (2, 4, 12):
        for w in (2, 3):
            for _ in range(max(2, m // 4)):
                hist = gen_frame_history(rng, nd, rng.choice([2, 3, 4, 5]), w)
                hist = [(j, rows) for j, (_, rows) in enumerate(hist)]            # distinct stamps
                if not hist[0][1]:
                    hist[0] = (0, [(0, [1] * w)])
                store, lines, bad = None, [], None
                for k, rows in hist:
                    lines.append(fmerge_line(k, rows))
                    store = bi_merge(store, Bi(_frame([(date(i), vs) for i, vs in rows], w), stamp(2 * k)))
                for t in read_times(hist):
                    count += 1
                    r = bi_read(store, None if t is None else stamp(t), 'last')
                    got = {int((pd.Timestamp(x).to_pydatetime() - D0) // DAY):
                           [None if (v is None or v != v) else int(v) for v in (r[COLS[c]].values[i] for c in range(w))] for i, x in enumerate(r.index)}
                    want = {}
                    for k, rows in hist:
                        if t is None or 2 * k <= t:
                            for i, vs in rows:
                                cur = want.setdefault(i, [None] * w)
                                want[i] = [vs[c] if vs[c] is not None else cur[c] for c in range(w)]
                    if got != want and bad is None:
                        bad = (lines + [freads_line(t, 'last', w)],
                               "bi_read(frame, asof=%s, what='last') = %s but column by column the publication log gives %s" % (t, got, want))
                if bad is not None:
                    yield Finding('violation', dict(tag='law-frame-last-columns', lines=bad[0], atomic=True, ordered=True), bad[1])
    yield count


MATCHERS = {'first_stamp_shared': _k_first}
