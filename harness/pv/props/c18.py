"""C18 - decorators are transparent: same results, same signature, no double wrapping; getcallargs; cache; try_*; kwargs_support."""
import inspect, itertools, copy, collections
from .. import proto
from ..proto import enc
from ..engine import Finding

ID = 'C18'
TITLE = 'decorators are transparent: same results, same signature, no double wrapping'
LEAN_FILES = ['Basic', 'Bind', 'Cache', 'Wrap', 'WrapHist', 'Try', 'BindDriver', 'Cmp', 'BindLemmas', 'CacheLemmas', 'CacheKeyLemmas', 'WrapLemmas', 'WrapHistLemmas', 'WrapHistSharp', 'Pd2npLemmas', 'ResDec', 'C18', 'WrapLoops', 'WrapLoopsLemmas', 'Lift']
RULE = ('distinct protocol lines (inside the domain of the model) on which the implementation returned a value: a (signature, call) pair bound / called / '
        'round-tripped, a (signature, decorator stack, call) triple, a construction sequence of wrappers, or a cache history '
        '(on a cached function or through a decorator stack) with at least two calls; calls without any argument on a parameterless function are not counted')
TRUSTED = ['correspondence harness (pv.engine, pv.proto) and generators of pv.props.c18',
           'Lean driver parser/printer (PygModel/Basic.lean, BindDriver.lean)',
           'inspect.getcallargs as the oracle of python binding in the laws']
ASSUMPTIONS = ['CPython call protocol = the reference binder bindRef of the model (sampled: every enumerated call is also bound by inspect.getcallargs and by an actual call)',
               'functions are built by exec from the signature; parameter names a,b,c,d, *args, **kw',
               'wrapper equality is compared on class, parameters and wrapped function recursively, ignoring the memo field function_fullargspec',
               'cache keys: arguments are ints/floats/bools/strings/None, lists/tuples/dicts of them, sets of ints and int ndarrays (written as ~set:/~arr: strings on the wire); "the same combination" = python == of (args, kwargs) (1 == 1.0 == True, keyword order irrelevant, [1] != (1,), {"a":1} != (("a",1),)); NaN arguments are not generated (nan != nan: every call is a new combination)',
               'several objects alive at once (stackhist3): a constructor returns a NEW chain and leaves its operand as it is; the dict of a cache layer exists from the layer\'s first call on and is shared with every copy made afterwards (model of the repaired constructor, P7)',
               'the stack model covers loops on arguments that are not a list / tuple / dict of one of ITS looped types (inDomain); `stack` lines outside are declined by the driver (bad-op) and only the verdict is compared; `stackx` lines are answered everywhere by the looping model evalChainL (WrapLoops.lean), which is evalChain inside the domain (theorem evalChainL_in_domain) and a model extension outside (C19 subject: a disagreement there is a divergence)']
EXHAUSTIVE = {'quick': False, 'thorough': False}
EXTRA = {}

NAMES = ['a', 'b', 'c', 'd']
DEFAULTS = [100, 'dflt', None, 2.5]


# ---------------------------------------------------------------- signatures and calls

def all_sigs():
    """0..4 parameters x number of trailing defaults x *args x **kw"""
    for n in range(5):
        for nd in range(n + 1):
            for va in (None, 'args'):
                for vk in (None, 'kw'):
                    yield (NAMES[:n], DEFAULTS[:nd], va, vk)


AXIS_SIGS = [(['a', 'axis'], [0], None, None), (['axis'], [], None, 'kw'), (['a', 'b', 'axis'], ['dflt', 0], 'args', None)]


def axis_calls():
    """calls on functions that have a parameter called `axis` (loops consumes a keyword of that name)"""
    for sig in AXIS_SIGS:
        f_params = sig[0]
        for args, kw in valid_calls(sig):
            kw = {k: (5 if k == 'axis' else v) for k, v in kw.items()}
            yield sig, args, kw


# parameter names that the library itself uses for its own parameters (`getcallargs(function, ...)`, `wrapper.__call__(self, ...)`,
# `wrapped(self, ...)`, `cache_func._key(self, ...)`, the wrapper parameters `cache`, `value`, `types`, `exc`, ...): "any function f"
# includes functions whose parameters carry these names, and a valid call may pass them by keyword
RESERVED = ['self', 'function', 'args', 'kwargs', 'cache', 'value', 'types', 'exc', 'callargs', 'key', 'repeat']


def reserved_sigs():
    for nm in RESERVED:
        yield ([nm, 'b'], [DEFAULTS[0]], None, None)
        yield ([nm], [], None, 'kw')
        yield (['a', nm], [DEFAULTS[1]], 'va', None)


def reserved_calls():
    for sig in reserved_sigs():
        for args, kw in valid_calls(sig):
            yield sig, args, kw


def sig_enc(sig):
    params, defaults, va, vk = sig
    return '(T %s %s %s %s)' % (enc(list(params)), enc(list(defaults)), enc(va), enc(vk))


def sig_dec(sx):
    params = [proto.dec(x) for x in sx[1][1:]]
    defaults = [proto.dec(x) for x in sx[2][1:]]
    return (params, defaults, proto.dec(sx[3]), proto.dec(sx[4]))


_FN = {}


class Counter(object):
    n = 0


def body(d):
    """the body of every generated function: returns its binding; a direct argument that is a string starting with `!`
    makes it raise (checked in binding order)"""
    Counter.n += 1
    for v in d.values():
        if isinstance(v, str) and v.startswith('!'):
            raise {'v': ValueError, 'k': KeyError}.get(v[1:2], TypeError)(v)
    for v in d.values():
        if isinstance(v, str) and v == '~none':
            return None          # a function whose RESULT is None / falsy is still a result (the cache must not take it for a miss)
    return d


def make_fn(sig):
    key = repr(sig)
    if key not in _FN:
        params, defaults, va, vk = sig
        nreq = len(params) - len(defaults)
        ns = {'_body': body}
        parts = []
        for i, p in enumerate(params):
            if i >= nreq:
                ns['_d%d' % i] = defaults[i - nreq]
                parts.append('%s=_d%d' % (p, i))
            else:
                parts.append(p)
        if va:
            parts.append('*' + va)
        if vk:
            parts.append('**' + vk)
        names = list(params) + ([va] if va else []) + ([vk] if vk else [])
        src = 'def f(%s):\n    return _body(dict(%s))\n' % (', '.join(parts), ', '.join('%s=%s' % (n, n) for n in names))
        exec(src, ns)
        _FN[key] = ns['f']
    return _FN[key]


def valid_calls(sig):
    """every way of making a valid call: which defaulted parameters are supplied, how many of the supplied leading
    parameters are passed positionally (the rest by keyword), with / without extra positionals (*args) and extra keywords (**kw)"""
    params, defaults, va, vk = sig
    n = len(params)
    nreq = n - len(defaults)
    opt = list(range(nreq, n))
    for r in range(len(opt) + 1):
        for chosen in itertools.combinations(opt, r):
            supplied = set(range(nreq)) | set(chosen)
            lead = 0
            while lead in supplied:
                lead += 1
            for j in range(lead + 1):
                args = [10 + i for i in range(j)]
                kw = {params[i]: 10 + i for i in sorted(supplied) if i >= j}
                extras_a = [[]] + ([[90, 91]] if va and j == n else [])
                extras_k = [{}] + ([{'x': 70, 'y': 71}] if vk else [])
                if vk and va:
                    extras_k.append({va: 72, 'x': 70})        # an extra keyword NAMED LIKE the *args parameter is an ordinary **kw entry
                if vk:
                    extras_k.append({vk: 73})                 # ... and so is one named like the **kw parameter itself
                for ea in extras_a:
                    for ek in extras_k:
                        yield args + ea, dict(kw, **ek)


def invalid_calls(rng, sig):
    params, defaults, va, vk = sig
    n = len(params)
    nreq = n - len(defaults)
    out = []
    if nreq > 0:
        out.append(('missing', [10 + i for i in range(nreq - 1)], {}))
    if n > 0:
        out.append(('duplicate', [10 + i for i in range(n)], {params[0]: 5}))
        out.append(('duplicate', [10], dict({params[0]: 5}, **{p: 1 for p in params[1:nreq]})))
    if not vk:
        out.append(('unexpected-keyword', [10 + i for i in range(nreq)], {'zz': 9}))
    if not va:
        out.append(('too-many-positional', [10 + i for i in range(n + 1)], {}))
    return out


def call_lines(sig, args, kw, ops=('bindref', 'getcallargs', 'roundtrip', 'apply')):
    s = sig_enc(sig)
    return ['(deco %s %s %s %s)' % (op, s, enc(list(args)), enc(dict(kw))) for op in ops]


# ---------------------------------------------------------------- decorators

CLASSES = ['try_value', 'try_back', 'kwargs_support', 'cache_func', 'loops', 'pd2np']


def deco_params(rng, cls):
    if cls == 'try_value':
        return dict(repeat=rng.choice([0, 0, 1, 2]), sleep=0, return_value=rng.choice([True, True, True, True, False, 0, None, 1, '']),   # `if self.return_value:` - truthiness
                    value=rng.choice([None, 0, 'fallback', -1]), verbose=None)
    if cls == 'loops':
        return dict(types=rng.choice([['list'], ['list', 'tuple'], ['dict', 'list']]))
    if cls == 'pd2np':
        return dict(exc=rng.choice([[], ['zz'], ['b'], ['a'], ['a', 'b']]))       # names of real parameters too: their int arrays are NOT converted
    return {}


_TYPES = {'list': list, 'tuple': tuple, 'dict': dict}


def construct(cls, params, fn):
    from pyg_base._decorators import try_value, try_back, kwargs_support
    from pyg_base._cache import cache_func
    from pyg_base._loop import loops, pd2np
    K = dict(try_value=try_value, try_back=try_back, kwargs_support=kwargs_support, cache_func=cache_func, loops=loops, pd2np=pd2np)[cls]
    p = dict(params)
    if cls == 'loops':
        p['types'] = tuple(_TYPES[t] for t in p['types'])
    return K(fn, **p)


def dump(g):
    """class, parameters and wrapped function recursively, ignoring the memo field"""
    from pyg_base._decorators import wrapper
    out = []
    while isinstance(g, wrapper):
        p = dict(g._kwargs)
        if 'types' in p:
            p['types'] = [t.__name__ for t in p['types']]
        out.append((type(g).__name__, p))
        g = g.function
    return out, g


def decos_enc(ds):
    return '(L' + ''.join(' (T %s %s)' % (enc(c), enc(p)) for c, p in ds) + ')'


def decos_dec(sx):
    return [(proto.dec(d[1]), proto.dec(d[2])) for d in sx[1:]]


def all_stacks(rng, maxlen=3):
    for k in range(1, maxlen + 1):
        for st in itertools.product(CLASSES, repeat=k):
            yield [(c, deco_params(rng, c)) for c in st]


# ---------------------------------------------------------------- generators

def scalar(rng):
    return rng.choice([0, 1, 2, 1.0, 2.5, True, 'x', 'y', None, -3])


def cache_arg(rng, unhashable=False):
    r = rng.random()
    if unhashable and r < 0.5:
        # a set of ints / an int ndarray, written as a marker string (see `unmark`)
        xs = sorted(rng.sample([1, 2, 3], rng.choice([1, 2])))
        if r < 0.1:
            return rng.choice(['~arr:f:ba:97,98', '~arr:f:dq:1,2', '~arr:f:0d:i5', '~arr:f:0d:5', '~arr:f:dq:'])      # bytearray, deque, 0-d arrays: unhashable like an ndarray (K5)
        return ('~set:' if r < 0.25 else '~arr:') + ','.join(map(str, xs))
    if r < 0.12:
        return '~none'           # makes the generated function return None (see `body`)
    if r < 0.2:
        # round k6 (review t5, fidelity 4): ORDERED mappings - two OrderedDicts with the same items in another order are != for python,
        # hence different combinations (`~od:ab:n` / `~od:ba:n`); a dict whose keys cannot be sorted (`~mk:n` = {None: n, 'a': n + 1},
        # built in alternating insertion order by `unmark`) is ONE combination however it was built
        return rng.choice(['~od:ab:1', '~od:ba:1', '~od:ab:1', '~od:ba:1', '~mk:1', '~mk:1', '~mk:2'])
    if r < 0.5:
        # -1 / -2 and 0 / 2**61-1 have the same python hash: distinct combinations whatever the cache keys on (seeded C18-u1: the cache
        # keyed by hash(key))
        return scalar(rng) if rng.random() < 0.75 else rng.choice([-1, -2, -1, -2, 0, 2 ** 61 - 1])
    if r < 0.64:
        return [scalar(rng) for _ in range(rng.choice([0, 1, 2]))]
    if r < 0.72:
        return tuple(scalar(rng) for _ in range(rng.choice([0, 1, 2])))
    if r < 0.8:
        return [[scalar(rng)], (scalar(rng),)][:rng.choice([1, 2])]
    if r < 0.86:
        return tuple(('p', scalar(rng)) for _ in range(rng.choice([0, 1])))      # looks like the pairs of a dict
    return {k: scalar(rng) for k in rng.sample(['p', 'q', 'r'], rng.choice([1, 2]))}


def seq_twin(rng, v):
    """an argument that the pinned `_prehash` mapped to the same key although it is a different value:
    list <-> tuple (at any depth), dict <-> tuple of its sorted pairs"""
    if isinstance(v, list):
        return tuple(v) if rng.random() < 0.7 else [seq_twin(rng, x) for x in v]
    if isinstance(v, tuple):
        if v and all(isinstance(x, tuple) and len(x) == 2 and isinstance(x[0], str) for x in v) and len({x[0] for x in v}) == len(v) and rng.random() < 0.6:
            return dict(v)
        return list(v)
    if isinstance(v, dict):
        return tuple(sorted(v.items(), key=lambda kv: kv[0]))
    if isinstance(v, str) and v.startswith('~od:ab:'):
        return '~od:ba:' + v[7:]           # the same items in the other order: a different OrderedDict
    if isinstance(v, str) and v.startswith('~od:ba:'):
        return '~od:ab:' + v[7:]
    return v


_MK = [0]


class D2(dict):
    """a dict subclass whose constructor is not `one mapping`"""
    def __init__(self, x, extra):
        super(D2, self).__init__(x)
        self.extra = extra


class L1(list):
    """a list subclass whose constructor is not `one iterable`"""
    def __init__(self, n):
        super(L1, self).__init__(range(n))


def mark(v):
    """sets / arrays / container subclasses -> the marker strings of the wire"""
    import numpy as np
    # subclasses of dict / list with a constructor of their own (round j6): `~dd:n` = defaultdict(int, x=n), `~d2:n` = D2({'x': n}, 'e'),
    # `~l1:n` = L1(n) = [0..n-1].  An argument that comes back as ANOTHER class (or without its attributes) is marked differently
    if type(v) is collections.defaultdict:
        return '~dd:%d' % v['x'] if list(v) == ['x'] and v.default_factory is int else '~dd?:%r' % (v,)
    if type(v) is D2:
        return '~d2:%d' % v['x'] if list(v) == ['x'] and getattr(v, 'extra', None) == 'e' else '~d2?:%r' % (v,)
    if type(v) is L1:
        return '~l1:%d' % len(v) if list(v) == list(range(len(v))) else '~l1?:%r' % (v,)
    if type(v) is collections.OrderedDict:
        return '~od:%s:%d' % (''.join(v), v['a']) if sorted(v) == ['a', 'b'] and v['b'] == v['a'] + 1 else '~od?:%r' % (v,)
    if type(v) is dict and len(v) == 2 and None in v and 'a' in v:
        return '~mk:%d' % v[None] if v['a'] == v[None] + 1 else '~mk?:%r' % (v,)
    if isinstance(v, (set, frozenset)):
        return '~set:' + ','.join(str(int(x)) for x in sorted(v))
    # round j6: other arguments the key normalisation leaves unhashable, under the prefix the model reads as "unhashable, not an int array":
    # `~arr:f:ba:97,98` = bytearray(b'ab'), `~arr:f:dq:1,2` = deque([1, 2]); 0-d arrays `~arr:f:0d:i5` = np.array(5), `~arr:f:0d:5` = np.array(5.0) (is_arr wants a dimension: pd2np does not convert them)
    if isinstance(v, bytearray):
        return '~arr:f:ba:' + ','.join(str(x) for x in v)
    if isinstance(v, collections.deque):
        return '~arr:f:dq:' + ','.join(str(int(x)) for x in v)
    if isinstance(v, np.ndarray) and v.ndim == 0:
        return ('~arr:f:0d:' if v.dtype.kind == 'f' else '~arr:f:0d:i') + str(int(v))
    if isinstance(v, np.ndarray):
        # `~arr:1,2` an int array, `~arr:f:1,2` the float array with the same cells (what pd2np's _int2float makes of it)
        return ('~arr:f:' if v.dtype.kind == 'f' else '~arr:') + ','.join(str(int(x)) for x in v)
    if isinstance(v, list):
        return [mark(x) for x in v]
    if isinstance(v, tuple):
        return tuple(mark(x) for x in v)
    if isinstance(v, dict):
        return {k: mark(x) for k, x in v.items()}
    return v


def unmark(v, rng=None):
    import numpy as np
    if isinstance(v, str) and v.startswith('~dd:'):
        return collections.defaultdict(int, x=int(v[4:]))
    if isinstance(v, str) and v.startswith('~d2:'):
        return D2({'x': int(v[4:])}, 'e')
    if isinstance(v, str) and v.startswith('~l1:'):
        return L1(int(v[4:]))
    if isinstance(v, str) and v.startswith('~od:'):
        n = int(v[7:])
        return collections.OrderedDict((k, n + 'ab'.index(k)) for k in v[4:6])
    if isinstance(v, str) and v.startswith('~mk:'):
        n = int(v[4:])
        _MK[0] += 1            # the SAME dict for python, built in the other insertion order every other time
        items = [(None, n), ('a', n + 1)]
        return dict(items if _MK[0] % 2 else items[::-1])
    if isinstance(v, str) and v.startswith('~set:'):
        xs = [int(x) for x in v[5:].split(',') if x]
        return set(reversed(xs))
    if isinstance(v, str) and v.startswith('~arr:f:ba:'):
        return bytearray(int(x) for x in v[10:].split(',') if x)
    if isinstance(v, str) and v.startswith('~arr:f:dq:'):
        return collections.deque(int(x) for x in v[10:].split(',') if x)
    if isinstance(v, str) and v.startswith('~arr:f:0d:i'):
        return np.array(int(v[11:]), dtype=np.int64)
    if isinstance(v, str) and v.startswith('~arr:f:0d:'):
        return np.array(float(v[10:]))
    if isinstance(v, str) and v.startswith('~arr:f:'):
        return np.array([float(x) for x in v[7:].split(',') if x], dtype=float)
    if isinstance(v, str) and v.startswith('~arr:'):
        return np.array([int(x) for x in v[5:].split(',') if x], dtype=np.int64)
    if isinstance(v, list):
        return [unmark(x) for x in v]
    if isinstance(v, tuple):
        return tuple(unmark(x) for x in v)
    if isinstance(v, dict):
        return {k: unmark(x) for k, x in v.items()}
    return v


def has_arr(v):
    if isinstance(v, str):
        return v.startswith('~arr:')
    if isinstance(v, (list, tuple)):
        return any(has_arr(x) for x in v)
    if isinstance(v, dict):
        return any(has_arr(x) for x in v.values())
    return False


def gen_cache(rng, raising=False, unhashable=False):
    sig = rng.choice([(['a'], [], None, None), (['a', 'b'], [DEFAULTS[0]], None, None), (['a', 'b'], [DEFAULTS[0]], 'args', 'kw'),
                      (['a'], [DEFAULTS[0]], None, 'kw'), ([], [], 'args', 'kw'), (['a', 'b', 'c'], [DEFAULTS[0], DEFAULTS[1]], None, None)])
    params, defaults, va, vk = sig
    pool = []
    for _ in range(rng.choice([1, 2, 3])):
        calls = list(valid_calls(sig))
        a, k = rng.choice(calls)
        vals = {}
        a = [vals.setdefault(('p', i), cache_arg(rng, unhashable)) for i in range(len(a))]
        k = {n: cache_arg(rng, unhashable) for n in k}
        if raising and rng.random() < 0.4 and a:
            a[0] = '!v'
        pool.append((a, k))
    hist = []
    for _ in range(rng.choice([1, 2, 4, 6, 9, 12])):
        a, k = rng.choice(pool)
        r = rng.random()
        if r < 0.25:
            # an == twin: 1 / 1.0 / True, same keywords in another order
            a = [float(x) if isinstance(x, int) and not isinstance(x, bool) and rng.random() < 0.5 else x for x in a]
            items = list(k.items())
            rng.shuffle(items)
            k = dict(items)
        elif r < 0.45:
            # a DIFFERENT combination that the pinned key normalisation merged: list <-> tuple, dict <-> tuple of pairs
            a = [seq_twin(rng, x) for x in a]
            k = {n: seq_twin(rng, x) for n, x in k.items()}
        elif r < 0.6 and a and a[-1:] and params and len(a) <= len(params) and params[len(a) - 1] not in k:
            # the same arguments, the last positional one passed by keyword: a different combination "as passed"
            k = dict(k, **{params[len(a) - 1]: a[-1]})
            a = a[:-1]
        hist.append((list(a), dict(k)))
    line = '(deco cache %s %s)' % (sig_enc(sig), '(L' + ''.join(' (T %s %s)' % (enc(a), enc(k)) for a, k in hist) + ')')
    return dict(tag='cache history len=%d%s%s' % (len(hist), ' raising' if raising else '', ' set/ndarray arguments' if unhashable else ''), lines=[line])


def gen_stackhist(rng, subclasses=False):
    """a history of calls through a decorator stack that (mostly) contains a cache layer: replies and the number of executions
    of f after every call.  == twins, positional-vs-keyword variants (loops above the cache merges them), raising and invalid
    calls (try_value with repeat re-runs the layers below; the cache re-evaluates a raising function), undeclared keywords,
    int / float ndarray arguments (pd2np converts, the cache does not store)"""
    sig = rng.choice([(['a'], [], None, None), (['a', 'b'], [DEFAULTS[0]], None, None), (['a', 'b'], [DEFAULTS[0]], 'args', 'kw'),
                      (['a'], [DEFAULTS[0]], None, 'kw'), (['a', 'b', 'c'], [DEFAULTS[0], DEFAULTS[1]], None, None),
                      (['a', 'axis'], [0], None, None)])
    params, defaults, va, vk = sig
    others = [c for c in CLASSES if c != 'cache_func' and not (subclasses and c == 'loops')]        # loops on a list / dict SUBCLASS loops over it: C19
    classes = rng.sample(others, rng.choice([0, 1, 1, 2, 2, 3]))
    if subclasses and 'pd2np' not in classes and rng.random() < 0.6:
        classes.append('pd2np')
    with_cache = rng.random() < (0.4 if subclasses else 0.9)
    if with_cache:
        classes.append('cache_func')
    if rng.random() < 0.15 and classes:
        classes.append(rng.choice(classes))        # the same class again: the constructor cuts the earlier one out
    rng.shuffle(classes)
    if not classes:
        classes = ['cache_func']
    ds = [(c, deco_params(rng, c)) for c in classes]
    arrays = 'loops' not in classes and rng.random() < 0.3          # loops on an ndarray argument is C19
    calls = [(a, k) for a, k in valid_calls(sig) if a or k]
    pool = []
    for _ in range(rng.choice([1, 2, 3])):
        a, k = rng.choice(calls)
        val = lambda: (rng.choice(['~arr:1,2', '~arr:f:1,2', '~arr:3', '~arr:f:ba:97,98', '~arr:f:dq:1,2', '~arr:f:0d:i5', '~arr:f:0d:5']) if arrays and rng.random() < 0.4 else rng.choice([0, 1, 2, 2.5, True, 'x', None, -3]))
        if subclasses:
            # round j6: arguments that are dict / list SUBCLASSES whose constructor is not "one mapping / one iterable" (defaultdict, D2, L1),
            # bare, inside a list / tuple / dict, positional or by keyword: an argument is only passed through, the call is valid for f
            # (contents differ from one class to the other: defaultdict(int, x=1) == D2({'x': 1}, 'e') for python, ONE combination for the cache)
            sub = lambda: rng.choice(['~dd:1', '~dd:2', '~d2:3', '~l1:3'])
            plain = val
            val = lambda: (rng.choice([sub(), sub(), [sub(), 7], (sub(),), {'p': sub()}]) if rng.random() < 0.6 else plain())
        pool.append(([val() for _ in a], {n: val() for n in k}))
    hist = []
    kinds = set()
    for _ in range(rng.choice([2, 3, 5, 8])):
        a, k = rng.choice(pool)
        a, k = list(a), dict(k)
        r = rng.random()
        if r < 0.2:
            a = [float(x) if isinstance(x, int) and not isinstance(x, bool) and rng.random() < 0.6 else x for x in a]
            kinds.add('twin')
        elif r < 0.4 and a and params and len(a) <= len(params) and params[len(a) - 1] not in k:
            k = dict(k, **{params[len(a) - 1]: a[-1]})
            a = a[:-1]
            kinds.add('by-keyword')
        elif r < 0.5 and (a or k):
            if a:
                a[rng.randrange(len(a))] = rng.choice(['!v', '!k', '!t'])
            else:
                k[rng.choice(sorted(k))] = '!v'
            kinds.add('raising')
        elif r < 0.56:
            k = dict(k, zz=1)
            kinds.add('undeclared-kw')
        elif r < 0.6 and a:
            a = a[:-1] if len(a) <= len(params) - len(defaults) else a
            kinds.add('maybe-invalid')
        hist.append((a, k))
    line = '(deco stackhist %s %s %s)' % (sig_enc(sig), decos_enc(ds), '(L' + ''.join(' (T %s %s)' % (enc(a), enc(k)) for a, k in hist) + ')')
    return dict(tag='stack history %s len=%d%s%s%s' % ('with cache' if with_cache else 'without cache', len(hist),
                                                      ' ndarray arguments' if arrays else '', ' raising' if 'raising' in kinds else '',
                                                      ' dict/list-subclass arguments%s' % (' pd2np' if 'pd2np' in classes else '') if subclasses else ''), lines=[line])


def gen_steps(rng):
    """constructor applications BETWEEN the calls of a history: the cache dict is a wrapper parameter, so a re-wrapped cached
    function (cache(cache(f)), cache(try_none(g1)), another decorator put on top) keeps what it has stored.  Only the newest
    object is called; calls are valid and non-raising (scalars), with == twins"""
    sig = rng.choice([(['a'], [], None, None), (['a', 'b'], [DEFAULTS[0]], None, None), (['a', 'b'], [DEFAULTS[0]], 'args', 'kw')])
    calls = [(a, k) for a, k in valid_calls(sig) if (a or k) and all(n in sig[0] for n in k)]
    pool = []
    for _ in range(rng.choice([1, 2, 3])):
        a, k = rng.choice(calls)
        pool.append(([rng.choice([0, 1, 2, 2.5, True, 'x', None]) for _ in a], {n: rng.choice([0, 1, 'x']) for n in k}))
    steps = [('wrap', 'cache_func', {})] if rng.random() < 0.7 else []
    for _ in range(rng.choice([3, 5, 8])):
        if rng.random() < 0.4:
            c = rng.choice(['cache_func', 'cache_func', 'try_value', 'try_back', 'kwargs_support', 'pd2np'])
            steps.append(('wrap', c, deco_params(rng, c)))
        else:
            a, k = rng.choice(pool)
            if rng.random() < 0.2:
                a = [float(x) if isinstance(x, int) and not isinstance(x, bool) else x for x in a]
            steps.append(('call', list(a), dict(k)))
    line = '(deco stackhist2 %s %s)' % (sig_enc(sig), '(L' + ''.join(' (T %s %s %s)' % (enc(x[0]), enc(x[1]), enc(x[2])) for x in steps) + ')')
    return dict(tag='stack history with constructor applications between the calls', lines=[line])


def gen_multi(rng, law=False):
    """several decorated functions alive at once (`stackhist3`): every object ever built stays callable, constructors are applied
    to ANY earlier object and OLDER objects are called again after later constructions - a constructor must not change what its
    operand (or an object inside it) answers (P7: the pinned constructor cut same-class wrappers out of its operand's inner
    objects in place).  Object 0 is the plain function.  Calls: valid scalars, == twins, raising calls.
    `law=True`: the shape law 7 needs - build x, call it, build further objects on top (never called), call x again"""
    sig = rng.choice([(['a'], [], None, None), (['a', 'b'], [DEFAULTS[0]], None, None), (['a', 'b'], [DEFAULTS[0]], 'args', 'kw')])
    calls = [(a, k) for a, k in valid_calls(sig) if a and all(n in sig[0] for n in k)]
    pool = []
    for _ in range(rng.choice([1, 2, 3])):
        a, k = rng.choice(calls)
        pool.append(([rng.choice([0, 1, 2, 2.5, True, 'x', None]) for _ in a], {n: rng.choice([0, 1, 'x']) for n in k}))
    a, k = rng.choice(pool)
    pool.append((['!' + rng.choice('vkt')] + list(a[1:]), dict(k)))            # f raises on this one

    def wrap(src):
        c = rng.choice(CLASSES)
        return ('wrap', c, deco_params(rng, c), src)
    steps = []
    nobj = 1
    for _ in range(rng.choice([2, 3, 3])):          # the first object: two or three layers (the defect needs depth >= 2)
        steps.append(wrap(nobj - 1))
        nobj += 1
    if law:
        x = nobj - 1
        probe = [rng.choice(pool[:-1]), pool[-1], rng.choice(pool[:-1])]
        first = [('call', list(a), dict(k), x) for a, k in probe]
        steps += first
        for _ in range(rng.choice([1, 2, 3])):
            steps.append(wrap(rng.randrange(x, nobj)))
            nobj += 1
        steps += first
        return sig, steps, x
    for _ in range(rng.choice([4, 7, 10])):
        if rng.random() < 0.35:
            steps.append(wrap(rng.choice([nobj - 1, nobj - 1, rng.randrange(nobj)])))
            nobj += 1
        else:
            a, k = rng.choice(pool)
            if rng.random() < 0.2:
                a = [float(x) if isinstance(x, int) and not isinstance(x, bool) else x for x in a]
            steps.append(('call', list(a), dict(k), rng.choice([nobj - 1, rng.randrange(1, nobj), rng.randrange(nobj)])))
    return dict(tag='several decorated functions alive at once: older objects called again after later constructions', lines=[multi_line(sig, steps)])


def multi_line(sig, steps):
    return '(deco stackhist3 %s %s)' % (sig_enc(sig), '(L' + ''.join(' (T %s %s %s %s)' % tuple(enc(y) for y in x) for x in steps) + ')')


def generate(rng, tier):
    q = tier == 'quick'
    sigs = list(all_sigs())
    allcalls = []
    for sig in sigs:
        for args, kw in valid_calls(sig):
            allcalls.append((sig, args, kw))
            params, defaults, va, vk = sig
            yield dict(tag='valid call nparams=%d ndefaults=%d%s%s' % (len(params), len(defaults), ' *args' if va else '', ' **kw' if vk else ''),
                       lines=call_lines(sig, args, kw))
        for kind, args, kw in invalid_calls(rng, sig):
            yield dict(tag='invalid call ' + kind, lines=call_lines(sig, args, kw, ops=('bindref', 'getcallargs', 'apply')))
    for sig, args, kw in axis_calls():
        for c in CLASSES:
            ds = [(c, deco_params(rng, c))] + ([(c2, deco_params(rng, c2)) for c2 in rng.sample(CLASSES, 1)] if rng.random() < 0.5 else [])
            yield dict(tag='stack len=%d parameter-called-axis' % len(ds),
                       lines=['(deco stack %s %s %s %s)' % (sig_enc(sig), decos_enc(ds), enc(list(args)), enc(dict(kw)))])
    nres = 0
    for sig, args, kw in reserved_calls():
        nres += 1
        yield dict(tag='valid call parameter named like a library parameter (%s)' % [p for p in sig[0] if p in RESERVED][0], lines=call_lines(sig, args, kw))
        for c in CLASSES:
            ds = [(c, deco_params(rng, c))] + ([(c2, deco_params(rng, c2)) for c2 in rng.sample(CLASSES, 1)] if rng.random() < 0.3 else [])
            yield dict(tag='stack len=%d parameter named like a library parameter' % len(ds),
                       lines=['(deco stack %s %s %s %s)' % (sig_enc(sig), decos_enc(ds), enc(list(args)), enc(dict(kw)))])
    EXTRA['enumerated_valid_calls'] = len(allcalls)
    EXTRA['valid_calls_with_reserved_parameter_names'] = nres
    EXTRA['signatures'] = len(sigs)
    # every stack of <= 3 decorators on a few calls each (valid, raising, invalid)
    per_stack = 3 if q else 30
    for ds in all_stacks(rng):
        for j in range(per_stack):
            sig, args, kw = rng.choice(allcalls)
            args, kw = list(args), dict(kw)
            kind = 'valid'
            r = rng.random()
            if r < 0.3 and (args or kw):
                # the function raises: an argument it looks at is a `!` string
                if args and rng.random() < 0.6:
                    args[rng.randrange(len(args))] = rng.choice(['!v', '!k', '!t'])
                elif kw:
                    kw[rng.choice(sorted(kw))] = rng.choice(['!v', '!k'])
                kind = 'raising'
            elif r < 0.42:
                inv = invalid_calls(rng, sig)
                if inv:
                    _, args, kw = rng.choice(inv)
                    kind = 'invalid'
            elif r < 0.55 and not sig[3]:
                kw = dict(kw, zz=1, yy=2)     # undeclared keywords: kwargs_support must drop exactly these
                kind = 'undeclared-kw'
            yield dict(tag='stack len=%d %s' % (len(ds), kind),
                       lines=['(deco stack %s %s %s %s)' % (sig_enc(sig), decos_enc(ds), enc(args), enc(kw))])
    # every enumerated call through one random stack
    for sig, args, kw in (allcalls if not q else rng.sample(allcalls, 400)):
        ds = [(c, deco_params(rng, c)) for c in [rng.choice(CLASSES) for _ in range(rng.choice([1, 2, 3]))]]
        yield dict(tag='stack len=%d valid (enumerated call)' % len(ds),
                   lines=['(deco stack %s %s %s %s)' % (sig_enc(sig), decos_enc(ds), enc(list(args)), enc(dict(kw)))])
    # loops with a list / tuple / dict as the argument it dispatches on (review t5).  Of a type the wrapper does NOT loop over: a
    # "non-container input" for this wrapper, the stack must be transparent (model == code).  Of a looped type: one call per element,
    # C19's subject and outside this property's quantifier - the model driver declines (`bad-op`, `inDomain` in Wrap.lean) and
    # `compare` checks that it declines on exactly these lines (`outside_loops_domain`, written independently)
    conts = [[1, 2], (1, 2), {'p': 1}, [], (), [[1], [2]], ([1], 2), {'p': [1, 2], 'q': 3}]
    withfirst = [(sg, a, k) for sg, a, k in allcalls if a or (sg[0] and sg[0][0] in k)]
    for _ in range(200 if q else 3000):
        sig, args, kw = rng.choice(withfirst)
        args, kw = list(args), dict(kw)
        v = rng.choice(conts)
        if args:
            args[0] = v
        else:
            kw[sig[0][0]] = v
        cl = ['loops'] + rng.sample([c for c in CLASSES if c != 'loops'], rng.choice([0, 1, 2]))
        rng.shuffle(cl)
        ds = [(c, deco_params(rng, c)) for c in cl]
        line = '(deco stack %s %s %s %s)' % (sig_enc(sig), decos_enc(ds), enc(args), enc(kw))
        yield dict(tag='stack len=%d loops with a %s first argument of a %s type' % (len(ds), type(v).__name__, 'looped' if outside_loops_domain(line) else 'non-looped'),
                   lines=[line])
    # round k6: `stackx` lines - the model whose loops layers LOOP (PygModel/WrapLoops.lean, evalChainL) answers every line: a list /
    # tuple / dict first argument of a looped type (one call of the layers below per element, at every depth, companions selected
    # by position / key as in C19, raising leaves, empty containers) and of a non-looped type (forwarded whole); inside the domain
    # evalChainL = evalChain is a theorem (evalChainL_in_domain), outside it the lines are a MODEL EXTENSION (C19's subject)
    xconts = conts + [[1, '!v', 3], {'p': [1, 2], 'q': (3, '!k')}, [[1, 2], [3, 4]], [(1, 2), {'p': 5}], {'q': 1, 'p': 2}, [[]], ([], ())]
    xtypes = [['list'], ['tuple'], ['dict'], ['list', 'tuple'], ['dict', 'list'], ['list', 'tuple', 'dict']]
    for _ in range(300 if q else 6000):
        sig, args, kw = rng.choice(withfirst)
        args, kw = list(args), dict(kw)
        v = rng.choice(xconts)
        if args:
            args[0] = v
        else:
            kw[sig[0][0]] = v
        # companions: another argument becomes a container as long as v (matched element by element), of another length
        # (searched / broadcast) or stays a scalar
        if isinstance(v, (list, tuple)) and rng.random() < 0.5:
            comp = rng.choice([[10 * (j + 1) for j in range(len(v))], tuple('c%d' % j for j in range(len(v))), [7, 8, 9, 10, 11], {'p': 1}])
            if len(args) > 1 and rng.random() < 0.5:
                args[-1] = comp
            else:
                ks = [k for k in kw if not (sig[0] and k == sig[0][0])]
                if ks:
                    kw[rng.choice(sorted(ks))] = comp
        if isinstance(v, dict) and rng.random() < 0.5:
            comp = rng.choice([{k: 'c' + k for k in reversed(list(v))}, {'zz': 1}, [1, 2]])
            if len(args) > 1:
                args[-1] = comp
        cl = ['loops'] + rng.sample([c for c in CLASSES if c != 'loops'], rng.choice([0, 0, 1, 2]))
        rng.shuffle(cl)
        ds = [(c, dict(types=rng.choice(xtypes)) if c == 'loops' else deco_params(rng, c)) for c in cl]
        line = '(deco stackx %s %s %s %s)' % (sig_enc(sig), decos_enc(ds), enc(args), enc(kw))
        yield dict(tag='stackx len=%d loops on a %s of a %s type' % (len(ds), type(v).__name__, 'looped' if outside_loops_domain(line) else 'non-looped'),
                   lines=[line])
    yield dict(tag='presets try_nan .. try_list', lines=['(deco presets)'])
    # construction: every sequence of <= 4 constructor applications (the same class may re-occur at any distance)
    seqs = list(itertools.product(CLASSES, repeat=4))
    for k in (1, 2, 3):
        for st in itertools.product(CLASSES, repeat=k):
            yield dict(tag='construct len=%d' % k, lines=['(deco mk %s)' % decos_enc([(c, deco_params(rng, c)) for c in st])])
    for st in (rng.sample(seqs, 300) if q else seqs):
        yield dict(tag='construct len=4', lines=['(deco mk %s)' % decos_enc([(c, deco_params(rng, c)) for c in st])])
    for _ in range(100 if q else 2000):
        st = [rng.choice(CLASSES[:3]) for _ in range(rng.choice([5, 6]))]
        yield dict(tag='construct len=5-6', lines=['(deco mk %s)' % decos_enc([(c, deco_params(rng, c)) for c in st])])
    for _ in range(400 if q else 15000):
        yield gen_cache(rng)
    for _ in range(100 if q else 4000):
        yield gen_cache(rng, raising=True)
    for _ in range(150 if q else 4000):
        yield gen_cache(rng, raising=rng.random() < 0.2, unhashable=True)
    for _ in range(600 if q else 12000):
        yield gen_stackhist(rng)
    for _ in range(150 if q else 3000):
        yield gen_stackhist(rng, subclasses=True)
    for _ in range(300 if q else 6000):
        yield gen_steps(rng)
    for _ in range(400 if q else 8000):
        yield gen_multi(rng)


# ---------------------------------------------------------------- implementation runner

def spec_fields(spec):
    return (list(spec.args), spec.varargs, spec.varkw, tuple(spec.defaults) if spec.defaults else None,
            list(spec.kwonlyargs or []), spec.kwonlydefaults or None)


def res_val(fn):
    try:
        return fn()
    except Exception as e:
        return ('!raised', proto.err_reply(e)[4:])


def run_line(state, sx):
    import pyg_base
    op, a = sx[1], sx[2:]
    if op == 'presets':
        # the preset try_* wrappers of the package: each must be a try_value TEMPLATE (no function yet) that catches on the first
        # attempt (repeat = 0) and returns its value; the model lists (name, value) - `tryPresets` of PygModel/Try.lean
        from pyg_base._decorators import try_value
        out = []
        for nm in ('try_nan', 'try_zero', 'try_none', 'try_true', 'try_false', 'try_list'):
            w = getattr(pyg_base, nm)
            if w is try_value:          # try_none IS the class (its default value is None): the template it makes
                w = try_value()
            if type(w) is not try_value or w.repeat != 0 or not w.return_value or w.function is not None:
                raise AssertionError('%s is not a plain try_value template' % nm)
            out.append((nm, w.value))
        return 'ok ' + enc(out)
    if op == 'mk':
        g = make_fn((['a', 'b'], [1], None, None))
        base = g
        made = []
        base_spec = spec_fields(inspect.getfullargspec(base))
        for j, (cls, params) in enumerate(decos_dec(a[0])):
            g = construct(cls, params, g)
            made.append((g, enc([(c, p) for c, p in dump(g)[0]])))
            # the memo field: request the specification of some of the objects built so far (outer or inner), so that later
            # constructors work on objects whose memo is already filled
            if (j + len(cls)) % 2 == 0:
                probe = made[(j * 7 + len(cls)) % len(made)][0]
                if spec_fields(pyg_base.getargspec(probe)) != base_spec:
                    raise AssertionError('argument specification not forwarded (intermediate object)')
        if spec_fields(pyg_base.getargspec(g)) != base_spec:
            raise AssertionError('argument specification not forwarded after re-wrapping')
        for o, _ in made:
            if spec_fields(pyg_base.getargspec(o)) != base_spec:
                raise AssertionError('argument specification of an earlier object changed')
        chain, b = dump(g)
        assert b is base
        # the observation the property names: `W(W(f)) == W(f)` with python's own ==, on objects whose specification has been requested
        # (round j6: the dump below ignores the memo field `function_fullargspec`, wrapper.__eq__ compared it)
        if made:
            again = construct(cls, params, g)
            if not (again == g and g == again) or again != g or g != again:
                raise AssertionError('W(W(f)) == W(f) is False for python ==')
            fresh = base
            for c2, p2 in decos_dec(a[0]):
                fresh = construct(c2, p2, fresh)
            if not (fresh == g and g == fresh) or fresh != g:
                raise AssertionError('the same applications on the same function give a wrapper that is not == (python ==)')
        # observation outside the property statement: did a constructor edit an earlier object in place?
        EXTRA['constructions'] = EXTRA.get('constructions', 0) + 1
        if any(enc([(c, p) for c, p in dump(o)[0]]) != d for o, d in made):
            EXTRA['constructions_that_edited_an_operand_in_place'] = EXTRA.get('constructions_that_edited_an_operand_in_place', 0) + 1
        return 'ok ' + enc([(c, p) for c, p in chain])
    sig = sig_dec(a[0])
    f = make_fn(sig)
    if op == 'cache':
        from pyg_base._cache import cache_func
        c = cache_func(f)
        Counter.n = 0
        out = []
        first_none = {}
        for call in a[1][1:]:
            wa, wk = proto.dec(call[1]), proto.dec(call[2])
            args, kw = unmark(wa), unmark(wk)
            r = mark(res_val(lambda: c(*args, **kw)))
            if r is None:        # the function returned None (marker `~none`): report the binding of the FIRST call with this key, as the model does; the evaluation count is what matters
                b = dict(inspect.getcallargs(f, *wa, **wk))
                r = b if has_arr((wa, wk)) else first_none.setdefault(ref_key(wa, wk), b)
            out.append((r, Counter.n))
        return 'ok ' + enc(out)
    if op == 'stackhist':
        g = f
        for cls, params in decos_dec(a[1]):
            g = construct(cls, params, g)
        Counter.n = 0
        out = []
        for call in a[2][1:]:
            wa, wk = proto.dec(call[1]), proto.dec(call[2])
            args, kw = unmark(wa), unmark(wk)
            r = mark(res_val(lambda: g(*args, **kw)))
            out.append((r, Counter.n))
        return 'ok ' + enc(out)
    if op == 'stackhist2':
        g = f
        Counter.n = 0
        out = []
        for step in a[1][1:]:
            kind = proto.dec(step[1])
            if kind == 'wrap':
                g = construct(proto.dec(step[2]), proto.dec(step[3]), g)
            else:
                args, kw = proto.dec(step[2]), proto.dec(step[3])
                r = res_val(lambda: g(*args, **kw))
                out.append((r, Counter.n))
        return 'ok ' + enc(out)
    if op == 'stackhist3':
        objs = [f]
        Counter.n = 0
        out = []
        for step in a[1][1:]:
            kind = proto.dec(step[1])
            if kind == 'wrap':
                objs.append(construct(proto.dec(step[2]), proto.dec(step[3]), objs[proto.dec(step[4])]))
            else:
                args, kw, g = proto.dec(step[2]), proto.dec(step[3]), objs[proto.dec(step[4])]
                r = res_val(lambda: g(*args, **kw))
                out.append((r, Counter.n))
        return 'ok ' + enc(out)
    if op in ('stack', 'stackx'):
        g = f
        for cls, params in decos_dec(a[1]):
            g = construct(cls, params, g)
        if spec_fields(pyg_base.getargspec(g)) != spec_fields(inspect.getfullargspec(f)):
            raise AssertionError('argument specification not forwarded')
        args, kw = proto.dec(a[2]), proto.dec(a[3])
        return 'ok ' + enc(g(*args, **kw))
    args, kw = proto.dec(a[1]), proto.dec(a[2])
    if op == 'bindref':
        return 'ok ' + enc(inspect.getcallargs(f, *args, **kw))
    if op == 'getcallargs':
        return 'ok ' + enc(pyg_base.getcallargs(f, *args, **kw))
    if op == 'roundtrip':
        return 'ok ' + enc(pyg_base.call_with_callargs(f, pyg_base.getcallargs(f, *args, **kw)))
    if op == 'apply':
        return 'ok ' + enc(f(*args, **kw))
    return 'bad-op'


def line_is_k1(line):
    """kwargs_support in the stack, the function has **kwargs and the call passes a keyword that is not a parameter name"""
    sx = proto.parse(line)
    if sx[1] != 'stack':
        return False
    params, defaults, va, vk = sig_dec(sx[2])
    if not vk or not any(c == 'kwargs_support' for c, _ in decos_dec(sx[3])):
        return False
    return any(k not in params for k in proto.dec(sx[5]))


def outside_loops_domain(line):
    """a `stack` line whose loops wrapper (the constructor keeps ONE per stack, with the parameters of the outermost application)
    dispatches on a list / tuple / dict of one of its `types`: the wrapper loops over it - outside "loops on non-container input".
    No other layer changes the kind of the first argument (kwargs_support keeps declared keywords, pd2np rebuilds containers)"""
    sx = proto.parse(line)
    if sx[1] not in ('stack', 'stackx'):
        return False
    params = sig_dec(sx[2])[0]
    types = None
    for c, p in decos_dec(sx[3]):
        if c == 'loops':
            types = p['types']
    if types is None:
        return False
    args, kw = proto.dec(sx[4]), proto.dec(sx[5])
    if args:
        v = args[0]
    elif params and params[0] in kw:
        v = kw[params[0]]
    else:
        return False
    return type(v).__name__ in types if isinstance(v, (list, tuple, dict)) else False


def compare(case, i, line, ir, mr):
    if line.startswith('(deco stack ') and (mr == 'bad-op' or outside_loops_domain(line)):
        # the DOMAIN of the stack model ("loops on non-container input"): the driver must decline exactly the lines on which a loops
        # wrapper receives a container of a looped type; what the code does there is property C19
        if (mr == 'bad-op') == outside_loops_domain(line):
            return None
        return 'domain of the model: the driver %s a line on which loops %s a container of a looped type' % (
            'declines' if mr == 'bad-op' else 'answers', 'receives' if outside_loops_domain(line) else 'does not receive')
    if proto.same_reply(ir, mr, numeric=False):
        return None
    tag = case.get('tag', '')
    op = proto.parse(line)[1]
    if op == 'stackx' and outside_loops_domain(line):
        # loops on a container of a looped type is property C19's subject, outside "loops on non-container input": the looping
        # stack model is an extension there
        return ('divergence', 'loops on a container of a looped type (model extension evalChainL): implementation %s, model %s' % (ir, mr))
    if 'invalid' in tag and op in ('getcallargs', 'roundtrip'):
        return ('divergence', 'invalid call (the property is about valid calls): implementation %s, model %s' % (ir, mr))
    if op == 'bindref':
        return 'inspect.getcallargs gives %s, the reference binder of the model %s (model assumption wrong)' % (ir, mr)
    if op == 'stackhist' and ir.startswith('ok ') and mr.startswith('ok '):
        # the property pins the number of executions for a NON-RAISING f only: when all replies agree and the execution counts
        # part only from the first raising / invalid call onwards (how often try_value / the cache's except path re-run a failing
        # function), the model and the code differ in something the statement does not fix
        try:
            iv, mv = proto.dec(proto.parse(ir[3:])), proto.dec(proto.parse(mr[3:]))
            calls = proto.parse(line)[4][1:]
            if len(iv) == len(mv) == len(calls) and all(enc(x[0]) == enc(y[0]) for x, y in zip(iv, mv)):
                j = next(k for k, (x, y) in enumerate(zip(iv, mv)) if x[1] != y[1])

                def failing(k):
                    a, kw = proto.dec(calls[k][1]), proto.dec(calls[k][2])
                    f = make_fn(sig_dec(proto.parse(line)[2]))
                    return isinstance(res_val(lambda: f(*unmark(a), **unmark(kw))), tuple)
                if failing(j):       # the counts part ON a raising / invalid call (a difference that first shows on a non-raising call is a violation, whatever came before)
                    return ('divergence', 'executions of a raising function differ (not pinned by the property): implementation %s, model %s' % (ir, mr))
        except Exception:
            pass
    return 'implementation %s, model %s' % (ir, mr)


def nontrivial(line, reply):
    if not reply.startswith('ok'):
        return False
    sx = proto.parse(line)
    if outside_loops_domain(line):
        return False
    if sx[1] == 'mk':
        return len(sx[2]) > 2
    if sx[1] == 'cache':
        return len(sx[3]) > 2
    if sx[1] == 'stackhist':
        return len(sx[4]) > 2
    if sx[1] in ('stackhist2', 'stackhist3'):
        return len(sx[3]) > 2
    return len(sx[-2]) > 1 or len(sx[-1]) > 1


# ---------------------------------------------------------------- laws on the implementation alone

def first_arg(sig, a, k):
    """the first argument of a call: positional, else the keyword named like the first parameter, else its default"""
    params, defaults = sig[0], sig[1]
    if a:
        return a[0]
    if params and params[0] in k:
        return k[params[0]]
    if params and len(defaults) == len(params):
        return defaults[0]
    return None


def same_wrapper(x, y):
    cx, bx = dump(x)
    cy, by = dump(y)
    return bx is by and enc([(c, p) for c, p in cx]) == enc([(c, p) for c, p in cy])


def ref_key(args, kw):
    """the combination of arguments as passed, up to python ==: container types are kept ([1] != (1,), a dict is not the tuple
    of its pairs), dicts are mappings, 1 == 1.0 == True; written independently of the library's `_prehash`"""
    def h(v):
        if isinstance(v, list):
            return ('list',) + tuple(h(x) for x in v)
        if isinstance(v, tuple):
            return ('tuple',) + tuple(h(x) for x in v)
        if isinstance(v, dict):
            return ('dict', frozenset((k, h(x)) for k, x in v.items()))
        return ('cell', v)
    return (h(list(args)), h(dict(kw)))


def ref_stack(ds, f, sig, args, kw):
    """what the DOCUMENTED behaviour of a stack gives on a call with scalar arguments, written independently of the library:
    the constructor keeps the outermost occurrence of a class; try_* catch, cache / pd2np pass scalars through, and the two
    registered deviations: kwargs_support drops every keyword that is not a parameter name (K1 when f has **kw), loops with a
    first argument pops a keyword called `axis` (K4).  Returns (result or ('!raised', kind), set of deviations that changed the call)"""
    params = sig[0]
    layers = []
    for c, p in ds:                       # ds[0] is the innermost
        layers = [(c2, p2) for c2, p2 in layers if c2 != c]
        layers.append((c, p))
    used = set()

    def ev(ls, a, k):
        if not ls:
            return res_val(lambda: f(*a, **k))
        (c, p), rest = ls[-1], ls[:-1]
        if c == 'kwargs_support':
            k2 = {n: v for n, v in k.items() if n in params}
            if len(k2) != len(k) and sig[3]:
                used.add('K1')
            return ev(rest, a, k2)
        if c == 'loops':
            if a or (params and params[0] in k):
                k2 = dict(k)
                a2 = list(a) if a else [k2.pop(params[0])]
                if 'axis' in k2:
                    k2.pop('axis')
                    used.add('K4')
                return ev(rest, a2, k2)
            return ev(rest, a, k)
        r = ev(rest, a, k)
        raised = isinstance(r, tuple) and len(r) == 2 and r[0] == '!raised'
        if c == 'try_value' and raised and p.get('return_value', True):
            return copy.copy(p.get('value'))
        if c == 'try_back' and raised:
            return first_arg(sig, a, k)
        return r
    return ev(layers, list(args), dict(kw)), used


def _rebuild(sig, steps, x):
    """object number x of a `stackhist3` step list, built afresh (nothing else is built: its chain as the constructor made it)"""
    objs = [make_fn(sig)]
    for st in steps:
        if st[0] == 'wrap':
            objs.append(construct(st[1], st[2], objs[st[3]]))
            if len(objs) == x + 1:
                break
    return objs[x]


def laws(rng, tier, ctx):
    import pyg_base
    from pyg_base import getcallargs, call_with_callargs, getargspec
    from pyg_base._cache import cache_func
    count = 0
    sigs = list(all_sigs())
    allcalls = [(sig, a, k) for sig in sigs for a, k in valid_calls(sig)]
    # (1) getcallargs == inspect.getcallargs and call_with_callargs round trip, on every enumerated valid call
    rescalls = list(reserved_calls())
    for sig, args, kw in allcalls + rescalls:
        f = make_fn(sig)
        count += 2
        exp = inspect.getcallargs(f, *args, **kw)
        got = res_val(lambda: getcallargs(f, *args, **kw))
        if got != exp:
            yield Finding('violation', dict(tag='law-getcallargs', lines=call_lines(sig, args, kw, ('getcallargs',))),
                          'getcallargs gives %r, inspect.getcallargs %r' % (got, exp))
            continue
        # ... also of a DECORATED f ("replicates inspect.getcallargs with support to functions within decorators")
        wcls = rng.choice(CLASSES)
        g = construct(wcls, deco_params(rng, wcls), f)
        count += 1
        gotw = res_val(lambda: getcallargs(g, *args, **kw))
        if gotw != exp:
            yield Finding('violation', dict(tag='law-getcallargs-decorated', lines=call_lines(sig, args, kw, ('getcallargs',)), values=[wcls]),
                          'getcallargs(%s(f), ...) gives %r, inspect.getcallargs(f, ...) %r' % (wcls, gotw, exp))
        direct = f(*args, **kw)
        rt = res_val(lambda: call_with_callargs(f, getcallargs(f, *args, **kw)))
        if rt != direct:
            yield Finding('violation', dict(tag='law-roundtrip', lines=call_lines(sig, args, kw, ('roundtrip',))),
                          'call_with_callargs(f, getcallargs(f, ...)) gives %r, f(...) gives %r' % (rt, direct))
        # ... and again with ONE binding used twice (the caller does nothing to it in between; seeded C18-u3: the *args / **kwargs
        # entries popped out of the caller's dict, so that the second use raised KeyError)
        b = getcallargs(f, *args, **kw)
        rt2 = [res_val(lambda: call_with_callargs(f, b)) for _ in range(2)]
        count += 1
        if rt2 != [direct, direct]:
            yield Finding('violation', dict(tag='law-roundtrip-binding-reused', lines=call_lines(sig, args, kw, ('roundtrip',))),
                          'b = getcallargs(f, ...); call_with_callargs(f, b) twice gives %r, f(...) gives %r' % (rt2, direct))
    # (2) transparency of every single decorator and of random stacks on every enumerated valid call; spec forwarded
    stacks = [[(c, deco_params(rng, c))] for c in CLASSES]
    for sig, args, kw in allcalls + list(axis_calls()) + rescalls:
        f = make_fn(sig)
        direct = f(*args, **kw)
        for ds in stacks + [[(c, deco_params(rng, c)) for c in rng.sample(CLASSES, rng.choice([2, 3]))]]:
            count += 1
            g = f
            for cls, params in ds:
                g = construct(cls, params, g)
            line = '(deco stack %s %s %s %s)' % (sig_enc(sig), decos_enc(ds), enc(list(args)), enc(dict(kw)))
            if spec_fields(getargspec(g)) != spec_fields(inspect.getfullargspec(f)):
                yield Finding('violation', dict(tag='law-spec', lines=[line]), 'getargspec(W(f)) differs from the specification of f')
            got = res_val(lambda: g(*copy.deepcopy(args), **copy.deepcopy(kw)))
            if got != direct:
                # a known finding is recognised only when the reply IS what the documented deviation predicts (K1: f without the
                # undeclared keywords, K4: f without the keyword `axis`); any other wrong reply on such a line stays a plain violation
                pred, used = ref_stack(ds, f, sig, args, kw)
                tag = 'law-transparent'
                if used and got == pred:
                    tag = 'law-transparent known:' + '+'.join(sorted(used))
                yield Finding('violation', dict(tag=tag, lines=[line]),
                              'decorated call gives %r, f gives %r' % (got, direct))
    # (2b) arguments that are not scalars: int / float ndarrays (also inside a list), namedtuples, lists, dicts - through every single
    # decorator and random stacks.  pd2np turns int arrays into float arrays before calling f (documented: "will also convert int
    # numpy arrays into floaters") - known finding K6, recognised precisely: the result is f's result on the converted arguments
    import numpy as np, pandas as pd
    P2 = collections.namedtuple('P2', ['x', 'y'])

    def show(v):
        if isinstance(v, np.ndarray):
            return 'array(%s, %s)' % (v.tolist(), v.dtype)
        if isinstance(v, (pd.Series, pd.DataFrame)):
            return '%s(%s, %s, index=%s)' % (type(v).__name__, v.values.tolist(), list(map(str, np.atleast_1d(v.dtypes))), list(v.index))
        if isinstance(v, dict):
            extra = ('default_factory=%r ' % v.default_factory if isinstance(v, collections.defaultdict) else '') + ('extra=%r ' % getattr(v, 'extra', None) if isinstance(v, D2) else '')
            return '%s{%s%s}' % ('' if type(v) is dict else type(v).__name__, extra, ', '.join('%r: %s' % (k, show(x)) for k, x in v.items()))
        if isinstance(v, (list, tuple)):
            return '%s(%s)' % (type(v).__name__, ', '.join(show(x) for x in v))
        return repr(v)

    def i2f(v):
        """what the docstring of pd2np / K6 covers: int16 / int32 / int64 arrays - and Series, and the int columns of a DataFrame (`_int2float`
        treats them alike, round j6) - become float, at any depth of list / tuple / dict; int8 / uint arrays stay as they are.  A container
        none of whose members changes is the argument ITSELF; otherwise a copy of it with the changed members (class and attributes kept)"""
        ints = (np.dtype(np.int16), np.dtype(np.int32), np.dtype(np.int64))
        if isinstance(v, (np.ndarray, pd.Series)) and v.ndim > 0 and v.dtype in ints:
            return v.astype(float)
        if isinstance(v, pd.DataFrame):
            cols = {c: float for c, t in dict(v.dtypes).items() if t in ints}
            return v.astype(cols) if cols else v
        if isinstance(v, dict):
            r = {k: i2f(x) for k, x in v.items()}
            if all(r[k] is v[k] for k in v):
                return v
            c = copy.copy(v)
            c.update(r)
            return c
        if isinstance(v, (list, tuple)):
            r = [i2f(x) for x in v]
            if all(x is y for x, y in zip(r, v)):
                return v
            return type(v)(*r) if hasattr(v, '_fields') else type(v)(r)
        return v
    specials = [lambda: np.array([1, 2]), lambda: np.array([1.5, 2.5]), lambda: [np.array([1, 2]), 3], lambda: P2(1, 2), lambda: P2(np.array([3]), 'x'),
                lambda: {'k': np.array([1, 2])}, lambda: [1, [2, 3]], lambda: {'p': 1}, lambda: np.array([1, 2], dtype=np.int8), lambda: np.array([1, 2], dtype=np.uint16),
                lambda: np.array([1, 2], dtype=np.int32),
                # round j6: dict / list subclasses whose constructor is not "one mapping / one iterable"
                lambda: collections.defaultdict(int, x=1), lambda: collections.Counter('aab'), lambda: D2({'x': 1}, 'e'), lambda: L1(3),
                lambda: [collections.defaultdict(int, x=1), 2], lambda: {'k': L1(2)}, lambda: (D2({'x': 1}, 'e'),), lambda: collections.OrderedDict(b=1, a=2),
                # round j6: pandas objects as NON-first arguments of pd2np (int Series / int columns are converted like int arrays: K6)
                lambda: pd.Series([1, 2]), lambda: pd.Series([1.5, 2.5]), lambda: pd.DataFrame({'a': [1, 2], 'b': [1.5, 2.5]}), lambda: [pd.Series([1, 2], dtype=np.int32), 3],
                lambda: collections.defaultdict(int, x=np.array([1, 2])),
                lambda: bytearray(b'ab'), lambda: collections.deque([1, 2]), lambda: np.array(5), lambda: [np.array(5), collections.deque([np.array([1, 2])])]]
    for sig, args, kw in rng.sample(allcalls, 150 if tier == 'quick' else len(allcalls)):
        if not args and not kw:
            continue
        f = make_fn(sig)
        for ds in stacks + [[(c, deco_params(rng, c)) for c in rng.sample(CLASSES, rng.choice([2, 3]))]]:
            if any(c in ('loops', 'try_back') for c, _ in ds):
                continue          # loops on a container argument is C19; try_back returns the argument itself
            if sig[3] and any(c == 'kwargs_support' for c, _ in ds) and any(n not in sig[0] for n in kw):
                continue          # K1 (reported by law (2) with a replayable line)
            mk = rng.choice(specials)
            pos = rng.randrange(len(args) + len(kw))

            def build():
                a, k = list(args), dict(kw)
                if pos < len(a):
                    a[pos] = mk()
                else:
                    k[sorted(k)[pos - len(a)]] = mk()
                return a, k
            count += 1
            g = f
            for cls, params in ds:
                g = construct(cls, params, g)
            a, k = build()
            if any(c == 'pd2np' for c, _ in ds) and isinstance(first_arg(sig, a, k), (pd.Series, pd.DataFrame)):
                count -= 1
                continue          # pd2np on PANDAS input (the first argument decides): outside "pd2np on non-pandas input"
            direct = show(res_val(lambda: f(*a, **k)))
            a, k = build()
            got = show(res_val(lambda: g(*a, **k)))
            if got != direct:
                a, k = build()
                # K6 exactly: the int arrays among the positional arguments and among the keywords NOT named in `exc` of the stack's
                # pd2np (the constructor keeps one, with the parameters of the outermost application) are converted, nothing else
                exc = ([p.get('exc') for c, p in ds if c == 'pd2np'] or [[]])[-1]
                conv = show(res_val(lambda: f(*i2f(a), **{n: (x if n in exc else i2f(x)) for n, x in k.items()})))
                k6 = any(c == 'pd2np' for c, _ in ds) and got == conv
                yield Finding('violation', dict(tag='law-pd2np-int-array' if k6 else 'law-transparent-containers', lines=[],
                                                values=[sig_enc(sig), decos_enc(ds), show(a), show(k)]),
                              'decorated call %s(*%s, **%s) gives %s, f gives %s' % ([c for c, _ in ds], show(a), show(k), got, direct))
    # (2c) a stack that CONTAINS cache, called several times (the stack lines make one call per constructed stack): every reply is what
    # f returns on that call, and f runs once per distinct call
    for _ in range(300 if tier == 'quick' else 5000):
        sig, args, kw = rng.choice(allcalls)
        sig2, args2, kw2 = sig, [x + 100 for x in args], {n: x + 100 for n, x in kw.items()}
        if not args and not kw:
            continue
        others = [c for c in rng.sample(['try_value', 'kwargs_support', 'pd2np', 'try_back'], rng.choice([0, 1, 2]))]
        ds = [(c, deco_params(rng, c)) for c in others + ['cache_func']]
        rng.shuffle(ds)
        if sig[3] and any(c == 'kwargs_support' for c, _ in ds) and any(n not in sig[0] for n in kw):
            continue              # K1
        f = make_fn(sig)
        g = f
        for cls, params in ds:
            g = construct(cls, params, g)
        count += 1
        Counter.n = 0
        hist = [(args, kw), (args2, kw2), (args, kw), (args2, kw2), (args, kw)]
        outs = [res_val(lambda: g(*copy.deepcopy(a), **copy.deepcopy(k))) for a, k in hist]
        evals = Counter.n
        exps = [f(*a, **k) for a, k in hist]
        if outs != exps or evals != 2:
            yield Finding('violation', dict(tag='law-cache-in-stack', lines=['(deco stack %s %s %s %s)' % (sig_enc(sig), decos_enc(ds), enc(list(args)), enc(dict(kw)))]),
                          'stack with cache called 5 times on 2 distinct calls: replies %r, f gives %r, f evaluated %d times' % (outs, exps, evals))
    # (3) wrapping twice = wrapping once, directly and through a chain of other decorators
    base = make_fn((['a', 'b'], [1], None, None))
    for c in CLASSES:
        for others in [[]] + [list(o) for k in (1, 2) for o in itertools.permutations([x for x in CLASSES if x != c], k)]:
            count += 1
            p = deco_params(rng, c)
            po = [(o, deco_params(rng, o)) for o in others]
            once = construct(c, p, base)
            inner = once
            plain = base
            for o, pp in po:
                inner = construct(o, pp, inner)
                plain = construct(o, pp, plain)
            twice = construct(c, p, inner)
            expect = construct(c, p, plain)
            if not same_wrapper(twice, expect):
                yield Finding('violation', dict(tag='law-wrap-once', lines=['(deco mk %s)' % decos_enc([(c, p)] + po + [(c, p)])]),
                              'W(chain(W(f))) = %r but W(chain(f)) = %r' % (dump(twice)[0], dump(expect)[0]))
            # the same with DIFFERENT parameters for the two applications: the outer one wins entirely (W_p(chain(W_q f)) == W_p(chain f))
            count += 1
            p2 = deco_params(rng, c)
            inner2 = construct(c, p, base)
            plain2 = base
            for o, pp in po:
                inner2 = construct(o, pp, inner2)
                plain2 = construct(o, pp, plain2)
            twice2 = construct(c, p2, inner2)
            expect2 = construct(c, p2, plain2)
            if not same_wrapper(twice2, expect2):
                yield Finding('violation', dict(tag='law-wrap-once', lines=['(deco mk %s)' % decos_enc([(c, p)] + po + [(c, p2)])]),
                              'W_p(chain(W_q(f))) = %r but W_p(chain(f)) = %r' % (dump(twice2)[0], dump(expect2)[0]))
    # (4) try_* return the fallback exactly when f raises; try_back returns the first argument
    from pyg_base._decorators import try_value, try_back
    for sig, args, kw in allcalls:
        if not args and not kw:
            continue
        f = make_fn(sig)
        for bad in (False, True):
            a, k = list(args), dict(kw)
            if bad:
                if a:
                    a[-1] = '!v'
                else:
                    k[sorted(k)[0]] = '!k'
            count += 2
            raised = isinstance(res_val(lambda: f(*a, **k)), tuple)
            got = try_value(f, value='FB')(*a, **k)
            exp = 'FB' if raised else f(*a, **k)
            line = '(deco stack %s %s %s %s)' % (sig_enc(sig), decos_enc([('try_value', dict(repeat=0, sleep=0, return_value=True, value='FB', verbose=None))]), enc(a), enc(k))
            if got != exp:
                yield Finding('violation', dict(tag='law-try', lines=[line]), 'try_value gives %r, expected %r (f raises: %s)' % (got, exp, raised))
            got = res_val(lambda: try_back(f)(*a, **k))
            first = first_arg(sig, a, k)
            exp = first if raised else f(*a, **k)
            if got != exp:
                yield Finding('violation', dict(tag='law-try-back', lines=['(deco stack %s %s %s %s)' % (sig_enc(sig), decos_enc([('try_back', {})]), enc(a), enc(k))]),
                              'try_back gives %r, expected %r' % (got, exp))
    # (4b) "exactly when f raises" and exceptions that are NOT `Exception`s (KeyboardInterrupt, SystemExit, GeneratorExit, a
    # user BaseException): the handlers are `except Exception`, so the wrapper raises what f raises instead of returning the
    # fallback - the text is false of the code there (known finding K8: the wrapper must then raise THE exception object f
    # raised, after exactly repeat+1 attempts ... nothing else is accepted by the matcher)
    from pyg_base import try_none, try_zero, try_list
    from pyg_base._decorators import kwargs_support

    class _Base(BaseException):
        pass
    raised_objs = []

    def _mk_base(exc_cls):
        def fb(a, b=2):
            Counter.n += 1
            e = exc_cls('stop')
            raised_objs.append(e)
            raise e
        return fb
    for exc_cls in (_Base, KeyboardInterrupt, SystemExit, GeneratorExit):
        for nm, build, attempts_ in (('try_value(repeat=0)', lambda f: try_value(f, value='FB'), 1),
                                     ('try_value(repeat=2)', lambda f: try_value(f, repeat=2, value='FB'), 1),
                                     ('try_none', try_none, 1), ('try_zero', try_zero, 1), ('try_list', try_list, 1),
                                     ('try_back', try_back, 1),
                                     ('try_none(kwargs_support(f))', lambda f: try_none(kwargs_support(f)), 1)):
            count += 1
            fb = _mk_base(exc_cls)
            w = build(fb)
            Counter.n = 0
            del raised_objs[:]
            try:
                got = ('returned', w(1))
            except BaseException as e:        # noqa: the point of the law
                got = ('raised', e)
            n = Counter.n
            if got[0] == 'returned' and n >= 1:
                continue        # a fallback (or the first argument) was returned: what the text says
            same = got[0] == 'raised' and raised_objs and got[1] is raised_objs[-1] and n == attempts_
            yield Finding('violation', dict(tag='law-try-base-exception known:K8' if same else 'law-try-base-exception', lines=[],
                                            values=[nm, exc_cls.__name__, got[0], n]),
                          '%s(f)(1) where f raises %s: the text says the fallback is returned, the wrapper %s after %d execution(s) of f'
                          % (nm, exc_cls.__name__, 'raises that exception' if got[0] == 'raised' else 'returns %r' % (got[1],), n))
    # (5) kwargs_support on a function without **kwargs ignores exactly the undeclared keywords
    from pyg_base._decorators import kwargs_support
    for sig, args, kw in allcalls:
        if sig[3]:
            continue
        f = make_fn(sig)
        count += 1
        got = res_val(lambda: kwargs_support(f)(*args, **dict(kw, zz=1, other=2)))
        if got != f(*args, **kw):
            yield Finding('violation', dict(tag='law-kwargs-support', lines=['(deco stack %s %s %s %s)' % (sig_enc(sig), decos_enc([('kwargs_support', {})]), enc(list(args)), enc(dict(kw, zz=1, other=2)))]),
                          'kwargs_support gives %r, f without the undeclared keywords gives %r' % (got, f(*args, **kw)))
    # (5b) try_value: the fallback is returned on EVERY failing call, also after a caller has mutated what an earlier failing call
    # returned (a multi-step history: fail, mutate the result, fail again), and across wrappers built from the same template
    import copy as _copy
    from pyg_base import try_value, try_list

    def _boom(a=0):
        raise ValueError(a)
    for proto_v in ([], {}, [1, 2], {'k': [1]}):
        for build in (lambda v: try_value(_boom, value=v), lambda v: try_value(value=v)(_boom)):
            count += 1
            orig = _copy.deepcopy(proto_v)
            w = build(proto_v)
            r1 = w(1)
            if isinstance(r1, list):
                r1.append('polluted')
            elif isinstance(r1, dict):
                r1['polluted'] = 1
            r2 = w(2)
            if r2 != orig:
                yield Finding('violation', dict(tag='law-try-value-fallback', lines=[], values=[repr(orig), repr(r2)]),
                              'try_value(value=%r): after the caller mutated the result of one failing call the next failing call returns %r' % (orig, r2))
    count += 1
    a, b = try_list(_boom), try_list(lambda: [][1])
    a(1).append('polluted')
    if b() != [] or a(2) != []:
        yield Finding('violation', dict(tag='law-try-value-fallback', lines=[]), 'try_list wrappers share one mutable fallback object: %r / %r' % (a(2), b()))
    # (6) cache: one evaluation per distinct combination as passed, first result thereafter
    for j in range(400 if tier == 'quick' else 7000):
        case = gen_cache(rng, unhashable=j % 4 == 3)
        sx = proto.parse(case['lines'][0])
        sig = sig_dec(sx[2])
        f = make_fn(sig)
        c = cache_func(f)
        Counter.n = 0
        seen = {}
        failing = []
        k5_only = True
        for call in sx[3][1:]:
            wa, wk = proto.dec(call[1]), proto.dec(call[2])
            args, kw = unmark(wa), unmark(wk)
            key = ref_key(wa, wk)            # marker strings: a set / an array is the same argument iff it is spelt the same
            before = Counter.n
            got = mark(c(*args, **kw))
            after = Counter.n
            count += 1
            fresh = after == before + 1 and got == mark(f(*args, **kw))          # evaluated once more, the reply is f's
            Counter.n = after
            if key in seen:
                good = after == before and got == seen[key]
            else:
                good = fresh
                seen[key] = got
            if not good:
                failing.append((wa, wk))
                k5_only = k5_only and has_arr((wa, wk)) and fresh
        if failing:
            # K5: the only calls that fail are repeated calls with an ndarray argument that were evaluated once more and answered
            # with what f returns (by design); a wrong reply or another number of evaluations on such a call is NOT K5
            k5 = k5_only
            yield Finding('violation', dict(case, tag='law-cache-ndarray' if k5 else 'law-cache'),
                          'cached function does not evaluate once per distinct combination / return the first result: %s' % enc(list(failing[0])))
    # (6b) the PUBLIC entry point `pyg_base.cache` (the property names `cache`; everything above uses `cache_func`): every
    # signature whose parameters are named like the library's own, and a sample of the plain ones, must be cached like
    # `cache_func` does - `cache` refuses a function whose FIRST parameter is called self / cls ("cannot cache method"):
    # known finding K9, recognised only by that very ValueError at decoration time
    pubsigs = list(reserved_sigs()) + [(['cls', 'b'], [DEFAULTS[0]], None, None), (['cls'], [], None, 'kw'), (['a', 'cls'], [DEFAULTS[1]], 'va', None)]
    pubsigs += [sigs[i] for i in range(0, len(sigs), 7)]
    for sig in pubsigs:
        f = make_fn(sig)
        count += 1
        try:
            c = pyg_base.cache(f)
        except Exception as e:
            k9 = bool(sig[0]) and sig[0][0] in ('self', 'cls') and isinstance(e, ValueError) and str(e) == 'cannot cache method'
            yield Finding('violation', dict(tag='law-cache-public known:K9' if k9 else 'law-cache-public', lines=[], values=[repr(sig), repr(e)]),
                          'pyg_base.cache(f) for f%r raises %r at decoration time: not "any function f"' % (sig[0], e))
            continue
        calls = list(valid_calls(sig))[:6]
        bad = None
        n = 0
        for rnd in (0, 1):
            for args, kw in calls:
                exp = f(*args, **kw)
                Counter.n = 0
                got = res_val(lambda: c(*args, **kw))
                n += Counter.n
                if got != exp:
                    bad = 'cache(f)(*%r, **%r) = %r, f gives %r' % (args, kw, got, exp)
        nkeys = len({ref_key(list(a), dict(k)) for a, k in calls})
        if bad is None and n != nkeys:
            bad = '%d executions of f for %d distinct combinations called twice' % (n, nkeys)
        if bad:
            yield Finding('violation', dict(tag='law-cache-public', lines=[], values=[repr(sig)]), 'pyg_base.cache: ' + bad)
    # (7) a constructor does not change what an EXISTING decorated function answers: x is built and called (a valid call, a
    # raising call, the valid call again), further objects are built on top of x (or of each other) and never called, then x
    # gets the same three calls again: the same replies, and a non-raising call executes f once - or not at all when x holds a
    # cache layer (it was evaluated in the first round)
    for _ in range(300 if tier == 'quick' else 5000):
        sig, steps, x = gen_multi(rng, law=True)
        line = multi_line(sig, steps)
        count += 1
        reply = run_line(None, proto.parse(line))
        out = proto.dec(proto.parse(reply[3:]))
        classes = [c for c, _ in dump(_rebuild(sig, steps, x))[0]]
        (r1, n1), (r2, n2), (r3, n3), (s1, m1), (s2, m2), (s3, m3) = out
        cached = 'cache_func' in classes
        bad = None
        if enc([r1, r2, r3]) != enc([s1, s2, s3]):
            bad = 'replies before the later constructions %r, after %r' % ([r1, r2, r3], [s1, s2, s3])
        elif not (isinstance(s1, tuple) and s1[:1] == ('!raised',)) and (m1 - n3, m3 - m2) != ((0, 0) if cached else (1, 1)):
            bad = 'executions of f on the two non-raising calls after the later constructions: %r (x %s a cache layer)' % ((m1 - n3, m3 - m2), 'has' if cached else 'has not')
        if bad:
            yield Finding('violation', dict(tag='law-operand-kept', lines=[line]),
                          'object %d (%s) answers differently after objects were built on top of it: %s' % (x, '('.join(classes), bad))
    yield count


def line_is_k4(line):
    """loops in the stack, the call passes a keyword called `axis` together with a first argument"""
    sx = proto.parse(line)
    if sx[1] != 'stack':
        return False
    params = sig_dec(sx[2])[0]
    if not any(c == 'loops' for c, _ in decos_dec(sx[3])):
        return False
    args, kw = proto.dec(sx[4]), proto.dec(sx[5])
    return 'axis' in kw and (len(args) > 0 or (params and params[0] in kw))


def _known_tag(f, kid):
    """law (2) tags a finding `law-transparent known:K1+K4` only when the decorated call returned exactly what the documented
    deviation predicts (`ref_stack`); the shape of the line is checked as well"""
    tag = f.case.get('tag') or ''
    return f.kind == 'violation' and tag.startswith('law-transparent known:') and kid in tag[len('law-transparent known:'):].split('+')


def _k4(f):
    lines = f.case.get('lines') or []
    return bool(lines) and _known_tag(f, 'K4') and line_is_k4(lines[-1])


def _k1(f):
    lines = f.case.get('lines') or []
    return bool(lines) and _known_tag(f, 'K1') and line_is_k1(lines[-1])


def _k6(f):
    return f.case.get('tag') == 'law-pd2np-int-array'


def _k5(f):
    return f.case.get('tag') == 'law-cache-ndarray'


def _k8(f):
    """law 4b: the wrapped function raised a BaseException that is not an Exception and the try_* wrapper raised THAT object
    after one execution (nothing else - a wrong value, another exception, more executions - is K8)"""
    return f.kind == 'violation' and f.case.get('tag') == 'law-try-base-exception known:K8' and not f.case.get('lines')


def _k9(f):
    """law 6b: pyg_base.cache refused a function whose first parameter is called self / cls with its own ValueError"""
    return f.kind == 'violation' and f.case.get('tag') == 'law-cache-public known:K9' and not f.case.get('lines')


MATCHERS = {'kwargs_support_drops_undeclared_keyword_of_varkw_function': _k1,
            'loops_consumes_keyword_called_axis': _k4,
            'cache_reevaluates_ndarray_argument': _k5,
            'pd2np_converts_int_array_to_float': _k6,
            'try_wrappers_do_not_catch_base_exceptions': _k8,
            'public_cache_refuses_first_parameter_self_or_cls': _k9}


def shrink(case, still_fails):
    """cases are enumerated and already minimal; the generic s-expression shrinker would cut into signatures"""
    return case
