"""C14 - eq is a NaN-aware, type-strict equivalence on values, containers and pandas.

Everything is generated at wire level (strings of the extended value spelling, see lean/PygModel/EqDriver.lean) and
decoded into *fresh* python objects for every call, so "a structural copy holding different NaN objects" is simply the
same wire string decoded twice.

  cell     as pv.proto (NI:/NF:/NB: numpy scalars, F:nan a fresh float('nan'), NF:nan the shared np.nan)
  PT:<us>  pd.Timestamp        DT:<us>  datetime.date        HF:<q>|HF:nan  np.float32 (value q/4)
  M8<unit>:<us>  np.datetime64[unit] (unit D|h|s|ms|us|ns) of that instant       NaT:M np.datetime64('NaT')  NaT:m np.timedelta64('NaT')  NaT:P pd.NaT
  TD:<us>  datetime.timedelta  PD:<us>  pd.Timedelta         m8<unit>:<us>  np.timedelta64[unit] of that duration (unit W|D|h|m|s|ms|us|ns)
  M8ps:<n> / M8fs:<n> / M8as:<n>  np.datetime64 of n pico / femto / attoseconds since 1970 (review v5: the COUNT; pandas would truncate it to ns, Timestamp == says so)
  m8Y:<n> / m8M:<n> (CM:<n> = m8M:<n>)  np.timedelta64 of n YEARS / MONTHS (review t5: pandas holds no such duration, numpy == says it is the int n)
  (L ..) (T ..) (D (k v)..)    (DC <n> (k v)..)   n=1 pyg_base.Dict, n=2 pyg_base.dictattr, n=3 collections.OrderedDict
  (A <dtype i|f|e|b|U|o|Mns|Mus|Ms|MD|Mps|Mfs|mns|mus|mD|mY|mM> (<shape>) cells..)   e = float32, M.. = datetime64[..] (cells T:<us> / NaT:P), m.. = timedelta64[..]
  (cells TD:<us> / NaT:P)        (S (labels) cells..)   (DF (index) (columns) cells row-major..)

ops: (eq eq x y), (eq in x seq), (eq pyeq x y) native == on plain values, (eq eqr x y) the model answers with the raising reading eqR,
(eq eqpinned x y) the model answers with eqPinned and the implementation is eq of _eq.py as it was before fix F6c (see pinned_eq).
"""
import collections, datetime, itertools
import numpy as np
import pandas as pd
from .. import proto
from ..engine import Finding

ID = 'C14'
TITLE = 'eq is a NaN-aware, type-strict equivalence on values, containers and pandas'
LEAN_FILES = ['Basic', 'Sort', 'Eq', 'EqR', 'EqDriver', 'EqLemmas', 'EqDictLemmas', 'EqSame', 'EqRLemmas', 'ResDec', 'C14']
RULE = ('distinct (x, y) protocol lines with x and y spelled differently on which eq returned a boolean '
        '(pairs of identical atoms are not counted)')
TRUSTED = ['correspondence harness (pv.engine, pv.proto) and the generators / decoder of pv.props.c14',
           'Lean driver parser (PygModel/Basic.lean, EqDriver.lean)']
ASSUMPTIONS = ['python == of two collections.OrderedDicts is order-sensitive, eq is not (an OrderedDict is dict class 3: never eq to a plain dict, items compared key-sorted; theorem eq_ordered_dict_ignores_order): the clause "agrees with == on plain values" is read for the exact class dict and the == law is not applied to class 3',
               'CPython == on None/bool/int/float/str/datetime/date and on lists/tuples/dicts of them is the reference function Cell.pyEq / pyEqV (sampled by the pyeq op)',
               'numpy scalars, pd.Timestamp and pd.Timedelta are == to the python values the wire format identifies them with; np.datetime64 (units D..ns) / np.timedelta64 (units W..ns) are the Timestamp / Timedelta of their instant / duration (that is the repair C14-F6, not an assumption about numpy: numpy own == casts units); an np.timedelta64 in years / months is no Timedelta: it equals only year / month durations of as many months (repair C14-F9; numpy: 12 months to the year, no common unit with days); an np.datetime64 in ps / fs / as is no Timestamp (pandas would truncate it): it equals only the ps / fs / as datetime64 of the same instant (repair C14-F10; numpy == between two of them is exact); pd.NaT is one object',
               'np.vectorize(eq) visits every cell of two equally shaped arrays; list(pd.Index) yields the labels as the python / pandas scalars the wire format spells (a NaN among datetime labels is NaT, which the model treats as the NaN label it is spelled as)',
               'object identity (the `x is y` shortcut) is not modelled: every call decodes fresh objects; the shared np.nan object is generated (NF:nan)',
               'numbers are spelled exactly (ints of any size, floats that are multiples of 1/4 - 2**53 and its neighbours included); np.float32 scalars and arrays hold such values exactly',
               'dict keys are distinct strings; pandas extension arrays and their pd.NA, timedelta64 units finer than ns (ps, fs, as: after C14-F9 such a duration equals only timedelta64s numpy calls equal, never a number - probed, not generated; datetime64 in ps / fs / as IS generated since C14-F10, but not as an axis label), out-of-bounds datetime64 / timedelta64, tz-aware timestamps, complex / Decimal NaN, None labels and Series names are outside the universe',
               'np.longdouble / np.clongdouble (imaginary part 0) are the exact numbers they hold (true of the code since C14-F11); only real multiples of 1/4 are spelled (LF: / LC:), a longdouble that is neither whole nor a float64 is probed, not generated; 2**64 as the first integer gap assumes the x86 80-bit type']

D = datetime.datetime
BIG = 2 ** 53
HUGE = 2 ** 64         # where np.longdouble (x86: 64-bit mantissa) stops holding every integer
LD, CLD = np.longdouble, np.clongdouble
d64, t64, TD = np.datetime64, np.timedelta64, datetime.timedelta
NS2020 = 1577836800000000000        # 2020-01-01 in ns since 1970: what an M8[ns] cell is as an int
DAY_NS = 86400 * 10 ** 9


# ---------------------------------------------------------------- wire construction

class W(str):
    """an already encoded value"""


def w(x):
    if isinstance(x, W):
        return x
    if x is pd.NaT:
        return W('NaT:P')
    if isinstance(x, np.datetime64) and not np.isnat(x) and np.datetime_data(x.dtype)[0] in FINE:
        return W('M8%s:%d' % (np.datetime_data(x.dtype)[0], x.astype(np.int64)))      # finer than a microsecond: the COUNT in its own unit
    if isinstance(x, np.datetime64):
        return W('NaT:M' if np.isnat(x) else 'M8%s:%d' % (np.datetime_data(x.dtype)[0], proto.dt2us(x.astype('M8[us]').item())))
    if isinstance(x, np.timedelta64) and not np.isnat(x) and np.datetime_data(x.dtype)[0] in FINE:
        return W('m8%s:%d' % (np.datetime_data(x.dtype)[0], x.astype(np.int64)))      # finer than a microsecond: the COUNT in its own unit (k5)
    if isinstance(x, np.timedelta64) and not np.isnat(x) and np.datetime_data(x.dtype)[0] in ('Y', 'M'):
        return W('m8%s:%d' % (np.datetime_data(x.dtype)[0], x.astype(int)))      # a calendar duration: the COUNT of years / months (there are no microseconds in a month)
    if isinstance(x, np.timedelta64):
        return W('NaT:m' if np.isnat(x) else 'm8%s:%d' % (np.datetime_data(x.dtype)[0], x.astype('m8[us]').item() // proto.US))
    if isinstance(x, pd.Timedelta):
        return W('PD:%d' % (x.to_pytimedelta() // proto.US))
    if isinstance(x, datetime.timedelta):
        return W('TD:%d' % (x // proto.US))
    if isinstance(x, pd.Timestamp):
        return W('PT:%d' % proto.dt2us(x.to_pydatetime()))
    if isinstance(x, F32):
        return W('HF:nan' if x.v != x.v else 'HF:%d' % int(x.v * 4))
    if isinstance(x, (LD, CLD)):
        # np.longdouble / np.clongdouble (imaginary part 0): the value times 4 as an exact integer - beyond 2**53 too: these are the
        # numpy scalars whose .item() is the numpy scalar again (review w5 F1, C14-F11)
        r = x.real
        if r != r:
            return W('LF:nan' if isinstance(x, LD) else 'LC:nan')
        if x.imag != 0 or r * 4 != np.floor(r * 4):
            raise proto.Unencodable('longdouble %r is not a real multiple of 1/4' % (x,))
        return W('%s:%d' % ('LF' if isinstance(x, LD) else 'LC', int(r * 4)))
    if isinstance(x, list):
        return W('(L' + ''.join(' ' + w(v) for v in x) + ')')
    if isinstance(x, tuple):
        return W('(T' + ''.join(' ' + w(v) for v in x) + ')')
    if isinstance(x, dict):
        return W('(D' + ''.join(' (%s %s)' % (proto.hexs(k), w(v)) for k, v in x.items()) + ')')
    return W(proto.enc(x))


def DC(n, **kw):
    return W('(DC %d' % n + ''.join(' (%s %s)' % (proto.hexs(k), w(v)) for k, v in kw.items()) + ')')


def LS(n, *cells):
    """an instance of list / tuple SUBCLASS number n (SUBCLASSES; 1, 2: two namedtuple classes, 3, 4: two list subclasses, 5: a tuple subclass)"""
    return W('(LS %d' % n + ''.join(' ' + w(c) for c in cells) + ')')


def IX(kind, labels):
    """a pd.Index as a VALUE; kind o = pd.Index, r = pd.RangeIndex (consecutive ints), d = pd.DatetimeIndex - the model ignores the kind"""
    return W('(IX %s (%s))' % (kind, ' '.join(w(i) for i in labels)))


def SN(name, idx, *cells):
    """a Series with a name"""
    return W('(SN %s (%s)' % (w(name), ' '.join(w(i) for i in idx)) + ''.join(' ' + w(c) for c in cells) + ')')


def A(dtype, shape, *cells):
    return W('(A %s (%s)' % (dtype, ' '.join(map(str, shape))) + ''.join(' ' + w(c) for c in cells) + ')')


def S(idx, *cells):
    return W('(S (%s)' % ' '.join(w(i) for i in idx) + ''.join(' ' + w(c) for c in cells) + ')')


def DF(idx, cols, *cells):
    return W('(DF (%s) (%s)' % (' '.join(w(i) for i in idx), ' '.join(w(c) for c in cols)) + ''.join(' ' + w(c) for c in cells) + ')')


# ---------------------------------------------------------------- decoding into fresh python objects

DTYPES = {'i': np.int64, 'f': np.float64, 'e': np.float32, 'g': np.longdouble, 'b': bool, 'U': str,
          'Mns': 'M8[ns]', 'Mus': 'M8[us]', 'Ms': 'M8[s]', 'MD': 'M8[D]', 'Mps': 'M8[ps]', 'Mfs': 'M8[fs]', 'mns': 'm8[ns]', 'mus': 'm8[us]', 'mD': 'm8[D]', 'mY': 'm8[Y]', 'mM': 'm8[M]',
          'mps': 'm8[ps]', 'mfs': 'm8[fs]'}


FINE = ('ps', 'fs', 'as')


class L1(list):
    pass


class L2(list):
    pass


class T1(tuple):
    pass


_NT = {}


def subclass_instance(n, cells):
    """list / tuple subclass number n holding the cells.  A namedtuple class has a fixed number of fields: one class per (n, arity) - instances of
    different arity are then of different classes AND of different length, eq is False either way (the model: same class number, lengths differ)"""
    if n in (1, 2):
        key = (n, len(cells))
        if key not in _NT:
            _NT[key] = collections.namedtuple('PQ'[n - 1], ['f%d' % i for i in range(len(cells))])
        return _NT[key](*cells)
    return {3: L1, 4: L2, 5: T1}[n](cells)


class F32(object):
    """generator-side marker of an np.float32 scalar"""
    def __init__(self, v):
        self.v = v


def dec_cell(a):
    if a.startswith('PT:'):
        return pd.Timestamp(proto.us2dt(int(a[3:])))
    if a.startswith('HF:'):
        return np.float32('nan') if a == 'HF:nan' else np.float32(int(a[3:]) / 4)
    if a[:3] in ('LF:', 'LC:'):      # q / 4 exactly: longdouble division of an exactly converted int by a power of two
        cls = LD if a[1] == 'F' else CLD
        return cls('nan') if a.endswith(':nan') else cls(LD(int(a[3:])) / 4)
    if a.startswith('NaT:'):
        return {'P': pd.NaT, 'M': np.datetime64('NaT'), 'm': np.timedelta64('NaT')}[a[4:]]
    if a[:5] in ('M8ps:', 'M8fs:', 'M8as:'):
        return np.datetime64(int(a[5:]), a[2:4])
    if a.startswith('M8'):
        unit, us = a[2:].split(':')
        return np.datetime64(proto.us2dt(int(us)), 'us').astype('M8[%s]' % unit)[()]
    if a[:5] in ('m8ps:', 'm8fs:', 'm8as:'):
        return np.timedelta64(int(a[5:]), a[2:4])
    if a.startswith('m8Y:') or a.startswith('m8M:') or a.startswith('CM:'):
        return np.timedelta64(int(a.split(':')[1]), 'Y' if a[2] == 'Y' else 'M')
    if a.startswith('m8'):
        unit, us = a[2:].split(':')
        return np.timedelta64(int(us), 'us').astype('m8[%s]' % unit)[()]
    if a.startswith('TD:'):
        return datetime.timedelta(microseconds=int(a[3:]))
    if a.startswith('PD:'):
        return pd.Timedelta(microseconds=int(a[3:]))
    return proto.dec_cell(a)


def dec(x):
    from pyg_base import Dict, dictattr
    if isinstance(x, str):
        return dec_cell(x)
    head, rest = x[0], x[1:]
    if head == 'L':
        return [dec(y) for y in rest]
    if head == 'T':
        return tuple(dec(y) for y in rest)
    if head == 'LS':
        return subclass_instance(int(rest[0]), [dec(y) for y in rest[1:]])
    if head == 'IX':
        labels = [dec_cell(i) for i in rest[1]]
        if rest[0] == 'r' and all(type(l) is int for l in labels) and labels == list(range(labels[0] if labels else 0, (labels[0] if labels else 0) + len(labels))):
            return pd.RangeIndex(labels[0], labels[0] + len(labels)) if labels else pd.RangeIndex(0)
        if rest[0] == 'd' and labels and all(isinstance(l, datetime.datetime) for l in labels):
            return pd.DatetimeIndex(labels)
        return _index(labels)
    if head == 'SN':
        s = dec(['S'] + list(rest[1:]))
        s.name = dec_cell(rest[0])
        return s
    if head == 'D':
        return {proto.unhex(kv[0]): dec(kv[1]) for kv in rest}
    if head == 'DC':
        cls = {1: Dict, 2: dictattr, 3: collections.OrderedDict}[int(rest[0])]
        return cls({proto.unhex(kv[0]): dec(kv[1]) for kv in rest[1:]})
    if head == 'A':
        dtype, shape, cells = rest[0], tuple(int(n) for n in rest[1]), [dec(c) for c in rest[2:]]
        if dtype == 'o':
            a = np.empty(len(cells), dtype=object)
            for i, c in enumerate(cells):
                a[i] = c
        elif dtype[0] in 'Mm':
            nat, conv = (np.datetime64('NaT'), np.datetime64) if dtype[0] == 'M' else (np.timedelta64('NaT'), np.timedelta64)
            a = np.array([nat if c is pd.NaT else conv(c) for c in cells], dtype=DTYPES[dtype])
        else:
            a = np.array(cells, dtype=DTYPES[dtype])
        return a.reshape(shape)
    if head == 'S':
        idx, cells = [dec_cell(i) for i in rest[0]], [dec(c) for c in rest[1:]]
        return _series(_column(cells), _index(idx))
    if head == 'DF':
        idx, cols = [dec_cell(i) for i in rest[0]], [dec_cell(c) for c in rest[1]]
        cells = [dec(c) for c in rest[2:]]
        n, m = len(idx), len(cols)
        # column by column: an int64 column next to a float64 column holds its ints exactly (C14-F8: eq used to read the frame through ONE
        # float64 array); only a single column mixing floats and ints beyond 2**53 cannot be built as spelled (`_column` keeps it as objects)
        index = _index(idx)
        data = {j: _series(_column([cells[i * m + j] for i in range(n)]), index) for j in range(m)}
        df = pd.DataFrame(data, index=index)
        df.columns = _index(cols)
        return df
    raise ValueError('bad node head %r' % (head,))


def _index(labels):
    """the axis labels as a pd.Index; a float64 index would round big ints that stand next to floats: then the labels stay objects"""
    if not labels:
        return pd.Index([], dtype=object)
    if any(isinstance(c, float) for c in labels) and any(isinstance(c, int) and not isinstance(c, bool) and abs(c) >= 2 ** 53 for c in labels):
        return pd.Index(labels, dtype=object)
    return pd.Index(labels)


def _series(col, index):
    """a column kept as objects stays objects (pandas would infer datetime64 from an object array of NaT / NaN and turn the NaN into NaT)"""
    return pd.Series(col, index=index, dtype=object if isinstance(col, np.ndarray) and col.dtype == object else None)


def _lossy(cells):
    return (any(isinstance(c, float) for c in cells) and
            any(isinstance(c, int) and not isinstance(c, bool) and abs(c) >= 2 ** 53 for c in cells))


def _column(cells, as_objects=False):
    """a pandas column from decoded cells: containers are stored as objects, never expanded"""
    # (a year / month np.timedelta64 can only be an object cell: pandas refuses the unit in a list and reads an m8[M] ARRAY as average seconds)
    if as_objects or any(isinstance(c, (list, tuple, dict, np.ndarray, pd.Series, pd.DataFrame)) or
                         (isinstance(c, np.timedelta64) and np.datetime_data(c.dtype)[0] in ('Y', 'M')) or
                         (isinstance(c, (np.datetime64, np.timedelta64)) and np.datetime_data(c.dtype)[0] in FINE) for c in cells):      # pandas would truncate a ps cell to ns
        a = np.empty(len(cells), dtype=object)
        for i, c in enumerate(cells):
            a[i] = c
        return a
    if not cells:
        return np.array([], dtype=float)
    timelike = any(c is pd.NaT or isinstance(c, (datetime.datetime, datetime.timedelta)) for c in cells)
    if _lossy(cells) or (timelike and any(isinstance(c, float) and c != c for c in cells)):
        # a float column would round the big ints, a datetime column would turn a float NaN into NaT: keep the cells as they are spelled
        a = np.empty(len(cells), dtype=object)
        for i, c in enumerate(cells):
            a[i] = c
        return a
    return cells


def kind(sx):
    """the container type eq must be strict about"""
    if isinstance(sx, str):
        return 'scalar'
    if sx[0] in ('DC', 'LS'):
        return sx[0] + sx[1]
    return 'S' if sx[0] == 'SN' else sx[0]      # (a pd.Index of any subclass is kind IX: the branch tests isinstance; the name of a Series is not part of its type)


def unnamed(sx):
    """a named Series as the Series"""
    return ['S'] + sx[2:] if isinstance(sx, list) and sx[0] == 'SN' else sx


def plain(sx):
    """NaN-free value built from python scalars, lists, tuples and plain dicts only"""
    if isinstance(sx, str):
        return not sx.endswith(':nan') and sx[:3] not in ('NI:', 'NF:', 'NB:', 'HF:', 'LF:', 'LC:', 'NaT') and sx[:2] not in ('M8', 'm8', 'CM')    # numpy scalars broadcast under ==; NaT != NaT
    if sx[0] in ('L', 'T'):
        return all(plain(y) for y in sx[1:])
    if sx[0] == 'D':
        return all(plain(kv[1]) for kv in sx[1:])
    return False


# ---------------------------------------------------------------- the universe

def universe():
    nan = float('nan')
    ts = pd.Timestamp('2020-01-01')
    U = [None, True, False, 0, 1, -1, 2, 1.0, 2.5, nan, np.nan, np.float64('nan'), float('inf'), float('-inf'),
         '', 'a', 'b', 'ab', D(2020, 1, 1), datetime.date(2020, 1, 1), D(2020, 1, 2, 3), ts,
         np.int64(1), np.float64(1.0), np.float64(2.5), np.bool_(True),
         # numpy scalars of another width; numbers where float64 stops being exact (numpy == rounds the int, python == does not)
         F32(1.0), F32(2.5), F32(nan), BIG, BIG + 1, float(BIG), np.int64(BIG), np.int64(BIG + 1), np.float64(BIG), [BIG + 1], [np.float64(BIG)],
         A('i', (1,), BIG + 1), A('f', (1,), float(BIG)), A('e', (2,), 1.0, nan), A('e', (2,), 1.0, 2.5), A('f', (2,), 1.0, 2.5),
         # review w5 F1 (C14-F11): np.longdouble / np.clongdouble - .item() is the numpy scalar itself, and numpy's == rounds a python int to the
         # 64-bit mantissa: 2**64 == longdouble(2**64) == 2**64 + 1.  Next to the ints and floats around 2**64 and 2**53, a NaN, arrays of that dtype
         LD(1), LD(2.5), LD('nan'), LD(HUGE), LD(HUGE) + LD(2048), LD(BIG), LD(BIG + 1), CLD(HUGE), CLD(1), HUGE, HUGE + 1, HUGE + 2048, float(HUGE),
         [LD(HUGE)], [HUGE + 1], [LD('nan')], {'a': LD(HUGE)}, {'a': HUGE + 1}, A('g', (1,), HUGE), A('g', (2,), 1.0, nan), A('g', (1,), BIG + 1), A('g', (1,), HUGE + 2048),
         A('o', (1,), HUGE), A('o', (1,), HUGE + 1), A('o', (1,), LD(HUGE)), A('f', (1,), float(HUGE)), S([0], LD(HUGE)), S([0], HUGE + 1),
         # distinct floats that numpy's tolerance comparisons (isclose / allclose, rtol 1e-5) call equal
         A('f', (1,), 100000.0), A('f', (1,), 100000.25), A('f', (1,), 100000.5), [100000.0], [100000.25], S([0], 100000.0), S([0], 100000.25),
         S([BIG], 1.0), S([float(BIG)], 1.0), S([BIG + 1], 1.0),
         # axis labels: a string that spells a date is not that date; NaN / NaT labels are labels
         S(['2020-01-01'], 1.0), S([D(2020, 1, 1)], 1.0), S(['2020-01-01 00:00'], 1.0), S([ts], 1.0),
         DF([0], ['2020-01-01'], 1.0), DF([0], [D(2020, 1, 1)], 1.0), DF([0], ['1/1/2020'], 1.0),
         S([nan], 1.0), S([0.0, nan], 1.0, 2.0), S([D(2020, 1, 1), nan], 1.0, 2.0), S(['a', nan], 1.0, 2.0), DF([0], [nan], 1.0), DF([nan, 1.0], ['a'], 1.0, 2.0),
         # numpy time scalars (C14-F6): one instant in several units next to date / datetime / Timestamp (numpy's == casts units: the
         # day-resolution value is == to the date AND to the Timestamp), NaT of each kind, durations next to the ints numpy says they are == to
         d64('2020-01-01'), d64('2020-01-01', 'us'), d64('2020-01-01', 'ns'), d64('2020-01-01T00', 'h'), d64('2020-01-02'), d64('2020-01-02T03', 's'),
         d64('NaT'), t64('NaT'), pd.NaT, [d64('NaT')], [pd.NaT], [d64('2020-01-01')], NS2020,
         t64(1, 'D'), t64(24, 'h'), t64(DAY_NS, 'ns'), TD(days=1), pd.Timedelta(days=1), t64(1, 'us'), t64(2, 'D'), 24, DAY_NS,
         # year / month durations (review t5, C14-F9): numpy says 1 == 1Y == 12M == 12; no common unit with days
         t64(1, 'Y'), t64(12, 'M'), t64(1, 'M'), t64(0, 'M'), t64(0, 'D'), t64(365, 'D'), 12, 0.0, [t64(1, 'Y')], [t64(12, 'M')], [12],
         A('mY', (1,), t64(1, 'Y')), A('mM', (1,), t64(12, 'M')), A('mM', (1,), t64(1, 'M')), A('i', (1,), 12), A('o', (1,), t64(1, 'Y')), A('mD', (1,), TD(days=365)),
         S([0], t64(12, 'M')), S([0], 12), {'a': t64(1, 'Y')}, {'a': 12},
         # datetime64 finer than ns (review v5, C14-F10): Timestamp == truncates to ns (0 ps and 1 ps both == Timestamp(0)), datetime == (numpy's) does not
         D(1970, 1, 1), pd.Timestamp('1970-01-01'), d64(0, 'ns'), d64(0, 'us'), d64(0, 'ps'), d64(1, 'ps'), d64(1000, 'fs'), d64(0, 'as'), d64(1000, 'ps'),
         datetime.date(1970, 1, 1), [D(1970, 1, 1)], [pd.Timestamp('1970-01-01')], [d64(0, 'ps')], {'a': d64(0, 'ps')}, {'a': D(1970, 1, 1)},
         A('Mps', (1,), d64(0, 'ps')), A('Mfs', (1,), d64(0, 'fs')), A('Mps', (1,), d64(1, 'ps')), A('Mns', (1,), D(1970, 1, 1)), A('o', (1,), D(1970, 1, 1)), A('o', (1,), d64(0, 'ps')),
         A('i', (1,), 0), S([0], d64(0, 'ps')), S([0], D(1970, 1, 1)),
         # k5 - timedelta64 finer than ns (repaired with C14-F9, now spelled): 1 ps = 1000 fs, 10**6 ps is NOT the microsecond pandas holds, never the count, never the fine datetime64
         t64(0, 'ps'), t64(1, 'ps'), t64(1000, 'fs'), t64(10 ** 6, 'ps'), t64(0, 'as'), t64(0, 'ns'), TD(0), [t64(1, 'ps')], {'a': t64(1, 'ps')},
         A('mps', (1,), t64(1, 'ps')), A('mfs', (1,), t64(1000, 'fs')), A('o', (1,), t64(1, 'ps')), A('mus', (1,), TD(microseconds=1)), A('mps', (1,), t64(10 ** 6, 'ps')), S([0], t64(1, 'ps')),
         # k5 - list / tuple SUBCLASSES (namedtuples P, Q; list subclasses L1, L2; tuple subclass T1): type(x) == type(y), python == says P(1,2) == (1,2)
         LS(1, 1, 2), LS(2, 1, 2), LS(1, 1.0, 2), LS(1, 1, nan), LS(1, 1), LS(3, 1, 2), LS(4, 1, 2), LS(5, 1, 2), LS(3), LS(4), LS(5), LS(1),
         [LS(1, 1, 2)], {'a': LS(1, 1, 2)}, {'a': (1, 2)}, A('o', (1,), LS(3, 1, 2)), LS(3, LS(1, 1, 2)), LS(3, (1, 2)),
         # k5 - pd.Index as a VALUE: isinstance, not type == (Index / RangeIndex / DatetimeIndex with the same labels are eq), never the list / array / Series of its labels
         IX('o', [1, 2]), IX('r', [1, 2]), IX('o', [1.0, 2.0]), IX('o', [1]), IX('o', []), IX('r', []), IX('o', ['a']), IX('o', [nan]), IX('o', [1.0, nan]),
         IX('d', [D(2020, 1, 1)]), IX('o', ['2020-01-01']), IX('o', [BIG + 1]), IX('o', [float(BIG)]), [IX('o', [1, 2])], {'a': IX('r', [1, 2])}, {'a': [1, 2]}, S([1, 2], 1, 2),
         # k5 - a Series that has a NAME (every column taken out of a frame): eq compares index and cells
         SN('x', [0, 1], 1.0, 2.0), SN('y', [0, 1], 1.0, 2.0), SN(0, [0, 1], 1.0, nan), [SN('x', [0, 1], 1.0, 2.0)], SN('x', [1, 2], 1.0, 2.0),
         # datetime64 / timedelta64 arrays (C14-F7) next to int arrays holding what astype(object) makes of an M8[ns] cell, and to object arrays
         A('Mns', (1,), D(2020, 1, 1)), A('Mus', (1,), D(2020, 1, 1)), A('MD', (1,), D(2020, 1, 1)), A('Ms', (1,), D(2020, 1, 1)), A('i', (1,), NS2020),
         # the SAME integer payload under different units (seeded C14-u1: a memo of converted cells keyed without the unit): days 1, 2
         # since 1970 / seconds 1, 2 since 1970 / 24 days / 24 microseconds
         A('MD', (2,), D(1970, 1, 2), D(1970, 1, 3)), A('Ms', (2,), D(1970, 1, 1, 0, 0, 1), D(1970, 1, 1, 0, 0, 2)), A('Mus', (2,), datetime.datetime(1970, 1, 1, 0, 0, 0, 1), datetime.datetime(1970, 1, 1, 0, 0, 0, 2)),
         A('mD', (1,), TD(days=24)), A('mus', (1,), TD(microseconds=24)),
         A('o', (1,), D(2020, 1, 1)), A('o', (1,), datetime.date(2020, 1, 1)), A('o', (1,), ts), A('o', (1,), d64('2020-01-01')),
         A('Mns', (2,), D(2020, 1, 1), pd.NaT), A('Mus', (2,), D(2020, 1, 1), pd.NaT), A('Mns', (2,), D(2020, 1, 1), D(2020, 1, 2)), A('Mns', (1, 2), D(2020, 1, 1), pd.NaT),
         A('mns', (1,), TD(days=1)), A('mD', (1,), TD(days=1)), A('mus', (2,), TD(days=1), pd.NaT), A('i', (1,), DAY_NS), A('o', (1,), TD(days=1)),
         # NaT cells; an int column beyond 2**53 next to a float column (C14-F8: one float64 view of the frame rounds the ints)
         S([0, 1], D(2020, 1, 1), pd.NaT), S([0, 1], D(2020, 1, 1), D(2020, 1, 2)), S([0, 1], TD(days=1), pd.NaT), DF([0, 1], ['a'], D(2020, 1, 1), pd.NaT),
         DF([0], ['a', 'b'], BIG + 1, 0.5), DF([0], ['a', 'b'], BIG, 0.5), DF([0], ['a', 'b'], float(BIG), 0.5), DF([0, 1], ['a', 'b'], BIG + 1, 0.5, BIG + 3, float('nan')),
         # empty containers of each kind
         [], (), {}, DC(1), DC(2), A('f', (0,)), A('f', (0, 3)), A('f', (0, 5)), A('f', (2, 0)), S([]), DF([], []), DF([], ['a']),
         # sequences
         [1], (1,), [1.0], [True], [nan], (nan,), [1, 2], (1, 2), [2, 1], [[1, 2]], [(1, 2)], [1, [2, nan]], [1, (2, nan)], ['a'], [None],
         [ts], [D(2020, 1, 1)],
         # dicts and subclasses
         {'a': None}, {'b': None}, {'a': 1, 'b': None}, {'a': 1, 'c': None}, [{'a': None}], [{'b': None}],      # a key that is missing must not read as None
         {'a': 1}, DC(1, a=1), DC(2, a=1), {'a': 1.0},
         # OrderedDict (review v5): a dict subclass - never eq to the plain dict, and eq sorts its items like any dict's: insertion order is ignored (python == of two OrderedDicts is not)
         DC(3, a=1), DC(3, a=1, b=2), DC(3, b=2, a=1), DC(3), [DC(3, b=2, a=1)], DC(1, b=2, a=1), {'a': 2}, {'b': 1}, {'a': 1, 'b': 2}, {'b': 2, 'a': 1}, {'a': nan}, {'a': {'x': nan}},
         {'a': [1, 2], 'b': [3, 4]}, {'a': (1, 2), 'b': (3, 4)}, {'a': [1, 2], 'b': [3]},
         # arrays
         A('i', (), 1), A('f', (), 1.0), A('i', (1,), 1), A('f', (1,), 1.0), A('i', (2,), 1, 2), A('f', (2,), 1.0, 2.0), A('f', (2,), nan, 2.0),
         A('i', (2,), 1, 1), A('i', (2, 2), 1, 2, 1, 2), A('i', (1, 2), 1, 2), A('i', (2, 1), 1, 2), A('i', (2, 3), 1, 2, 3, 1, 2, 3),
         A('U', (2,), 'a', 'b'), A('U', (1,), 'a'), A('b', (2,), True, False), A('i', (2,), 1, 0),
         A('o', (3,), 1, 'a', None), A('o', (1,), None), A('o', (2,), [1, 2], 2), A('o', (2,), (1, 2), 2), A('o', (1,), [1, 2]),
         A('o', (2,), A('i', (2,), 1, 2), nan),
         # series
         S([0, 1], 1.0, 2.0), S([0, 1], 1, 2), S([0, 1], 1.0, nan), S([1, 2], 1.0, 2.0), S(['a', 'b'], 1.0, 2.0), S([0], 1.0),
         S([D(2020, 1, 1), D(2020, 1, 2)], 1.0, 2.0), S([D(2020, 1, 1), D(2020, 1, 3)], 1.0, 2.0), S([0, 1], 'a', 'b'),
         S([0, 1], [1, 2], [3]), S([0, 1, 2], 1.0, 2.0, 3.0),
         # frames
         DF([0, 1], ['a'], 1, 2), DF([0, 1], ['b'], 1, 2), DF([0, 1], ['a'], 1.0, nan), DF([0, 1], ['a', 'b'], 1, 3, 2, 4),
         DF([1, 2], ['a'], 1, 2), DF([0, 1], [0], 1.0, 2.0), DF([0, 1], ['a'], 'x', 'y'),
         # containers holding arrays / pandas
         [A('i', (2,), 1, 2)], [S([0, 1], 1, 2)], {'a': S([0, 1], 1, 2)}, {'a': S([5, 6], 1, 2)}, {'a': A('i', (2,), 1, 2)}, {'a': [1, 2]},
         {'a': A('i', (2,), 1, 2), 'b': A('i', (2, 2), 1, 2, 3, 4)}, (S([0, 1], 1.0, nan), DF([0, 1], ['a'], 1.0, nan))]
    return [w(x) for x in U]


# ---------------------------------------------------------------- random nested values

SCALARS = [None, True, False, 0, 1, -1, 2, 3, 1.0, 2.0, 2.5, -0.25, '', 'a', 'b', 'ab', D(2020, 1, 1), D(2020, 1, 2), datetime.date(2020, 1, 1),
           pd.Timestamp('2020-01-02'), np.int64(1), np.float64(2.5), np.float64(1.0), np.bool_(False), float('inf'),
           BIG, BIG + 1, float(BIG), np.int64(BIG + 1), np.float64(BIG), F32(2.5), F32(1.0),
           LD(1), LD(2.5), LD(HUGE), LD(HUGE), CLD(HUGE), LD(BIG + 1), HUGE, HUGE + 1, HUGE + 1, float(HUGE),
           d64('2020-01-01'), d64('2020-01-01', 'ns'), d64('2020-01-02', 'us'), d64('2020-01-02T00', 'h'), t64(1, 'D'), t64(24, 'h'), TD(days=1), TD(days=2), pd.Timedelta(days=2), 24,
           t64(2, 'Y'), t64(24, 'M'), t64(2, 'M'), t64(1, 'W'), t64(7, 'D'), 12,
           D(1970, 1, 1), pd.Timestamp('1970-01-01'), d64(0, 'ps'), d64(1, 'ps'), d64(1000, 'fs'), d64(0, 'ns'), d64(0, 'as'),
           t64(0, 'ps'), t64(1, 'ps'), t64(1000, 'fs'), t64(1, 'us'), t64(10 ** 6, 'ps'), t64(0, 'as'), TD(0)]
TIMES = [D(2020, 1, 1), D(2020, 1, 2), D(2020, 1, 2), pd.NaT]
SPANS = [TD(days=1), TD(days=2), TD(days=2), pd.NaT]
LABELS = [[0, 1, 2, 3], [1, 2, 3, 4], ['a', 'b', 'c', 'd'], [D(2020, 1, 1), D(2020, 1, 2), D(2020, 1, 3), D(2020, 1, 6)], [0.0, 1.0, 2.0, 3.0],
          ['2020-01-01', '2020-01-02', '2020-01-03', '2020-01-06'], [0.0, float('nan'), 2.0, 3.0], [D(2020, 1, 1), float('nan'), D(2020, 1, 3), D(2020, 1, 6)],
          [BIG, BIG + 1, BIG + 2, BIG + 3], [float(BIG), float(BIG + 2), float(BIG + 4), float(BIG + 6)]]
COLS = [['a', 'b', 'c'], ['b', 'a', 'c'], [0, 1, 2], ['x', 'y', 'z'], ['2020-01-01', '2020-01-02', '2020-01-03'], [D(2020, 1, 1), D(2020, 1, 2), D(2020, 1, 3)],
        ['a', float('nan'), 'c']]
# what `mutate` turns a label into: other labels, the other spelling of a date (string <-> datetime), NaN
LABEL_ALTS = [7, 'q', 2.5, '2020-01-01', D(2020, 1, 1), '2020-01-01 00:00', '1/1/2020', float('nan'), BIG, float(BIG), BIG + 1]


def rand_scalar(rng, nan_rate=0.15):
    if rng.random() < nan_rate:
        return rng.choice([float('nan'), np.nan, np.float64('nan'), F32(float('nan')), LD('nan'), float('nan'), np.nan, d64('NaT'), t64('NaT'), pd.NaT])
    return rng.choice(SCALARS)


def rand_num(rng, dtype):
    if dtype == 'i':
        return rng.choice([0, 1, 2, 3, -1, BIG, BIG + 1])
    if dtype == 'f':
        # 100000.0 / 100000.25 / 100000.5: distinct numbers that are 'close' for np.isclose / np.allclose (rtol 1e-5) - seeded C14-q2
        return rng.choice([0.0, 1.0, 2.0, 2.5, -0.25, float('nan'), float('nan'), float(BIG), 100000.0, 100000.25, 100000.5])
    if dtype == 'e':
        return rng.choice([0.0, 1.0, 2.0, 2.5, -0.25, float('nan'), 100000.0, 100000.25])
    if dtype == 'g':      # longdouble cells, spelled as the python numbers they hold exactly (2**64 + 2048 and 2**53 + 1 are no float64)
        return rng.choice([0.0, 1.0, 2.5, float('nan'), HUGE, HUGE, HUGE + 2048, BIG + 1, float(BIG)])
    if dtype == 'b':
        return rng.choice([True, False])
    if dtype in ('Mps', 'Mfs'):
        return rng.choice([d64(0, dtype[1:]), d64(1, dtype[1:]), d64(1, dtype[1:]), d64(1000, dtype[1:]), pd.NaT])
    if dtype[0] == 'M':
        return rng.choice(TIMES)
    if dtype in ('mps', 'mfs'):
        return rng.choice([t64(0, dtype[1:]), t64(1, dtype[1:]), t64(1, dtype[1:]), t64(1000, dtype[1:]), pd.NaT])
    if dtype == 'mY':
        return rng.choice([t64(1, 'Y'), t64(2, 'Y'), t64(2, 'Y'), t64(0, 'Y'), pd.NaT])
    if dtype == 'mM':
        return rng.choice([t64(12, 'M'), t64(24, 'M'), t64(24, 'M'), t64(1, 'M'), t64(0, 'M'), pd.NaT])
    if dtype[0] == 'm':
        return rng.choice(SPANS)
    return rng.choice(['a', 'b', 'ab', ''])


def rand_shape(rng):
    return rng.choice([(), (0,), (1,), (2,), (2,), (3,), (1, 2), (2, 1), (2, 2), (2, 3), (0, 2), (2, 0), (1, 2, 2)])


def prod(shape):
    n = 1
    for s in shape:
        n *= s
    return n


def rand_val(rng, depth):
    r = rng.random()
    if depth == 0 or r < 0.3:
        return w(rand_scalar(rng))
    n = rng.choice([0, 1, 1, 2, 2, 3])
    if r < 0.45:
        if rng.random() < 0.15:
            return LS(rng.choice([3, 3, 4]), *[rand_val(rng, depth - 1) for _ in range(n)])
        return w([rand_val(rng, depth - 1) for _ in range(n)])
    if r < 0.55:
        if rng.random() < 0.3:
            return LS(rng.choice([1, 1, 2, 5]), *[rand_val(rng, depth - 1) for _ in range(n)])
        return w(tuple(rand_val(rng, depth - 1) for _ in range(n)))
    if r < 0.7:
        keys = rng.sample(['a', 'b', 'c', 'd'], n)
        items = {k: rand_val(rng, depth - 1) for k in keys}
        c = rng.choice([0, 0, 0, 1, 2, 3])
        return w(items) if c == 0 else DC(c, **items)
    if r < 0.85:
        shape = rand_shape(rng)
        dtype = rng.choice(['i', 'f', 'f', 'e', 'g', 'b', 'U', 'o', 'Mns', 'Mus', 'MD', 'Mps', 'Mfs', 'mns', 'mD', 'mY', 'mM', 'mps', 'mfs'])
        if dtype == 'o':
            return A('o', shape, *[rand_val(rng, depth - 1) for _ in range(prod(shape))])
        return A(dtype, shape, *[rand_num(rng, dtype) for _ in range(prod(shape))])
    k = rng.choice([0, 1, 2, 2, 3])
    idx = rng.choice(LABELS)[:k]
    dtype = rng.choice(['i', 'f', 'f', 'U', 'Mns', 'x', 'x'])      # x: frame columns alternate int (beyond 2**53 too) and float
    if r < 0.93:
        dtype = 'f' if dtype == 'x' else dtype
        q = rng.random()
        if q < 0.12:      # the axis itself as a value
            ints = idx and all(type(l) is int for l in idx)
            return IX(rng.choice('or') if ints else 'd' if idx and all(isinstance(l, datetime.datetime) for l in idx) else 'o', idx)
        named = (lambda *a: SN(rng.choice(['x', 'x', 'y', 0]), *a)) if q < 0.3 else S
        if rng.random() < 0.15:
            return named(idx, *[rand_val(rng, depth - 1) for _ in range(k)])
        return named(idx, *[rand_num(rng, dtype) for _ in range(k)])
    m = rng.choice([0, 1, 1, 2])
    if dtype == 'x' or rng.random() < 0.3:      # int columns (mostly beyond 2**53) alternating with float columns
        k, m = rng.choice([1, 2, 3]), rng.choice([2, 2, 3])
        idx = rng.choice(LABELS)[:k]
        cell = lambda n: rng.choice([BIG, BIG + 1, BIG + 1, BIG + 2, 1]) if n % m % 2 == 0 else rand_num(rng, 'f')
        return DF(idx, rng.choice(COLS)[:m], *[cell(n) for n in range(k * m)])
    cols = rng.choice(COLS)[:m]
    return DF(idx, cols, *[rand_num(rng, dtype) for _ in range(k * m)])


def _relabel(rng, a):
    """another label; a datetime label preferably becomes a string spelling it and vice versa"""
    if a[:2] in ('T:', 'PT') and rng.random() < 0.5:
        t = dec_cell(a)
        return w(rng.choice([t.strftime('%Y-%m-%d'), t.strftime('%Y-%m-%d %H:%M'), '%d/%d/%d' % (t.month, t.day, t.year)]))
    if a.startswith('S:') and rng.random() < 0.5:
        try:
            return w(pd.Timestamp(proto.dec_cell(a)).to_pydatetime())
        except Exception:
            pass
    return w(rng.choice(LABEL_ALTS))


def mutate(rng, sx):
    """a near copy: one leaf changed (possibly to an == value), a container retagged, an array reshaped, a label changed"""
    if isinstance(sx, str):
        v = dec_cell(sx)
        if isinstance(v, (int, np.integer)) and not isinstance(v, (bool, np.bool_, np.timedelta64)) and rng.random() < 0.5:
            return proto.enc(float(v))
        return w(rand_scalar(rng))
    head = sx[0]
    r = rng.random()
    if head in ('L', 'T'):
        if r < 0.25:
            return [{'L': 'T', 'T': 'L'}[head]] + sx[1:]
        if r < 0.35 and len(sx) > 1:
            return ['A', 'o', [str(len(sx) - 1)]] + sx[1:]
        if r < 0.45:
            return sx + [w(rand_scalar(rng))]
        if len(sx) > 1:
            i = rng.randrange(1, len(sx))
            return sx[:i] + [mutate(rng, sx[i])] + sx[i + 1:]
        return sx
    if head == 'LS':
        if r < 0.3:      # the plain list / tuple of the same elements, another subclass
            return rng.choice([['L'], ['T'], ['LS', rng.choice([c for c in '12345' if c != sx[1]])]]) + sx[2:]
        if r < 0.4:
            return sx + [w(rand_scalar(rng))]
        if len(sx) > 2:
            i = rng.randrange(2, len(sx))
            return sx[:i] + [mutate(rng, sx[i])] + sx[i + 1:]
        return sx
    if head == 'IX':
        labels = sx[2]
        if r < 0.35 and labels:
            i = rng.randrange(len(labels))
            return ['IX', sx[1], labels[:i] + [_relabel(rng, labels[i])] + labels[i + 1:]]
        if r < 0.55:
            return ['IX', rng.choice([c for c in 'ord' if c != sx[1]]), labels]      # another Index subclass where the labels allow it (else the decoder builds pd.Index)
        if r < 0.7:
            return rng.choice([['L'], ['T'], ['A', 'o', [str(len(labels))]]]) + labels
        if r < 0.8:
            return ['S', labels] + labels
        return ['IX', sx[1], labels + [w(rng.choice(LABEL_ALTS))]]
    if head == 'SN':
        if r < 0.3:
            return rng.choice([['S'], ['SN', w(rng.choice(['x', 'y', 'z', 0]))]]) + sx[2:]
        m = mutate(rng, ['S'] + sx[2:])
        return ['SN', sx[1]] + m[1:] if m[0] == 'S' else m
    if head in ('D', 'DC'):
        items = sx[1:] if head == 'D' else sx[2:]
        if r < 0.3:
            return ['DC', rng.choice(['1', '2', '3'])] + items if head == 'D' else ['D'] + items
        if r < 0.45 and items:
            items = list(items)
            rng.shuffle(items)
            return sx[:len(sx) - len(items)] + items
        if items:
            i = rng.randrange(len(items))
            items = items[:i] + [[items[i][0], mutate(rng, items[i][1])]] + items[i + 1:]
            return sx[:len(sx) - len(items)] + items
        return sx
    if head == 'A':
        dtype, shape, cells = sx[1], sx[2], sx[3:]
        if r < 0.35 and len(shape) >= 1:
            n = len(cells)
            alts = [s for s in ([str(n)], ['1', str(n)], [str(n), '1'], ['1', '1', str(n)]) if s != shape]
            return ['A', dtype, rng.choice(alts)] + cells
        if r < 0.45 and len(shape) == 1:
            return ['L'] + cells
        if r < 0.6 and dtype == 'g':      # the same numbers as python objects (exact), with one int moved by 1 (no longdouble holds 2**64 + 1)
            cells = [('I:%d' % (int(c[2:]) + 1) if c.startswith('I:') and int(c[2:]) >= HUGE and rng.random() < 0.5 else c) for c in cells]
            return ['A', 'o', shape] + cells
        if r < 0.55 and dtype == 'i':
            return ['A', 'f', shape] + [proto.enc(float(int(c[2:]))) for c in cells]
        if r < 0.6 and dtype in ('Mps', 'Mfs'):
            # the same instants in the other fine unit (exact), as objects, as the ns array pandas would truncate them to, as the int array of the counts
            to = rng.choice(['Mps', 'Mfs', 'o', 'Mns', 'i'])
            fine = [c for c in cells if c.startswith('M8')]
            if to == 'i' and len(fine) == len(cells):
                return ['A', 'i', shape] + ['I:' + c.split(':')[1] for c in cells]
            if to == 'Mns':
                return ['A', 'Mns', shape] + [w(pd.Timestamp(dec_cell(c)).to_pydatetime()) if c.startswith('M8') else c for c in cells]
            if to in ('Mps', 'Mfs'):
                # an array holds its cells in ITS unit: ps as fs is exact, fs as ps only for whole picoseconds (else the cells stay objects)
                if to == 'Mfs':
                    return ['A', to, shape] + ['M8fs:%d' % (int(c[5:]) * 1000) if c.startswith('M8ps:') else c for c in cells]
                if all(int(c[5:]) % 1000 == 0 for c in cells if c.startswith('M8fs:')):
                    return ['A', to, shape] + ['M8ps:%d' % (int(c[5:]) // 1000) if c.startswith('M8fs:') else c for c in cells]
                to = 'o'
            return ['A', to if to != 'i' else 'o', shape] + cells
        if r < 0.6 and dtype[0] == 'M':
            to = rng.choice(['Mns', 'Mus', 'Ms', 'MD', 'o', 'o', 'i', 'i'])
            if to == 'i' and all(c.startswith('T:') for c in cells):        # what M8[ns].astype(object) holds: ns since 1970
                return ['A', 'i', shape] + ['I:%d' % ((int(c[2:]) - proto.dt2us(D(1970, 1, 1))) * 1000) for c in cells]
            return ['A', to if to != 'i' else 'o', shape] + cells
        if r < 0.6 and dtype in ('mps', 'mfs'):
            # the same durations in the other fine unit (exact), as objects, as the int array of the counts, as the ns array pandas would truncate them to
            to = rng.choice(['mps', 'mfs', 'o', 'i', 'mns'])
            if to == 'i' and all(c.startswith('m8') for c in cells):
                return ['A', 'i', shape] + ['I:' + c.split(':')[1] for c in cells]
            if to == 'mns':      # what pandas would hold: truncated (the wire spells whole microseconds)
                return ['A', 'mns', shape] + ['TD:%d' % (int(c[5:]) // (10 ** 6 if c[2] == 'p' else 10 ** 9)) if c.startswith('m8') else c for c in cells]
            if to == 'mfs':
                return ['A', to, shape] + ['m8fs:%d' % (int(c[5:]) * 1000) if c.startswith('m8ps:') else c for c in cells]
            if to == 'mps' and all(int(c[5:]) % 1000 == 0 for c in cells if c.startswith('m8fs:')):
                return ['A', to, shape] + ['m8ps:%d' % (int(c[5:]) // 1000) if c.startswith('m8fs:') else c for c in cells]
            return ['A', 'o', shape] + cells
        if r < 0.6 and dtype in ('mY', 'mM'):
            # years as months (exact), as objects, and as the int array of the counts (what numpy's == compares them with)
            to = rng.choice(['mM', 'o', 'i'])
            if to == 'i' and all(c.startswith('m8') for c in cells):
                return ['A', 'i', shape] + ['I:' + c.split(':')[1] for c in cells]
            return ['A', to if to != 'i' else 'o', shape] + cells
        if r < 0.6 and dtype[0] == 'm':
            to = rng.choice(['mns', 'mus', 'mD', 'o', 'i'])
            if to == 'i' and all(c.startswith('TD:') for c in cells):
                return ['A', 'i', shape] + ['I:%d' % (int(c[3:]) * 1000) for c in cells]
            return ['A', to if to != 'i' else 'o', shape] + cells
        if r < 0.6 and dtype in 'fe' and not any(abs(int(c[2:])) > 2 ** 20 for c in cells if not c.endswith('nan')):
            return ['A', {'f': 'e', 'e': 'f'}[dtype], shape] + cells
        if cells:
            i = rng.randrange(len(cells))
            c = mutate(rng, cells[i]) if dtype == 'o' else w(rand_num(rng, dtype))
            return ['A', dtype, shape] + cells[:i] + [c] + cells[i + 1:]
        return sx
    if head == 'S':
        idx, cells = sx[1], sx[2:]
        if r < 0.3 and idx:
            i = rng.randrange(len(idx))
            return ['S', idx[:i] + [_relabel(rng, idx[i])] + idx[i + 1:]] + cells
        if r < 0.4:
            return ['DF', idx, ['I:0']] + cells
        if r < 0.5:
            return ['A', 'o', [str(len(cells))]] + cells
        if cells:
            i = rng.randrange(len(cells))
            return ['S', idx] + cells[:i] + [w(rand_num(rng, 'M' if cells[i][:2] in ('T:', 'Na') else rng.choice('if')))] + cells[i + 1:]
        return sx
    if head == 'DF':
        idx, cols, cells = sx[1], sx[2], sx[3:]
        if r < 0.3 and cols:
            i = rng.randrange(len(cols))
            return ['DF', idx, cols[:i] + [_relabel(rng, cols[i])] + cols[i + 1:]] + cells
        if r < 0.5 and idx:
            i = rng.randrange(len(idx))
            return ['DF', idx[:i] + [_relabel(rng, idx[i])] + idx[i + 1:], cols] + cells
        big = [i for i, c in enumerate(cells) if isinstance(c, str) and c.startswith('I:') and abs(int(c[2:])) >= BIG]
        if big and r < 0.8:
            i = rng.choice(big)
            return ['DF', idx, cols] + cells[:i] + ['I:%d' % (int(cells[i][2:]) + rng.choice([-1, 1, 2]))] + cells[i + 1:]
        if cells:
            i = rng.randrange(len(cells))
            return ['DF', idx, cols] + cells[:i] + [w(rand_num(rng, rng.choice('if')))] + cells[i + 1:]
        return sx
    return sx


PLAIN_SCALARS = [x for x in SCALARS if not isinstance(x, (np.generic, F32))]


def rand_plain(rng, depth):
    r = rng.random()
    if depth == 0 or r < 0.4:
        return w(rng.choice(PLAIN_SCALARS))
    n = rng.choice([0, 1, 2, 2, 3])
    if r < 0.6:
        return w([rand_plain(rng, depth - 1) for _ in range(n)])
    if r < 0.75:
        return w(tuple(rand_plain(rng, depth - 1) for _ in range(n)))
    keys = rng.sample(['a', 'b', 'c', 'd'], n)
    return w({k: rand_plain(rng, depth - 1) for k in keys})


def rand_pair(rng, gen=rand_val):
    x = gen(rng, 3)
    r = rng.random()
    if r < 0.3:
        y = x
    elif r < 0.8:
        y = proto.render(mutate(rng, proto.parse(x)))
        try:
            dec(proto.parse(y))
        except Exception:
            y = x
    else:
        y = gen(rng, 3)
    return x, y


def generate(rng, tier):
    U = universe()
    for x in U:
        for y in U:
            yield dict(tag='eq-universe', lines=['(eq eq %s %s)' % (x, y)])
    # the raising reading eqR against the code: empty / 0-d / differently shaped containers of every kind are where its error branches sit
    R = [x for x in U if kind(proto.parse(x)) != 'scalar']
    for x in R:
        for y in R:
            if kind(proto.parse(x)) == kind(proto.parse(y)):
                yield dict(tag='eqr-universe', lines=['(eq eqr %s %s)' % (x, y)])
    # eqPinned (the variant of eqR with the ndarray branch as it was before fix F6c: len() of a 0-d array, broadcasting veq, np.vectorize
    # on a size-0 result) against that version of the code, read from the repository's history: real exceptions, not prose
    if pinned_eq() is not None:
        P = [x for x in U if kind(proto.parse(x)) == 'A' and proto.parse(x)[1] in 'ifbU']
        for x in P:
            for y in P:
                yield dict(tag='eqpinned-universe', lines=['(eq eqpinned %s %s)' % (x, y)])
        for _ in range(400 if tier == 'quick' else 6000):
            x, y = pinned_pair(rng)
            yield dict(tag='eqpinned-random', lines=['(eq eqpinned %s %s)' % (x, y), '(eq eqpinned %s %s)' % (y, x)])
    n = 1500 if tier == 'quick' else 40000
    for _ in range(n):
        x, y = rand_pair(rng)
        yield dict(tag='eq-random-%s' % ('copy' if x == y else 'near' if kind(proto.parse(x)) == kind(proto.parse(y)) else 'other'),
                   lines=['(eq eq %s %s)' % (x, y), '(eq eq %s %s)' % (y, x)])
    n = 300 if tier == 'quick' else 6000
    for _ in range(n):
        seq = [rand_val(rng, 2) for _ in range(rng.choice([0, 1, 2, 3, 5]))]
        r = rng.random()
        x = rng.choice(seq) if seq and r < 0.4 else (proto.render(mutate(rng, proto.parse(rng.choice(seq)))) if seq and r < 0.7 else rand_val(rng, 2))
        yield dict(tag='in_', lines=['(eq in %s %s)' % (x, w([W(s) for s in seq]))])
    n = 500 if tier == 'quick' else 10000
    for _ in range(n):
        x, y = rand_pair(rng, rand_plain)
        if plain(proto.parse(x)) and plain(proto.parse(y)):
            yield dict(tag='python==', lines=['(eq pyeq %s %s)' % (x, y)])


# ---------------------------------------------------------------- the pinned ndarray branch (before fix F6c) as an implementation

_PINNED = {}


def pinned_eq():
    """`eq` of src/pyg_base/_eq.py as it was just before the F6c fix (the commit is looked up in known_findings.d/C14.json): the
    scalar-vs-container and dict fixes are in, the ndarray branch is the pinned one (len() instead of shape, broadcasting veq).
    None when that version cannot be read from the repository's history."""
    if 'eq' not in _PINNED:
        import json, os, subprocess, types
        from ..engine import REPO, VERIF
        _PINNED['eq'] = None
        try:
            commit = [k['commit'] for k in json.load(open(os.path.join(VERIF, 'known_findings.d', 'C14.json'))) if k['id'] == 'F6c'][0]
            src = subprocess.run(['git', '-C', REPO, 'show', '%s^:src/pyg_base/_eq.py' % commit], stdout=subprocess.PIPE,
                                 stderr=subprocess.DEVNULL, text=True, timeout=30)
            if src.returncode == 0 and 'def eq(' in src.stdout:
                mod = types.ModuleType('pyg_base_eq_pinned')
                exec(compile(src.stdout, 'pinned/_eq.py', 'exec'), mod.__dict__)
                _PINNED['eq'] = mod.eq
        except Exception:
            pass
    return _PINNED['eq']


PIN_SHAPES = [(), (1,), (2,), (2,), (3,), (1, 2), (2, 1), (2, 2), (2, 3), (1, 3), (3, 1), (0,), (0, 2), (2, 0), (0, 3), (0, 5), (1, 2, 2), (2, 1, 2)]


def pinned_pair(rng):
    """two arrays of plain numbers: equal, reshaped, broadcastable onto each other, of another length, 0-d, of size 0"""
    dtype = rng.choice('iiffb')
    cell = lambda: rand_num(rng, dtype) if dtype != 'i' else rng.choice([0, 1, 1, 2])
    sx = rng.choice(PIN_SHAPES)
    xs = [cell() for _ in range(prod(sx))]
    r = rng.random()
    if r < 0.25:
        sy, ys = sx, list(xs)
    elif r < 0.6:
        sy = rng.choice(PIN_SHAPES)
        base = xs[:sx[-1]] if sx and rng.random() < 0.5 else xs       # a row of x, repeated: what broadcasting compares
        ys = [(base or [cell()])[i % max(1, len(base))] for i in range(prod(sy))]
    else:
        sy = rng.choice(PIN_SHAPES)
        ys = [cell() for _ in range(prod(sy))]
    return A(dtype, sx, *xs), A('f' if dtype == 'i' and rng.random() < 0.2 else dtype, sy, *ys)     # ints are exact floats


# ---------------------------------------------------------------- implementation runner

def _bool(r):
    if isinstance(r, (bool, np.bool_)):
        return 'ok B:1' if r else 'ok B:0'
    return 'ok-nonbool %s' % type(r).__name__


def run_line(state, sx):
    import pyg_base
    op, args = sx[1], sx[2:]
    if op in ('eq', 'eqr'):       # eqr: the model answers with the raising reading eqR (an exception here becomes `err Kind` in the engine)
        return _bool(pyg_base.eq(dec(args[0]), dec(args[1])))
    if op == 'in':
        return _bool(pyg_base.in_(dec(args[0]), dec(args[1])))
    if op == 'eqpinned':
        return _bool(pinned_eq()(dec(args[0]), dec(args[1])))
    if op == 'pyeq':
        return _bool(dec(args[0]) == dec(args[1]))
    return 'bad-op'


def _nan_spelling(x):
    """a NaN is a NaN whichever object holds it: python float, the shared np.nan, an np.float64 scalar; NaT likewise"""
    if isinstance(x, str):
        return 'F:nan' if x in ('NF:nan', 'XF:nan', 'HF:nan', 'LF:nan') else 'NaT:P' if x.startswith('NaT:') else x
    return [_nan_spelling(y) for y in x]


def cells_of(v):
    """the cells of an array / Series / DataFrame as numpy / pandas hand them out one by one"""
    if isinstance(v, np.ndarray):
        return [v[i] for i in np.ndindex(v.shape)]
    if isinstance(v, pd.Series):
        return [v.iloc[i] for i in range(len(v))]
    if isinstance(v, pd.DataFrame):
        return [v.iat[i, j] for i in range(v.shape[0]) for j in range(v.shape[1])]
    return None


def cells_differ(sx, sy):
    """'arrays are equal only if ... all cells match': a position at which two arrays / pandas objects of one shape hold cells that
    the implementation's own eq tells apart, else None"""
    import pyg_base
    cx, cy = cells_of(dec(sx)), cells_of(dec(sy))
    if cx is None or cy is None or len(cx) != len(cy):
        return None
    for i, (a, b) in enumerate(zip(cx, cy)):
        if not pyg_base.eq(a, b):
            return (i, a, b)
    return None


def compare(case, i, line, ir, mr):
    if ir == mr:
        return None
    sx = proto.parse(line)
    if sx[1] == 'pyeq':
        return ('divergence', 'python == gives %s, the reference function pyEqV %s' % (ir, mr))
    if sx[1] == 'eqpinned':
        return ('divergence', 'the ndarray branch as it was before fix F6c gives %s, its model eqPinned %s' % (ir, mr))
    if not ir.startswith('ok B:'):
        return 'eq/in_ must return a boolean and never raise: %s (model: %s)' % (ir, mr)
    if sx[1] in ('eq', 'eqr'):
        x, y = sx[2], sx[3]
        if x == y or _nan_spelling(x) == _nan_spelling(y):
            return 'eq(x, structural copy of x holding other NaN objects) is False'
        if kind(x) != kind(y):
            return 'eq is True although the container types differ (%s vs %s)' % (kind(x), kind(y))
        if shape_of(x) != shape_of(y) or labels_of(x) != labels_of(y):
            return 'eq is True although shape / index / columns differ'
        bad = cells_differ(x, y) if ir == 'ok B:1' else None
        if bad:
            return 'eq is True although the cells at position %d are not eq (%r vs %r)' % bad
        if plain(x) and plain(y):
            return 'eq(x, y) = %s but x == y is %s on NaN-free plain values' % (ir, dec(x) == dec(y))
        k = _float_cell_differs(x, y)
        if ir == 'ok B:1' and k is not None:
            return 'eq is True although the float cells at position %d differ (%s vs %s): arrays / pandas objects are equal only if ALL cells match' % k
    return ('divergence', 'implementation %s, model %s' % (ir, mr))


def _float_cell_differs(x, y):
    """two arrays of the same float dtype / two Series / two frames whose cells are all python floats (no int next to a float: pandas
    would round it into the column's dtype): the first position at which two non-NaN cells are different numbers, else None"""
    x, y = unnamed(x), unnamed(y)
    if not (isinstance(x, list) and isinstance(y, list) and x[0] == y[0] and x[0] in ('A', 'S', 'DF')):
        return None
    if x[0] == 'A' and (x[1] != y[1] or x[1] not in 'fe'):
        return None
    cx, cy = x[{'A': 3, 'S': 2, 'DF': 3}[x[0]]:], y[{'A': 3, 'S': 2, 'DF': 3}[x[0]]:]
    if len(cx) != len(cy) or not all(isinstance(c, str) and c.startswith('F:') for c in cx + cy):
        return None
    for i, (a, b) in enumerate(zip(cx, cy)):
        if a != b and 'nan' not in a and 'nan' not in b:
            return (i, a, b)
    return None


def nontrivial(line, reply):
    if not reply.startswith('ok B:'):
        return False
    sx = proto.parse(line)
    return sx[2] != sx[3]


# ---------------------------------------------------------------- laws on the implementation alone

def _eq(x, y):
    import pyg_base
    try:
        r = pyg_base.eq(dec(proto.parse(x)), dec(proto.parse(y)))
    except Exception as e:
        return 'raise ' + type(e).__name__
    if not isinstance(r, (bool, np.bool_)):
        return 'nonbool ' + type(r).__name__
    return bool(r)


def shape_of(sx):
    """what must match for arrays / pandas objects to be equal"""
    sx = unnamed(sx)
    if isinstance(sx, list) and sx[0] == 'IX':
        return len(sx[2])
    if isinstance(sx, list) and sx[0] == 'A':
        return tuple(sx[2])
    if isinstance(sx, list) and sx[0] == 'S':
        return len(sx[1])
    if isinstance(sx, list) and sx[0] == 'DF':
        return (len(sx[1]), len(sx[2]))
    return None


def labels_of(sx):
    """canonical axis labels of a pandas object (labels equal under python == coincide)"""
    can = lambda ls: tuple(proto.canon_cell('T:' + a[3:] if a.startswith('PT:') else a) for a in ls)
    sx = unnamed(sx)
    if isinstance(sx, list) and sx[0] == 'IX':
        return (can(sx[2]),)
    if isinstance(sx, list) and sx[0] == 'S':
        return (can(sx[1]),)
    if isinstance(sx, list) and sx[0] == 'DF':
        return (can(sx[1]), can(sx[2]))
    return None


def laws_on(U, label, full_triples=True, rng=None):
    n = len(U)
    P = [proto.parse(x) for x in U]
    count = 0
    line = lambda i, j: '(eq eq %s %s)' % (U[i], U[j])
    M = [[_eq(U[i], U[j]) for j in range(n)] for i in range(n)]
    for i in range(n):
        for j in range(n):
            count += 1
            m = M[i][j]
            if m not in (True, False):
                yield Finding('violation', dict(tag='law-total-' + label, lines=[line(i, j)]), 'eq does not return a boolean without raising: %s' % m)
                continue
            if i == j and not m:
                yield Finding('violation', dict(tag='law-refl-' + label, lines=[line(i, j)]), 'eq(x, structural copy of x) is False')
            if M[j][i] in (True, False) and M[j][i] != m and i < j:
                yield Finding('violation', dict(tag='law-symm-' + label, atomic=True, lines=[line(i, j), line(j, i)]),
                              'eq(x,y)=%s but eq(y,x)=%s' % (m, M[j][i]))
            if m and kind(P[i]) != kind(P[j]):
                yield Finding('violation', dict(tag='law-typestrict-' + label, lines=[line(i, j)]),
                              'eq is True although the container types differ (%s vs %s)' % (kind(P[i]), kind(P[j])))
            if m and kind(P[i]) == kind(P[j]) and shape_of(P[i]) != shape_of(P[j]):
                yield Finding('violation', dict(tag='law-shape-' + label, lines=[line(i, j)]),
                              'eq is True although shapes / axis lengths differ (%s vs %s)' % (shape_of(P[i]), shape_of(P[j])))
            if m and kind(P[i]) == kind(P[j]) and labels_of(P[i]) != labels_of(P[j]):
                yield Finding('violation', dict(tag='law-labels-' + label, lines=[line(i, j)]), 'eq is True although index / columns differ')
            if m and kind(P[i]) == kind(P[j]) and kind(P[i]) in ('A', 'S', 'DF') and shape_of(P[i]) == shape_of(P[j]):
                bad = cells_differ(P[i], P[j])
                if bad:
                    yield Finding('violation', dict(tag='law-cells-' + label, lines=[line(i, j)]),
                                  'eq is True although the cells at position %d are not eq (%r vs %r)' % bad)
            if plain(P[i]) and plain(P[j]):
                native = dec(P[i]) == dec(P[j])
                if m != native:
                    yield Finding('violation', dict(tag='law-pyeq-' + label, lines=[line(i, j)]), 'eq=%s but == gives %s on NaN-free plain values' % (m, native))
    T = [[M[i][j] is True for j in range(n)] for i in range(n)]
    for i in range(n):
        for j in range(n):
            if not T[i][j]:
                continue
            for k in range(n):
                count += 1
                if T[j][k] and M[i][k] is False:
                    yield Finding('violation', dict(tag='law-trans-' + label, atomic=True, lines=[line(i, j), line(j, k), line(i, k)]),
                                  'eq(x,y) and eq(y,z) but not eq(x,z)')
    yield count


def laws(rng, tier, ctx):
    """the property statement on the implementation's own outputs: total/boolean, reflexive on structural copies, symmetric,
    transitive (all triples), type-strict, shape-strict and equal to == on NaN-free plain values - on the whole universe and
    on random clusters (a random value, near copies of it and unrelated values)"""
    count = 0
    for f in laws_on(universe(), 'universe'):
        if isinstance(f, Finding):
            yield f
        else:
            count += f
    m = 40 if tier == 'quick' else 600
    for _ in range(m):
        x = rand_val(rng, 3)
        C = [x]
        for _ in range(5):
            base = rng.choice(C)
            y = proto.render(mutate(rng, proto.parse(base)))
            try:
                dec(proto.parse(y))
            except Exception:
                continue
            C.append(y)
        C.append(rand_val(rng, 2))
        for f in laws_on(C, 'cluster'):
            if isinstance(f, Finding):
                yield f
            else:
                count += f
    yield count


MATCHERS = {}
