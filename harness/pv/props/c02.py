"""C02 - join is the relational inner/cross join and xor the anti-join; both terminate.

Protocol lines (model `join`, lean/PygModel/JoinDriver.lean):
  (join join <x> <y> <lcols> <rcols> <mode> <spelling>)  ->  ok (T <result> <x after> <y after>)
  (join xor  <x> <y> <lcols> <rcols> <mode> <spelling>)  ->  ok (T <result> <x after> <y after>)
  (join listby (L (T cell*)*))                           ->  ok (L (T <group key> (L <row ids>))*)     dictable._listby
tables are dicts of equally long lists; <lcols>/<rcols> are N or a list of S:<hex name> | (fn id S:name) |
(fn dbl S:name) | (fn const); <mode> is mN | ml0 | mlS | mlL | mr1 | mrS | mrR | (mv <cell atom>) | (mf fst|snd|swap|lst);
<spelling> = sp:<l><r>[o]: how the column lists are written in python (l list, t tuple, b bare item; o = use the
operator x * y or x / y), ignored by the model.
"""
import datetime, math, signal, itertools, logging
from collections import Counter
import numpy as np
from .. import proto
from ..proto import enc, hexs, unhex, key_name, name_key
from ..engine import Finding, Timeout, with_timeout

ID = 'C02'
TITLE = 'join is the relational inner/cross join and xor the anti-join; both terminate'
STATEMENT = ('join returns, as a multiset of rows, exactly the pairs (l, r) whose keys are equal (int = same-valued float, None = None, '
             'NaN = NaN), each carrying the key, every other column of both sides and same-named non-key columns combined by mode; with '
             'no key the cross product; xor returns exactly the rows of x whose key matches no row of y; both terminate and leave both '
             'operands unchanged')
LEAN_FILES = ['Basic', 'Cmp', 'Sort', 'Native', 'TableBasic', 'Join', 'JoinDriver', 'Tri', 'CmpLemmas', 'NativeLemmas', 'JoinLemmas', 'KeyEq', 'JoinCols', 'C02']
RULE = ('distinct protocol lines (one join / xor call on a pair of tables, or one _listby call) on which the implementation returned a '
        'table / group list and at least one of the operands has 2 or more rows')
TRUSTED = ['correspondence harness (pv.engine, pv.proto) and generators / reference join + xor (statement_check) of pv.props.c02',
           'Lean driver parser/printer (PygModel/Basic.lean, JoinDriver.lean)']
ASSUMPTIONS = ['pyg_base.sort orders the (key, row id) pairs as the model of C07 does (native sorted() agrees with cmp whenever it does not raise); '
               'sampled directly by the _listby lines (group order and row-id order compared exactly)',
               'callables used as computed keys / modes are pure; only the named callables id, dbl, const / fst, snd, swap, lst are exercised',
               'termination of the implementation is observed through a 2 s alarm per call, in the model it is proved',
               'keys outside the property universe are not generated: bools (True == 1 but cmp differs), containers',
               'known finding C02-K1: a non-key column named like a key column of the result is dropped by join (model copies the code; '
               'the statement-level reference reports it, the matcher recognises exactly that input class)']
CALL_TIMEOUT = 8

D = datetime.datetime
import pyg_base  # noqa: E402  (engine has put $PYG_REPO/src on sys.path)
logging.getLogger('pyg').setLevel(logging.ERROR)

NAN = 'fresh-nan'          # placeholder: a fresh float('nan') object per occurrence
SNAN = 'shared-nan'        # the one np.nan object
XNAN = 'numpy-scalar-nan'  # a NaN held by a fresh np.float64 scalar
INF = float('inf')
KEYS = [None, 0, 1, 2, 3, 1.0, 2.0, 2.5, -0.25, 'a', 'b', '', D(2020, 1, 1), D(2020, 1, 2, 12), NAN, NAN, SNAN, INF, -INF,
        2 ** 53, 2 ** 53 + 1, float(2 ** 53),      # neighbouring ints beyond float precision are distinct keys
        datetime.date(2020, 1, 1), datetime.date(2020, 1, 2),   # a date is the datetime of its midnight (as_primitive); wire spelling DT:
        XNAN, np.int64(2), np.float64(1.0)]                     # numpy scalars (what a DataFrame column hands out)
VALS = [None, 1, 2, 'p', 'q', 0.5]
# column KEYS that are not strings: xyz / pivot make one column per y value (a float, None, a datetime), so two pivot results share such columns and are
# joined on them.  On the wire and in the model the key is NAMED U+0000 + its atom (proto.key_name); the runner hands the implementation the real key.
# None can only be reached by omitting lcols (lcols = None means "the shared columns").  1.0 / NaN keys left out (1.0 is the dict key 1, NaN goes by identity).
COLKEYS = [1.5, 2.5, -0.25, D(2020, 1, 1), D(2021, 6, 30, 12)]


def cell(v):
    if v is NAN:
        return 'F:nan'
    if v is SNAN:
        return 'NF:nan'
    if v is XNAN:
        return 'XF:nan'
    return enc(v)


def enc_table(t):
    """t: list of (name, [python values])"""
    return '(D' + ''.join(' (%s (L%s))' % (hexs(k), ''.join(' ' + cell(v) for v in vs)) for k, vs in t) + ')'


def enc_specs(specs):
    if specs is None:
        return 'N'
    out = []
    for s in specs:
        if isinstance(s, str):
            out.append('S:' + hexs(s))
        elif len(s) == 2:
            out.append('(fn %s)' % s[1])
        else:
            out.append('(fn %s S:%s)' % (s[1], hexs(s[2])))
    return '(L' + ''.join(' ' + o for o in out) + ')'


# ------------------------------------------------------------------ generation

def rand_rows(rng):
    return rng.choice([0, 1, 2, 2, 3, 3, 4, 4, 5, 5, 6, 6])


def rand_pool(rng):
    r = rng.random()
    if r < 0.25:   # numerically equal ints / floats, None and NaN: the equalities the statement singles out
        return rng.sample([1, 1.0, 2, 2.0, None, NAN, SNAN, 2.5, XNAN, np.int64(1), np.float64(2.0)], rng.choice([2, 3, 4]))
    if r < 0.4:    # NaN heavy: NaN objects of every identity
        return [NAN, SNAN, XNAN, rng.choice(KEYS)]
    if r < 0.5:    # infinities next to finite numbers and NaN
        return rng.sample([INF, -INF, 1, 2.5, NAN, None], rng.choice([2, 3, 4]))
    if r < 0.9:    # mixed types, few values -> many duplicates, many-to-many matches
        return rng.sample(KEYS, rng.choice([1, 1, 2, 2, 3]))
    return list(KEYS)


def gen_pair(rng, lnames, rnames, shared_extra=None):
    """two tables whose key columns lnames / rnames draw from common per-position pools"""
    nx, ny = rand_rows(rng), rand_rows(rng)
    pools = [rand_pool(rng) for _ in lnames]
    x = [(k, [rng.choice(p) for _ in range(nx)]) for k, p in zip(lnames, pools)]
    y = [(k, [rng.choice(p) for _ in range(ny)]) for k, p in zip(rnames, pools)]
    x.append(('v', [100 + i for i in range(nx)]))
    y.append(('u', [200 + i for i in range(ny)]))
    if shared_extra is None:
        shared_extra = rng.random() < 0.45
    if shared_extra:    # a same-named non-key column: resolved by `mode`
        x.append(('w', [rng.choice(VALS) for _ in range(nx)]))
        y.append(('w', [rng.choice(VALS) for _ in range(ny)]))
    if rng.random() < 0.3:
        rng.shuffle(x)
        rng.shuffle(y)
    return x, y


JOIN_MODES = ['mN', 'mN', 'mN', 'ml0', 'mlS', 'mlL', 'mr1', 'mrS', 'mrR', '(mf fst)', '(mf snd)', '(mf swap)', '(mf lst)']
XOR_MODES = ['mlS', 'mlS', 'mlS', 'ml0', 'mlL', 'mrS', 'mr1', 'mrR', 'mN', '(mf fst)']   # None / a callable mean 'l' for xor
# round k1: ANY scalar as mode, `(mv <cell atom>)`; what it means is decided by Mode.ofPy / Mode.xorOfPy of the model (theorems
# C02.mode_left_iff, mode_right_iff, mode_pair_iff, xor_mode_right_iff) and, independently, by `mode_kind` below.  Beyond the spellings
# the statement lists: True / False / 1.0 / 0.0 (python == 1 / == 0), 'Left' / 'R' / 'lhs' / 'right' (first letter, any case),
# and values that are NEITHER ('x', 2, -1, 0.25, nan, a datetime, 'else'): the pair for join, the left table for xor.
MV_VALUES = [True, False, 1.0, 0.0, 'Left', 'R', 'lhs', 'right', 'L', 'x', 'else', 2, -1, 0.25, float('nan'),
             datetime.datetime(2020, 1, 1), 'l', 'r', 0, 1, None]
MV_MODES = ['(mv %s)' % proto.enc(v) for v in MV_VALUES]


def spelling(rng, lspecs, rspecs, op_ok):
    def one(s):
        if s is None:
            return 'n'
        if len(s) == 1 and rng.random() < 0.5:
            return 'b'
        return rng.choice('lt')
    sp = 'sp:' + one(lspecs) + one(rspecs)
    if op_ok and rng.random() < 0.3:
        sp += 'o'
    return sp


def line(op, x, y, ls, rs, mode, sp):
    return '(join %s %s %s %s %s %s %s)' % (op, enc_table(x), enc_table(y), enc_specs(ls), enc_specs(rs), mode, sp)


def gen_case(rng):
    """one random call; returns (tag, line)"""
    op = 'join' if rng.random() < 0.6 else 'xor'
    mode = rng.choice(JOIN_MODES if op == 'join' else XOR_MODES)
    if rng.random() < 0.2:
        mode = rng.choice(MV_MODES)
    r = rng.random()
    nk = rng.choice([1, 1, 1, 2, 2, 3])
    names = ['a', 'b', 'c'][:nk]
    if r < 0.06:      # key lists whose NAMES interact: a name twice, names exchanged, formulas on alternating sides,
        #               non-key columns named like a key column of the other side / of the result
        k = rng.choice(['dup', 'swap', 'alt', 'lost-right', 'lost-left', 'shared-right-key'])
        if k == 'dup':        # one left column matched against two right columns (and the like)
            x, y = gen_pair(rng, ['a', 'b'], ['a', 'b'])
            ls, rs = rng.choice([(['a', 'a'], ['a', 'b']), (['a', 'b'], ['a', 'a']), (['a', 'a'], None), (['a', 'b'], ['b', 'b'])])
        elif k == 'swap':
            x, y = gen_pair(rng, ['a', 'b'], ['b', 'a'])
            ls, rs = ['a', 'b'], ['b', 'a']
        elif k == 'alt':
            x, y = gen_pair(rng, ['a', 'b'], ['a', 'b'])
            ls, rs = [('fn', 'id', 'a'), 'b'], ['a', ('fn', rng.choice(['id', 'dbl']), 'b')]
        elif k == 'lost-right':   # the right table owns a non-key column named like the left key
            x, y = gen_pair(rng, ['a'], ['k'])
            y.insert(rng.randrange(len(y) + 1), ('a', [rng.choice(VALS) for _ in range(len(y[0][1]))]))
            ls, rs = ['a'], rng.choice([['k'], [('fn', 'id', 'k')]])
        elif k == 'lost-left':    # computed left key, named right key, the left table owns a column of that name
            x, y = gen_pair(rng, ['a'], ['k'])
            x.insert(rng.randrange(len(x) + 1), ('k', [rng.choice(VALS) for _ in range(len(x[0][1]))]))
            ls, rs = [('fn', rng.choice(['id', 'dbl']), 'a')], ['k']
        else:                     # the left table owns a non-key column named like the right KEY column: combined by mode
            x, y = gen_pair(rng, ['a'], ['k'])
            x.append(('k', [rng.choice(VALS) for _ in range(len(x[0][1]))]))
            ls, rs = ['a'], ['k']
        tag = 'names-' + k
    elif r < 0.5:     # same-named key columns, rcols omitted or repeated
        x, y = gen_pair(rng, names, names)
        ls, rs = list(names), (None if rng.random() < 0.6 else list(names))
        tag = 'keyed%d' % nk
    elif r < 0.6:     # lcols omitted: the shared columns (including `w` when both have it)
        x, y = gen_pair(rng, names, names)
        ls, rs = None, None
        tag = 'common'
        if rng.random() < 0.35:   # lcols omitted, rcols GIVEN: the shared columns on the left against these names on the right
            shared = [k for k, _ in x if k in [k2 for k2, _ in y]]
            q = rng.random()
            rs = list(shared) if q < 0.6 else list(reversed(shared)) if q < 0.9 else shared[:-1]
            tag = 'common-rcols-given'
    elif r < 0.7:     # differently named key columns
        rn = ['k', 'm', 'n'][:nk]
        x, y = gen_pair(rng, names, rn)
        if rng.random() < 0.4:   # the right table also owns a column named like the left key
            y.append((names[0], [rng.choice(VALS) for _ in range(len(y[0][1]))]))
        ls, rs = list(names), list(rn)
        tag = 'renamed'
    elif r < 0.82:    # a computed key on one side
        x, y = gen_pair(rng, names, names)
        fn = rng.choice(['id', 'id', 'dbl', 'const'])
        side = rng.random() < 0.5
        j = rng.randrange(nk)
        spec = ('fn', 'const') if fn == 'const' else ('fn', fn, names[j])
        ls, rs = list(names), list(names)
        (ls if side else rs)[j] = spec
        tag = 'callable-' + fn
    elif r < 0.9:     # no key: cross product
        x, y = gen_pair(rng, [], [], shared_extra=rng.random() < 0.5)
        if rng.random() < 0.5:
            ls, rs = [], (None if rng.random() < 0.5 else [])
        else:
            ls, rs = None, None
            if any(k == 'w' for k, _ in x):   # would be joined on w: keep it a genuine cross join
                x = [c for c in x if c[0] != 'w']
        tag = 'cross'
    else:             # calls the code rejects
        x, y = gen_pair(rng, names, names)
        k = rng.random()
        if k < 0.35:
            ls, rs = list(names), list(names) + ['u']
            tag = 'err-length'
        elif k < 0.7:
            ls, rs = [('fn', 'id', 'a')] + list(names[1:]), [('fn', 'id', 'a')] + list(names[1:])
            tag = 'err-both-callable'
        else:
            ls, rs = ['zz'], None
            tag = 'err-missing-column'
    if rng.random() < 0.03:      # an operand without any column: dictable()
        if rng.random() < 0.5:
            x = []
        else:
            y = []
        tag += '-nocolumns'
    if rng.random() < 0.125 and (tag.startswith('keyed') or tag.startswith('common') or tag == 'renamed' or tag.startswith('callable-')):
        # one call in eight: the key column `a` (both sides) / `k` (right side of `renamed`) has a KEY that is not a string - the shared column of two
        # pivot results; lcols omitted, or the key itself (bare, in a list, in a tuple).  A formula names its argument: never the renamed column
        fnargs = [s_[2] for s_ in (ls or []) + (rs or []) if not isinstance(s_, str) and len(s_) > 2]
        pool = COLKEYS + ([None] if ls is None and rs is None else [])
        ka, kk = rng.sample(pool, 2)
        ren = {c: key_name(k_) for c, k_ in (('a', ka), ('k', kk)) if c not in fnargs and any(c == c2 for c2, _ in x + y)}
        x = [(ren.get(c, c), v) for c, v in x]
        y = [(ren.get(c, c), v) for c, v in y]
        ls = None if ls is None else [ren.get(s_, s_) if isinstance(s_, str) else s_ for s_ in ls]
        rs = None if rs is None else [ren.get(s_, s_) if isinstance(s_, str) else s_ for s_ in rs]
        if ren:
            tag = 'keyed-columns:' + tag
    sp = spelling(rng, ls, rs, op_ok=(ls is None and rs is None and mode in ('mN', 'mlS')))
    if mode.startswith('(mv'):
        tag = 'mode-value:' + tag
    return op + '-' + tag, line(op, x, y, ls, rs, mode, sp)


def small_tables():
    """all tables with one key column `a`, <= 2 rows, over a 6-value key universe"""
    U = [None, 1, 1.0, NAN, 'a', 2]
    out = [[('a', []), ('v', [])]]
    for k in (1, 2):
        for ks in itertools.product(U, repeat=k):
            out.append([('a', list(ks)), ('v', list(range(k)))])
    return out


EXTRA = {}


def _shape(l):
    """(some operand has a duplicated key, the call has a many-to-many match) for a keyed case - distribution evidence"""
    sx = proto.parse(l)
    if sx[4] == 'N' or any(not isinstance(s, str) for s in sx[4][1:]) or len(sx[4]) < 2:
        return None
    def keys(t, specs):
        cols = {unhex(kv[0]): kv[1][1:] for kv in t[1:]}
        names = [proto.dec_cell(a) for a in specs[1:]]
        if any(k not in cols for k in names):
            return None
        return list(zip(*[[proto.canon_cell(a) for a in cols[k]] for k in names]))
    rs = sx[5] if sx[5] != 'N' else sx[4]
    if any(not isinstance(s, str) for s in rs[1:]):
        return None
    lk, rk = keys(sx[2], sx[4]), keys(sx[3], rs)
    if lk is None or rk is None:
        return None
    cl, cr = Counter(lk), Counter(rk)
    dup = any(v > 1 for v in cl.values()) or any(v > 1 for v in cr.values())
    m2m = any(cl[k] > 1 and cr.get(k, 0) > 1 for k in cl)
    return dup, m2m


def generate(rng, tier):
    n = 1500 if tier == 'quick' else 40000
    keyed = dup = m2m = 0
    for _ in range(n):
        tag, l = gen_case(rng)
        sh = _shape(l)
        if sh is not None:
            keyed += 1
            dup += sh[0]
            m2m += sh[1]
        yield dict(tag=tag, lines=[l])
    EXTRA.update(keyed_calls=keyed, with_duplicate_keys=dup, with_many_to_many_match=m2m)
    # `_listby` itself: the ORDER of the groups and of the row ids inside them is what `pyg_base.sort` decides; join / xor
    # results are compared as multisets, so only these lines sample the assumption "sort orders the (key, row id) pairs as
    # the model's stable merge sort by cmp" directly
    for _ in range(n // 10):
        nk = rng.choice([1, 1, 2, 3])
        pools = [rand_pool(rng) for _ in range(nk)]
        rows = rng.choice([0, 1, 2, 3, 5, 8, 12])
        keys = [[rng.choice(p) for p in pools] for _ in range(rows)]
        yield dict(tag='listby%d' % nk, lines=['(join listby (L%s))' % ''.join(' (T%s)' % ''.join(' ' + cell(v) for v in k) for k in keys)])
    if tier != 'quick':
        ts = small_tables()
        for x in ts:
            for y in ts:
                y2 = [('a', y[0][1]), ('u', y[1][1])]
                yield dict(tag='exhaustive-join', lines=[line('join', x, y2, ['a'], None, 'mN', 'sp:bn')])
                yield dict(tag='exhaustive-xor', lines=[line('xor', x, y2, ['a'], None, 'mlS', 'sp:bn')])


EXHAUSTIVE = {'quick': False, 'thorough': False}

# ------------------------------------------------------------------ implementation runner


def _mk_fn(name, arg):
    if name == 'const':
        return lambda: 0
    env = {}
    body = arg if name == 'id' else '%s * 2' % arg
    exec('f = lambda %s: %s' % (arg, body), env)
    return env['f']


def dec_specs(sx, spell):
    if sx == 'N':
        return None
    out = []
    for s in sx[1:]:
        if isinstance(s, str):
            out.append(name_key(proto.dec_cell(s)))
        else:
            out.append(_mk_fn(s[1], proto.dec_cell(s[2]) if len(s) > 2 else None))
    if spell == 'b' and len(out) == 1:
        return out[0]
    if spell == 't':
        return tuple(out)
    return out


PY_MODES = {'mN': None, 'ml0': 0, 'mlS': 'l', 'mlL': 'left', 'mr1': 1, 'mrS': 'r', 'mrR': 'RHS'}
PY_FNS = {'fst': lambda l, r: l, 'snd': lambda l, r: r, 'swap': lambda l, r: (r, l), 'lst': lambda l, r: [l, r]}


def dec_mode(sx):
    if isinstance(sx, str):
        return PY_MODES[sx]
    if sx[0] == 'mv':
        return proto.dec(sx[1])
    return PY_FNS[sx[1]]


def mode_kind(sx):
    """'l' / 'r' / 'pair' / a callable: the reading of the mode argument by the docstring of join ("mode = 0/'left'/'lhs' : return
    the LHS value; 1/'right'/'rhs': RHS; callable: apply; None: the tuple"), written on the python VALUE - shares nothing with the
    Lean decoding"""
    v = dec_mode(sx)
    if callable(v):
        return v
    if isinstance(v, str):
        return {'l': 'l', 'r': 'r'}.get(v[:1].lower(), 'pair')
    if isinstance(v, (bool, int, float)) and v == 0:
        return 'l'
    if isinstance(v, (bool, int, float)) and v == 1:
        return 'r'
    return 'pair'


def dec_table(sx):
    from pyg_base import dictable
    d = {name_key(k): v for k, v in proto.dec(sx).items()}
    return dictable(d) if d else dictable()


def _tick(signum, frame):
    raise Timeout()


TIMEOUTS = [0]


def guarded(fn, seconds=2.0):
    """run fn under a *repeating* alarm: pyg_base swallows exceptions in places (try/except around as_primitive),
    a single SIGALRM can be lost inside a spinning loop.  A call normally takes well under 10 ms; the budget
    shrinks after the first few expiries so that a tree on which many calls spin is still reported quickly."""
    # CPU time (ITIMER_VIRTUAL), not wall-clock: a spinning merge loop burns CPU whatever the load on the machine, and a loaded
    # machine must not turn a slow call into a "did not return"; wall-clock backstop of 30 s
    old = signal.signal(signal.SIGVTALRM, _tick)
    old_r = signal.signal(signal.SIGALRM, _tick)
    signal.setitimer(signal.ITIMER_VIRTUAL, seconds if TIMEOUTS[0] < 3 else 0.25, 0.05)
    signal.setitimer(signal.ITIMER_REAL, 30.0, 0.05)
    try:
        return fn()
    except Timeout:
        TIMEOUTS[0] += 1
        raise
    finally:
        signal.setitimer(signal.ITIMER_VIRTUAL, 0)
        signal.setitimer(signal.ITIMER_REAL, 0)
        signal.signal(signal.SIGVTALRM, old)
        signal.signal(signal.SIGALRM, old_r)


def enc_dictable(d):
    return '(D' + ''.join(' (%s %s)' % (hexs(key_name(k)), enc(list(v))) for k, v in d.items()) + ')'


def call_impl(sx):
    """returns (result dictable, x, y) after the call"""
    op, x, y = sx[1], dec_table(sx[2]), dec_table(sx[3])
    spell = sx[7] if len(sx) > 7 else 'sp:ll'
    sp = spell[3:]
    ls, rs = dec_specs(sx[4], sp[0]), dec_specs(sx[5], sp[1])
    mode = dec_mode(sx[6])
    if 'o' in sp:
        res = guarded(lambda: x * y if op == 'join' else x / y)
    elif op == 'join':
        res = guarded(lambda: x.join(y, ls, rs, mode))
    else:
        res = guarded(lambda: x.xor(y, ls, rs, mode))
    return res, x, y


def run_line(state, sx):
    op = sx[1]
    if op == 'listby':
        from pyg_base import dictable
        keys = proto.dec(sx[2])
        nk = len(keys[0]) if keys else 1
        names = ['k%d' % c for c in range(nk)]
        d = dictable({nm: [k[c] for k in keys] for c, nm in enumerate(names)})
        ks, ids = guarded(lambda: tuple(d._listby(tuple(names))))
        return 'ok (L%s)' % ''.join(' (T %s %s)' % (enc(k), enc(list(i))) for k, i in zip(ks, ids))
    if op not in ('join', 'xor'):
        return 'bad-op'
    res, x, y = call_impl(sx)
    return 'ok (T %s %s %s)' % (enc_dictable(res), enc_dictable(x), enc_dictable(y))


# ------------------------------------------------------------------ comparison

def table_rows(sx):
    """(D (col (L cells))*) -> (sorted column names, Counter of canonical rows, row count) ; None if not rectangular"""
    cols = sorted((unhex(kv[0]), [proto.canon(c) for c in kv[1][1:]]) for kv in sx[1:])
    ns = set(len(v) for _, v in cols)
    if len(ns) > 1:
        return None
    n = ns.pop() if ns else 0
    rows = Counter(tuple(v[i] for _, v in cols) for i in range(n))
    return [k for k, _ in cols], rows, n


def describe(rows):
    return sorted(rows.elements(), key=repr)[:8]


def compare(case, i, line, ir, mr):
    if ir == 'timeout':
        return 'the call did not return within its time budget (2 s; a call normally takes milliseconds) (model: %s)' % (mr[:80],)
    if mr == 'bad-op' or mr == 'no-driver':
        return ('divergence', 'model does not cover this call')
    if ir.startswith('err') or mr.startswith('err'):
        if ir == mr:
            return None
        if ir.startswith('err') and mr.startswith('err'):
            # both reject the call (a key column that does not exist, specs of different lengths ..): WHICH exception is raised is not
            # part of the statement (a non-string key that is no column is a 'formula' for the code - ValueError - and a missing column
            # for the model - KeyError; found by the thorough tier on the unchanged tree after the non-string keys were generated)
            return None
        if ir.startswith('err') and mr.startswith('ok'):
            return 'the call raised (%s) where the statement prescribes a table (model: %s)' % (ir, mr[:120])
        return ('divergence', 'implementation %s, model %s' % (ir[:120], mr[:120]))
    if not ir.startswith('ok'):
        return 'implementation reply %s' % ir[:120]
    a, b = proto.parse(ir[3:]), proto.parse(mr[3:])
    if line.startswith('(join listby'):
        # group order and row-id order are not part of the statement (multisets): a difference is a divergence
        ga = [(proto.canon(g[1]), g[2]) for g in a[1:]]
        gb = [(proto.canon(g[1]), g[2]) for g in b[1:]]
        return None if ga == gb else ('divergence', '_listby groups %s, model %s' % (proto.render(a)[:200], proto.render(b)[:200]))
    if not (isinstance(a, list) and len(a) == 4 and isinstance(b, list) and len(b) == 4):
        return 'the call returned something that is not a table: %s (model: %s)' % (ir[:160], mr[:160])
    # operands unchanged: the model returns its inputs as given
    for k, name in ((2, 'left'), (3, 'right')):
        if proto.canon(a[k], numeric=False) != proto.canon(b[k], numeric=False):     # type-strict: an int must stay an int
            return 'the %s operand was changed by the call' % name
    ta, tb = table_rows(a[1]), table_rows(b[1])
    if ta is None:
        return 'result is not rectangular'
    if ta[0] != tb[0]:
        return 'result columns %s, model %s' % (ta[0], tb[0])
    if ta[1] != tb[1]:
        return 'result rows (as a multiset) differ: %d rows %s, model %d rows %s' % (ta[2], describe(ta[1] - tb[1]), tb[2], describe(tb[1] - ta[1]))
    # model and code agree: now the statement itself, on the implementation's reply, against a reference that shares nothing
    # with the model (nested loops, the property's own key equality, every column of both operands)
    return statement_check(proto.parse(line), a[1])


def nontrivial(line, reply):
    if not reply.startswith('ok'):
        return False
    sx = proto.parse(line)
    if sx[1] == 'listby':
        return len(sx[2]) - 1 >= 2
    def nrows(t):
        return max([len(kv[1]) - 1 for kv in t[1:]] or [0])
    return max(nrows(sx[2]), nrows(sx[3])) >= 2


# ------------------------------------------------------------------ shrinking: drop rows / columns of the operands

def shrink(case, still_fails):
    line0 = case['lines'][0]
    sx = proto.parse(line0)
    improved = True
    budget = [150]

    def attempt(new):
        budget[0] -= 1
        if budget[0] < 0:
            return False
        c = dict(case, lines=[proto.render(new)])
        try:
            return still_fails(c)
        except Exception:
            return False
    while improved and budget[0] > 0:
        improved = False
        for ti in (2, 3):
            t = sx[ti]
            n = max([len(kv[1]) - 1 for kv in t[1:]] or [0])
            for r in range(n - 1, -1, -1):
                new_t = ['D'] + [[kv[0], kv[1][:1 + r] + kv[1][2 + r:]] for kv in t[1:]]
                new = sx[:ti] + [new_t] + sx[ti + 1:]
                if attempt(new):
                    sx, improved = new, True
                    break
            if improved:
                break
            for ci in range(1, len(t)):
                new_t = t[:ci] + t[ci + 1:]
                new = sx[:ti] + [new_t] + sx[ti + 1:]
                if attempt(new):
                    sx, improved = new, True
                    break
            if improved:
                break
    return dict(case, lines=[proto.render(sx)])


# ------------------------------------------------------------------ the statement: a reference join / xor

DROPPED = 'is absent from the result: it is named like the result key column'


def keq(a, b):
    """key equality of the property statement (a datetime.date is the datetime of its midnight: the library normalises
    keys with as_primitive before comparing, C07)"""
    if isinstance(a, datetime.date) and not isinstance(a, datetime.datetime):
        a = datetime.datetime(a.year, a.month, a.day)
    if isinstance(b, datetime.date) and not isinstance(b, datetime.datetime):
        b = datetime.datetime(b.year, b.month, b.day)
    fa = isinstance(a, (int, float, np.integer, np.floating)) and not isinstance(a, (bool, np.bool_))
    fb = isinstance(b, (int, float, np.integer, np.floating)) and not isinstance(b, (bool, np.bool_))
    if fa and fb:
        if math.isnan(a) or math.isnan(b):
            return math.isnan(a) and math.isnan(b)
        return a == b
    if fa or fb:
        return False
    if a is None or b is None:
        return a is None and b is None
    return type(a) == type(b) and a == b


def ckey(v):
    """canonical token of a key cell: equal under `keq` <=> same token (ints and floats by value, dates as datetimes)"""
    return proto.canon_cell(enc(v), numeric=True)


def cval(v):
    """canonical token of any other cell: type-strict (an int carried over must stay an int; numpy / NaN spellings merge)"""
    return proto.canon(proto.parse(enc(v)), numeric=False)


class _Raises(Exception):
    pass


def _ref_fn(name):
    if name == 'const':
        return lambda v: 0
    if name == 'id':
        return lambda v: v
    def dbl(v):
        if v is None or isinstance(v, datetime.date):
            raise _Raises()
        return v * 2
    return dbl


def call_shape(sx):
    """what the call line says, decoded without the library: dict with the operand columns (python values), the key specs
    as written (`N` resolved to the shared columns), the result key names and the name collisions; None when the statement
    prescribes no table for the call (lengths differ, a formula on both sides, a missing column)"""
    xt = [(unhex(kv[0]), [proto.dec_cell(c) for c in kv[1][1:]]) for kv in sx[2][1:]]
    yt = [(unhex(kv[0]), [proto.dec_cell(c) for c in kv[1][1:]]) for kv in sx[3][1:]]
    xc, yc = [k for k, _ in xt], [k for k, _ in yt]
    def specs(s):
        return [proto.dec_cell(e) if isinstance(e, str) else (e[1], proto.dec_cell(e[2]) if len(e) > 2 else None) for e in s[1:]]
    ls = [k for k in xc if k in yc] if sx[4] == 'N' else specs(sx[4])
    rs = list(ls) if sx[5] == 'N' else specs(sx[5])
    if len(ls) != len(rs):
        return None
    cols = []
    for l, r in zip(ls, rs):
        if isinstance(l, str):
            cols.append(l)
        elif isinstance(r, str):
            cols.append(r)
        elif sx[1] == 'xor':
            cols.append(None)     # a formula on both sides: fine for xor, which names no result column
        else:
            return None
    lnames, rnames = [l for l in ls if isinstance(l, str)], [r for r in rs if isinstance(r, str)]
    if any(k not in xc for k in lnames) or any(k not in yc for k in rnames):
        return None
    nx, ny = len(xt[0][1]) if xt else 0, len(yt[0][1]) if yt else 0
    if nx and any(not isinstance(l, str) and l[1] is not None and l[1] not in xc for l in ls):
        return None     # the formula's argument is not a column: TypeError on the first row
    if ny and any(not isinstance(r, str) and r[1] is not None and r[1] not in yc for r in rs):
        return None
    return dict(x=dict(xt), y=dict(yt), xc=xc, yc=yc, ls=ls, rs=rs, cols=cols, lnames=lnames, rnames=rnames,
                nx=nx, ny=ny,
                # a column of one side that is NOT that side's key but is named like a key column of the result:
                # the statement wants it in the result, a table cannot hold two columns of one name
                lost_x=[k for k in xc if k in cols and k not in lnames],
                lost_y=[k for k in yc if k in cols and k not in rnames])


def row_keys(t, n, specs):
    """the key tuple of every row (python values); raises _Raises when a formula raises"""
    out = []
    for i in range(n):
        key = []
        for s in specs:
            if isinstance(s, str):
                key.append(t[s][i])
            else:
                key.append(_ref_fn(s[0])(t[s[1]][i] if s[1] is not None else None))
        out.append(tuple(key))
    return out


def ref_mode(m):
    k = mode_kind(m)
    if callable(k):
        return k
    return {'pair': lambda l, r: (l, r), 'l': lambda l, r: l, 'r': lambda l, r: r}[k]


def impl_table(sx):
    """(D (col (L cells))*) of a reply -> {name: [parsed cells]}"""
    return {unhex(kv[0]): kv[1][1:] for kv in sx[1:]}


def statement_check(sx, res):
    """the property statement evaluated on the table `res` (parsed reply) that the implementation returned for the call
    `sx`: None, or the sentence that fails"""
    sh = call_shape(sx)
    if sh is None:
        return 'the call returned a table although it names a missing column / mismatching key lists'
    try:
        lk, rk = row_keys(sh['x'], sh['nx'], sh['ls']), row_keys(sh['y'], sh['ny'], sh['rs'])
    except _Raises:
        return 'the call returned a table although a key formula raises on some row'
    nx, ny, cols = sh['nx'], sh['ny'], sh['cols']
    match = [[all(keq(p, q) for p, q in zip(lk[i], rk[j])) for j in range(ny)] for i in range(nx)]
    got = impl_table(res)
    ns = set(len(v) for v in got.values())
    if len(ns) > 1:
        return 'result is not rectangular'
    n = ns.pop() if ns else 0
    if sx[1] == 'xor':
        right = mode_kind(sx[6]) == 'r'
        if not cols:
            want_t, ids = sh['x'], list(range(nx))
            names = sh['xc']
        elif right:
            want_t, names = sh['y'], sh['yc']
            ids = [j for j in range(ny) if not any(match[i][j] for i in range(nx))]
        else:
            want_t, names = sh['x'], sh['xc']
            ids = [i for i in range(nx) if not any(match[i])]
        if sorted(got) != sorted(names):
            return 'xor returned the columns %s, the operand has %s' % (sorted(got), sorted(names))
        names = sorted(names)
        want = Counter(tuple(cval(want_t[k][i]) for k in names) for i in ids)
        have = Counter(tuple(proto.canon(got[k][p], numeric=False) for k in names) for p in range(n))
        if want != have:
            return 'xor rows %s, the rows of the operand whose key matches no row of the other %s' % (describe(have - want), describe(want - have))
        return None
    # ---- join
    if len(set(cols)) != len(cols):
        # one name for two key columns: the table can show only one of them; check the remaining columns
        keycols = []
    else:
        keycols = list(cols)
    both = [k for k in sh['xc'] if k in sh['yc'] and k not in cols]
    only_x = [k for k in sh['xc'] if k not in sh['yc'] and k not in cols]
    only_y = [k for k in sh['yc'] if k not in sh['xc'] and k not in cols]
    # a key column of the right table whose name is not a result key name may be carried or not (the key is in the result
    # under the left name): checked when present
    optional = [k for k in only_y if k in sh['rnames']]
    required = set(cols) | set(both) | set(only_x) | set(k for k in only_y if k not in optional)
    missing = sorted(required - set(got))
    if missing:
        return 'column(s) %s of the operands are missing from the result (columns %s)' % (missing, sorted(got))
    extra = sorted(set(got) - required - set(optional))
    if extra:
        return 'the result has column(s) %s that neither operand has' % (extra,)
    mode = ref_mode(sx[6])
    names = sorted(set(keycols) | set(both) | set(only_x) | set(k for k in only_y if k in got))
    def want_row(i, j):
        row = []
        for k in names:
            if k in keycols:
                row.append(ckey(lk[i][cols.index(k)]))
            elif k in both:
                row.append(cval(mode(sh['x'][k][i], sh['y'][k][j])))
            elif k in only_x:
                row.append(cval(sh['x'][k][i]))
            else:
                row.append(cval(sh['y'][k][j]))
        return tuple(row)
    want = Counter(want_row(i, j) for i in range(nx) for j in range(ny) if match[i][j])
    have = Counter(tuple(proto.canon(got[k][p], numeric=(k in keycols)) for k in names) for p in range(n))
    if want != have:
        return ('joined rows (columns %s) are not the key-equal pairs of rows with every column of both sides: unexpected %s, '
                'missing %s' % (names, describe(have - want), describe(want - have)))
    if sh['lost_x'] or sh['lost_y']:
        return 'non-key column %s of the %s operand %s %r' % (
            (sh['lost_x'] + sh['lost_y'])[0], 'left' if sh['lost_x'] else 'right', DROPPED, cols)
    return None


def dropped_column_class(f):
    """known finding K4: the call's key specs give a result key column a name that a NON-key column of the left table
    (computed left key, named right key) or of the right table (differently named right key) also has; the rest of the
    statement held on this call (the sentence is produced only after every other check passed)"""
    if DROPPED not in f.detail or not f.case.get('lines'):
        return False
    sx = proto.parse(f.case['lines'][getattr(f, 'line_index', 0) or 0])
    sh = call_shape(sx)
    return sx[1] == 'join' and sh is not None and bool(sh['lost_x'] or sh['lost_y'])


# ------------------------------------------------------------------ laws: the statement, checked on the implementation alone

def laws(rng, tier, ctx):
    """the statement on the implementation alone, on fresh inputs of every generated kind (named / renamed / computed keys,
    no key, shared non-key columns under every mode, rejected calls): the reference join / xor of `statement_check`, and for
    keyed calls the left-join partition: every row of x is in exactly one of x/y (once) and the matched part of x*y"""
    n = 400 if tier == 'quick' else 6000
    count = 0
    for _ in range(n):
        tag, l = gen_case(rng)
        case = dict(tag='law-' + tag, lines=[l])
        sx = proto.parse(l)
        sh = call_shape(sx)
        valid = sh is not None
        if valid:
            try:
                row_keys(sh['x'], sh['nx'], sh['ls']), row_keys(sh['y'], sh['ny'], sh['rs'])
            except _Raises:
                valid = False
        count += 1
        try:
            res, dx, dy = call_impl(sx)
        except Timeout:
            yield Finding('violation', case, 'the call did not return within its time budget')
            continue
        except Exception as e:
            if valid:
                yield Finding('violation', case, 'the call raised %s where the statement prescribes a table' % type(e).__name__)
            continue
        if not isinstance(res, pyg_base.dictable):
            yield Finding('violation', case, 'the call returned a %s' % type(res).__name__)
            continue
        if not valid:
            yield Finding('divergence', case, 'the call returned a table although its key specs are inconsistent')
            continue
        d = statement_check(sx, proto.parse(enc_dictable(res)))
        if d is not None:
            f = Finding('violation', case, 'line 0: ' + d)
            f.line_index = 0
            yield f
            if DROPPED not in d:
                continue
            # known finding K1 (a column named like a result key is dropped): every OTHER check passed, and the left-join partition below
            # does not depend on the dropped column - it is checked on these instances too
        # partition (keyed calls; `v` = 100 + i identifies the rows of x)
        if not sh['cols'] or None in sh['cols'] or 'v' not in sh['x'] or 'v' in sh['cols']:
            continue
        ls, rs = dec_specs(sx[4], 'l'), dec_specs(sx[5], 'l')
        try:
            jn = guarded(lambda: dx.join(dy, ls, rs, 'l'))
            xo = guarded(lambda: dx.xor(dy, ls, rs))
        except Timeout:
            yield Finding('violation', case, 'join / xor did not return within its time budget')
            continue
        if (len(jn) and 'v' not in jn.keys()) or (len(xo) and 'v' not in xo.keys()):
            yield Finding('violation', case, 'x*y / x/y lost the non-key column v of x')
            continue
        inj = Counter(jn['v']) if len(jn) else Counter()
        inx = Counter(xo['v']) if len(xo) else Counter()
        lk, rk = row_keys(sh['x'], sh['nx'], sh['ls']), row_keys(sh['y'], sh['ny'], sh['rs'])
        for i in range(sh['nx']):
            m = sum(1 for j in range(sh['ny']) if all(keq(p, q) for p, q in zip(lk[i], rk[j])))
            if inj[100 + i] != m or inx[100 + i] != (1 if m == 0 else 0):
                yield Finding('violation', case, 'x*y + x/y is not the left join: row %d of x has %d matching rows of y, occurs %d times '
                              'in x*y and %d times in x/y' % (i, m, inj[100 + i], inx[100 + i]))
                break
    # OUTSIDE the quantifier (keys are drawn from scalars): computed keys that are lists of DIFFERENT lengths.  pyg_base.sort orders them natively
    # (lexicographic), the merge loop compares them with cmp (length first): the call loses pairs.  Recorded in the evidence, not a finding; the Lean
    # side states it (C02.merge_over_native_order_loses_pair vs model_join_finds_pair, join_keys_native_agree for the keys of the quantifier).
    try:
        from pyg_base import dictable
        f = lambda a: [3] if a == 1 else [1, 2]      # noqa: E731
        x, y = dictable(a=[1, 2], v=[10, 20]), dictable(k=[[3]], u=[5])
        j = with_timeout(lambda: x.join(y, f, 'k'), 5)
        o = with_timeout(lambda: x.xor(y, f, 'k'), 5)
        EXTRA['container_keys_of_unequal_length (outside the quantifier)'] = (
            'join on the computed keys [3] / [1,2] against [[3]]: %d row(s) (the relational join has 1), xor keeps %d row(s) (the anti-join has 1)' % (len(j), len(o)))
    except Exception as e:
        EXTRA['container_keys_of_unequal_length (outside the quantifier)'] = 'probe raised %s' % type(e).__name__
    # datetime-like keys the wire cannot spell (review 4 v1 item 5): pd.Timestamp, pd.NaT, np.datetime64 (incl. NaT) beside datetimes, None and numpy
    # floats.  cceb13a / a949734 / 7a44481 changed cmp / sort for exactly these; here join / xor are checked on the implementation alone against nested
    # loops over the NORMALISED keys (a Timestamp / datetime64 is the datetime of its instant, every NaT the one missing datetime - not None)
    import pandas as pd
    NAT = ('NaT',)
    def norm(k):
        if k is pd.NaT or (isinstance(k, np.datetime64) and np.isnat(k)):
            return NAT
        if isinstance(k, pd.Timestamp):
            return k.to_pydatetime()
        if isinstance(k, np.datetime64):
            return k.astype('datetime64[us]').astype(datetime.datetime)
        return k
    def nkeq(a, b):
        return (a is NAT and b is NAT) if (a is NAT or b is NAT) else keq(a, b)
    def pool():
        return [pd.Timestamp('2020-01-01'), D(2020, 1, 1), pd.NaT, np.datetime64('NaT'), np.datetime64('2020-01-02'), pd.Timestamp('2020-01-02'),
                D(2020, 1, 2), None, np.float32(0.5), 0.5, float('nan'), 1]
    for _ in range(60 if tier == 'quick' else 1500):
        ks = rng.sample(pool(), rng.choice([2, 3, 4, 6]))
        nx, ny = rng.choice([1, 2, 3, 5, 8]), rng.choice([1, 2, 3, 5, 8])
        xa, ya = [rng.choice(ks) for _ in range(nx)], [rng.choice(ks) for _ in range(ny)]
        case = dict(tag='law-datetime-like-keys', lines=['(python: x = dictable(a = %r, v = range); y = dictable(a = %r, u = range); x.join(y, "a"); x.xor(y, "a"))' % (xa, ya)])
        count += 1
        try:
            x, y = pyg_base.dictable(a=list(xa), v=list(range(nx))), pyg_base.dictable(a=list(ya), u=list(range(ny)))
            jn = guarded(lambda: x.join(y, 'a'))
            xo = guarded(lambda: x.xor(y, 'a'))
        except Timeout:
            yield Finding('violation', case, 'join / xor did not return within its time budget')
            continue
        except Exception as e:
            yield Finding('violation', case, 'join / xor raised %s: %s' % (type(e).__name__, str(e)[:80]))
            continue
        want = Counter((i, j) for i in range(nx) for j in range(ny) if nkeq(norm(xa[i]), norm(ya[j])))
        have = Counter(zip(jn['v'], jn['u'])) if len(jn) else Counter()
        if want != have:
            yield Finding('violation', case, 'joined (v, u) pairs %s, the key-equal pairs are %s' % (sorted(have.elements())[:8], sorted(want.elements())[:8]))
            continue
        wx = [i for i in range(nx) if not any(nkeq(norm(xa[i]), norm(ya[j])) for j in range(ny))]
        if sorted(xo['v'] if len(xo) else []) != wx:
            yield Finding('violation', case, 'x / y keeps the rows %s of x, the rows without a match are %s' % (sorted(xo['v'] if len(xo) else []), wx))
    yield count


MATCHERS = {'join_drops_column_named_like_key': dropped_column_class}
