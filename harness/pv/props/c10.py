"""C10 - drange enumerates exactly t0, t0+bump, ... up to t1 for every kind of bump.

Protocol (model name `drange`; instants are microseconds since 0001-01-01, plain integer atoms):
  (drange run t0 t1 <bump>)     drange(t0, t1, bump);  bump ::= N | (int n) | (td <microseconds>) | (p <hex of the period string>)
  (drange crun t0 t1 <bump>)    Calendar(...).drange(t0, t1, bump) for a bump that is not a 'kb' string (delegates to drange)
  (drange bump t <hex>)         dt_bump(t, period string) - ties the model's local dt_bump to the real one
"""
import datetime
import numpy as np
from .. import proto
from ..proto import us2dt, dt2us, hexs, unhex
from ..engine import Finding, with_timeout, Timeout

ID = 'C10'
TITLE = 'drange enumerates exactly t0, t0+bump, ... up to t1 for every kind of bump'
LEAN_FILES = ['Basic', 'Civil', 'DRange', 'DRangeDriver', 'DateRange', 'DateParse', 'DRangeLemmas', 'CivilLemmas', 'CivilGreg', 'DRangeMonth', 'DRangeBump', 'DRangeBday', 'C10',
              # the step is tied to the C09 model of dt_bump and the Gregorian model of C04/C09:
              'Greg', 'GenTypes', 'Bump', 'PygGen', 'Sweep', 'GregLemmas', 'GregPeriod', 'BumpLemmas', 'MonthLemmas', 'TokenLemmas', 'C09']
GENERATED = ['PygGen.Ym', 'PygGen.BDay', 'PygGen.Tables']
RULE = ('distinct (t0, t1, bump) requests on which drange returned a list of at least two instants or raised ValueError '
        'for a bump pointing away from t1; dt_bump self-test lines are not counted')
TRUSTED = ['correspondence harness (pv.engine, pv.proto) and generators of pv.props.c10',
           'Lean driver parser/printer and period tokenizer (PygModel/Basic.lean, DRangeDriver.lean, DRange.parsePeriod)']
ASSUMPTIONS = ['dateutil.rrule(freq, interval=k>0, dtstart, until) enumerates dtstart + i*k units while <= until, from a dtstart without microseconds (drange puts the microseconds of t0 back, fix F14) (month-based units: day of month <= 28, time of day kept)',
               'datetime arithmetic agrees with integer microsecond arithmetic; CPython datetime ordinal/field arithmetic behaves as PygModel/Greg.lean (PygModel/Civil.lean is PROVED equal to Greg; still sampled through the bump op)',
               'days of month > 28 with month-based single periods are outside the statement; a ZERO bump (0, timedelta(0), \'0d\', \'0b\', '
               '\'0m\' ...) with t0 != t1 is inside: no strictly monotone list starting at t0 exists, so ValueError is demanded (F16: \'0b\')']

D = datetime.datetime
TD = datetime.timedelta
DAY = TD(1)
TMIN = D(1900, 1, 1)
UNIT_TD = dict(d=TD(1), w=TD(7), h=TD(hours=1), n=TD(minutes=1), s=TD(seconds=1))
MIXED = ['1m-30d', '1m-4w', '1b-1d', '-1m30d', '1d-1b', '1y-12m', '1q-3m1d', '-1w6d', '2d-1b']
COMPOUNDS = ['1w1d', '1m1d', '1y1m', '1m-1d', '2d12h', '1h30n', '1q1m', '1b1d', '1m1b', '2b1d', '1y1q1m1w1d', '1d1h1n1s', '3d-1h', '1n30s',
             '1w-1b', '2w1b']


def rand_start(rng, midnight, dom28=False):
    y = rng.choice([1900, 1999, 2000, 2019, 2020, 2024, 2100, 2250]) if rng.random() < 0.5 else rng.randrange(1901, 2290)
    m = rng.randrange(1, 13)
    if dom28:
        d = rng.randrange(1, 29)
    else:
        d = rng.randrange(1, 29) if rng.random() < 0.7 else rng.choice([29, 30, 31])
        while True:
            try:
                D(y, m, d)
                break
            except ValueError:
                d -= 1
    t = D(y, m, d)
    if not midnight:
        t += TD(hours=rng.randrange(0, 24), minutes=rng.choice([0, 0, 15, 30, 59]), seconds=rng.choice([0, 0, 0, 7]))
        if rng.random() < 0.25:     # microsecond endpoints (rrule drops the microseconds of dtstart: defect F12)
            t += TD(microseconds=rng.choice([1, 250000, 500000, 999999]))
    return t


NOMINAL = dict(s=1, n=60, h=3600, d=86400, b=120960, w=604800, m=2629800, q=7889400, y=31557600)   # seconds, roughly


def period_parts(s):
    parts, cur = [], ''
    for ch in s:
        cur += ch
        if ch.isalpha():
            parts.append(cur)
            cur = ''
    return parts


def neg_str(s):
    """flip the sign of every part of a period string"""
    out, i = '', 0
    parts = []
    cur = ''
    for ch in s:
        cur += ch
        if ch.isalpha():
            parts.append(cur)
            cur = ''
    for p in parts:
        out += p[1:] if p[0] == '-' else '-' + p.lstrip('+')
    return out


def respell(rng, n, u):
    """'<n><u>' now and then in upper case, with a '+' sign, with leading zeros (the period regex admits all three; review t3 §C10 2.5)"""
    r = rng.random()
    s = '%d%s' % (n, u)
    if r < 0.1:
        s = s.upper()
    elif r < 0.17 and n > 0:
        s = '+' + s
    elif r < 0.24:
        s = '%s%03d%s' % ('-' if n < 0 else '', abs(n), u)
    return s


def rand_spec(rng):
    """one request: dict(kind, t0, t1, bump) with datetimes and the python bump object"""
    r = rng.random()
    back = rng.random() < 0.45
    sgn = -1 if back else 1
    if r < 0.16:      # integer bumps, whole days apart, possibly intraday start
        n = rng.choice([1, 1, 2, 3, 5, 7, 10, 30])
        t0 = rand_start(rng, rng.random() < 0.6)
        span = rng.choice([0, 1, 2, n, n + 1, 5 * n, 5 * n - 1, rng.randrange(1, 60), rng.randrange(60, 1100)])
        kind, bump = 'int', sgn * n
        if rng.random() < 0.15:
            kind, bump = 'none', None
        elif rng.random() < 0.3:      # the same integer as a numpy scalar of any width (C10-D1: `(t1-t0).days * np.int8(1)` overflowed beyond 127 days)
            # (review5 w3 §2-4: since e030b7f is_int admits np.longlong and the unsigned kinds too - a positive bump is now and then one of those)
            pool = [np.int8, np.int16, np.int32, np.int64, np.longlong] + ([np.uint8, np.uint16, np.uint32, np.uint64, np.ulonglong] if sgn > 0 else [])
            kind, bump = 'int-np', rng.choice(pool)(sgn * n)
        t1 = t0 + sgn * span * DAY
    elif r < 0.30:    # timedelta, any endpoints
        unit = rng.choice([TD(1), TD(1), TD(hours=1), TD(hours=4), TD(minutes=15), TD(seconds=90), TD(days=1, hours=12), TD(microseconds=250000), TD(7)])
        k = rng.choice([1, 1, 2, 3])
        t0 = rand_start(rng, rng.random() < 0.4)
        steps = rng.choice([0, 1, 2, 3, 10, rng.randrange(1, 400)])
        t1 = t0 + sgn * (steps * k * unit + rng.choice([TD(0), TD(0), unit * k / 2, TD(seconds=1)]))
        kind, bump = 'td', sgn * k * unit
        # the same duration as numpy's timedelta (what a difference of np.datetime64 / an element of a timedelta64 array is; C09-D1 rules it a
        # timedelta for dt_bump, so does C10 - review5 w3 §2-2, defect C10-D2: drange returned None): spec['np'] keeps the python timedelta
        np_td_flag = rng.random() < 0.25
    elif r < 0.52:    # single period with a fixed-length unit
        u = rng.choice('dwhns' + 'dw')
        k = rng.choice([1, 1, 2, 3, 5, 12])
        intraday = u in 'hns' or rng.random() < 0.3
        t0 = rand_start(rng, not intraday)
        steps = rng.choice([0, 1, 2, 3, 10, rng.randrange(1, 300 if u in 'dw' else 600)])
        extra = rng.choice([TD(0), TD(0), UNIT_TD[u] * k / 2 if u != 's' else TD(0), TD(seconds=1)])
        if steps >= 1 and rng.random() < 0.2:     # t1 a fraction of a second short of / beyond the grid point (F14: the until side)
            extra = TD(microseconds=rng.choice([-1, -300000, 300000]))
        t1 = t0 + sgn * (steps * k * UNIT_TD[u] + extra)
        s = '%d%s' % (sgn * k, u)
        if rng.random() < 0.15:
            s = s.upper()
        if sgn > 0 and rng.random() < 0.1:
            s = '+' + s
        kind, bump = 'single-' + u, s
    elif r < 0.68:    # month-based single periods: midnight, day of month <= 28
        u = rng.choice('mqy')
        k = rng.choice([1, 1, 2, 3, 5, 11, 13])
        t0 = rand_start(rng, True, dom28=True)
        months = dict(m=1, q=3, y=12)[u] * k
        steps = rng.choice([0, 1, 2, 3, rng.randrange(1, 40)])
        t1 = t0 + sgn * TD(days=int(steps * months * 30.44) + rng.choice([0, 1, 15, 31]))
        kind, bump = 'single-' + u, respell(rng, sgn * k, u)
    elif r < 0.84:    # business days, whole days apart
        k = rng.choice([1, 1, 1, 2, 3, 5, 7])
        t0 = rand_start(rng, rng.random() < 0.8)
        span = rng.choice([0, 0, 1, 2, 3, 6, 7, 13, rng.randrange(1, 60), rng.randrange(60, 1100)])     # 0: t0 == t1, also on a weekend day
        t1 = t0 + sgn * span * DAY
        kind, bump = 'b', respell(rng, sgn * k, 'b')
    elif r < 0.87:    # mixed-sign compound period strings: the step may turn round later on (F15), any units
        if rng.random() < 0.25:
            s = rng.choice(MIXED)
        else:
            ks = [rng.choice([1, 1, 2, 3, 4, 5, 30]) * sg for sg in rng.sample([1, -1, rng.choice([1, -1])], rng.choice([2, 3]))]
            if all(k > 0 for k in ks) or all(k < 0 for k in ks):
                ks[0] = -ks[0]
            s = ''.join('%d%s' % (k, rng.choice('dwmqyhnsb')) for k in ks)
        t0 = rand_start(rng, True, dom28=True)
        span = rng.choice([1, 9, 40, 124, rng.randrange(1, 500)]) * DAY
        # keep the list short: at most ~1500 steps of the net movement of one bump
        net = abs(sum(int(p[:-1]) * NOMINAL[p[-1]] for p in period_parts(s)))
        if any(p[-1] == 'b' for p in period_parts(s)):
            # k business days are k .. k + 2 * (k // 5 + 1) calendar days, depending on the weekday: '3b-3d' stands still from a Monday, so
            # '2s3b-3d' moves by two seconds a step there (a 124-day span was 5 million steps: implementation timeout, thorough seed 0)
            lo = hi = 0
            for p in period_parts(s):
                k = int(p[:-1])
                if p[-1] == 'b':
                    a, b = abs(k) * 86400, (abs(k) + 2 * (abs(k) // 5 + 1)) * 86400
                    lo, hi = (lo + a, hi + b) if k > 0 else (lo - b, hi - a)
                else:
                    lo, hi = lo + k * NOMINAL[p[-1]], hi + k * NOMINAL[p[-1]]
            net = 1 if lo <= 0 <= hi else min(abs(lo), abs(hi))
        if net and span > 1500 * net * TD(seconds=1):
            span = 1500 * net * TD(seconds=1)
        t1 = t0 + sgn * span + (TD(0) if rng.random() < 0.7 or span < DAY else sgn * TD(hours=5))
        kind, bump = 'mixed', s
    else:             # compound period strings
        s = rng.choice(COMPOUNDS)
        t0 = rand_start(rng, True, dom28=True)
        if 'm' in s or 'q' in s or 'y' in s:
            span = rng.choice([0, 31, 100, rng.randrange(1, 1500)])
        elif 'w' in s or 'd' in s or 'b' in s:
            span = rng.choice([0, 1, 9, rng.randrange(1, 600)])
        else:
            span = rng.choice([0, 1, 2])
        t1 = t0 + sgn * span * DAY + (TD(0) if rng.random() < 0.7 else sgn * TD(hours=5))
        kind, bump = 'compound', (neg_str(s) if back else s)
    if rng.random() < 0.02:     # a bump that stands still: every spelling of zero, either side, weekday or weekend start (F16: '0b')
        bump = rng.choice([0, TD(0), '0d', '0w', '0h', '0n', '0s', '0m', '0q', '0y', '0b', '0b', '+0b', '-0b', '0B', '00b', '0d0h'])
        t0 = rand_start(rng, True, dom28=True)
        t1 = t0 + sgn * rng.choice([0, 1, 2, 3, 9, 30, rng.randrange(1, 400)]) * DAY
        kind = 'zero'
    if t1 < D(1850, 1, 1) or t1 > D(2350, 1, 1):
        t1 = t0
    if t0 == t1:
        kind = 'equal-' + kind.split('-')[0]
    elif kind in ('mixed', 'zero'):
        pass
    elif rng.random() < 0.12 and bump is not None:   # point the bump away from t1
        kind = 'away-' + kind.split('-')[0]
        t1 = t0 - (t1 - t0)
    spec = dict(kind=kind, t0=t0, t1=t1, bump=bump)
    if kind.split('-')[-1] == 'td' and isinstance(bump, TD) and bump != TD(0) and r >= 0.16 and r < 0.30 and np_td_flag:
        spec['np'] = True
    return spec


NP_TD_UNITS = [('us', 1), ('ms', 10 ** 3), ('s', 10 ** 6), ('m', 60 * 10 ** 6), ('h', 3600 * 10 ** 6), ('D', 86400 * 10 ** 6), ('W', 7 * 86400 * 10 ** 6)]


def np_td(us):
    """the np.timedelta64 of `us` microseconds in the coarsest unit that holds it exactly"""
    unit, k = [(u, k) for u, k in NP_TD_UNITS if us % k == 0][-1]
    # ... or, on two calls in five, in microseconds / NANOseconds: `.item()` of an ns duration is a plain int, not a timedelta
    # (seeded C10-w1: drange converting the bump with bump.item() walked such a bump as a count of days)
    import zlib
    how = zlib.crc32(str(us).encode()) % 5
    if how == 1:
        return np.timedelta64(us, 'us')
    if how == 2 and abs(us) < 2 ** 50:
        return np.timedelta64(us * 1000, 'ns')
    return np.timedelta64(us // k, unit)


def bump_arg(spec):
    """the object handed to drange"""
    return np_td(spec['bump'] // proto.US) if spec.get('np') else spec['bump']


def enc_bump(b):
    if b is None:
        return 'N'
    if isinstance(b, int):
        return '(int %d)' % b
    if isinstance(b, np.integer):      # a numpy integer bump (read from an array): is_int admits np.int8..int64
        return '(npint %s %d)' % (type(b).__name__, int(b))
    if isinstance(b, TD):
        return '(td %d)' % (b // proto.US)
    return '(p %s)' % hexs(b)


def line_of(spec):
    b = enc_bump(spec['bump'])
    if spec.get('np') and b.startswith('(td '):
        b = '(tdnp ' + b[4:]
    return '(drange run %d %d %s)' % (dt2us(spec['t0']), dt2us(spec['t1']), b)


# ---- endpoints as other python objects denoting the same instant (round k3; reviews4 v3 §C10.2-3, open since r3): `date_range` resolves
# them with dt(t).  kinds valid for any instant / for midnight only
KINDS_ANY = ['dt', 'ts', 'np', 'iso']
KINDS_MIDNIGHT = ['date', 'npD', 'ymd', 'isod']


def as_kind(kind, t):
    import pandas as pd
    if kind == 'dt':
        return t
    if kind == 'ts':
        return pd.Timestamp(t)
    if kind == 'np':
        return np.datetime64(t, 'us')
    if kind == 'iso':
        return t.isoformat(' ')
    assert t == D(t.year, t.month, t.day), 'midnight only'
    if kind == 'date':
        return t.date()
    if kind == 'npD':
        return np.datetime64(t.date(), 'D')
    if kind == 'ymd':
        return t.year * 10000 + t.month * 100 + t.day
    if kind == 'isod':
        return t.strftime('%Y-%m-%d')
    raise ValueError(kind)


def as_datetime(t):
    """an element of the result as a datetime (a pd.Timestamp start yields Timestamps; pandas cannot subtract year 1)"""
    return t.to_pydatetime() if hasattr(t, 'to_pydatetime') else t


def respell_endpoints(rng, spec, line):
    """now and then the same call with the endpoints given as date / Timestamp / np.datetime64 / ISO string / yyyymmdd int and a timedelta bump as
    pd.Timedelta; the years stay in pandas' nanosecond range for Timestamps"""
    if not line.startswith('(drange run ') or not (1700 < spec['t0'].year < 2250 and 1700 < spec['t1'].year < 2250):
        return None
    ks = []
    for t in (spec['t0'], spec['t1']):
        mid = t == D(t.year, t.month, t.day)
        ks.append(rng.choice(KINDS_ANY + (KINDS_MIDNIGHT * 2 if mid else [])))
    if ks == ['dt', 'dt']:
        ks[rng.randrange(2)] = 'ts'
    b = enc_bump(spec['bump'])
    if b.startswith('(td ') and rng.random() < 0.6:
        b = rng.choice(['(tdpd ', '(tdpd ', '(tdnp ']) + b[4:]
    return '(drange runas %s %s %d %d %s)' % (ks[0], ks[1], dt2us(spec['t0']), dt2us(spec['t1']), b)


# ---- round k3: `date_range` endpoint resolution (anchor _drange.py:210-264; open since r3): endpoints as drange is handed them - None, a
# BUMP (int < 1500, timedelta, period string: relative to today / to the other endpoint) or a date (datetime, or a number >= 1500 read by dt:
# a year, a yyyymmdd integer).  `today` = dt(0) is pinned by the runner.  An endpoint spec is (wire text, day-equivalent of a bump or None)
def _ep_bump(rng):
    r = rng.random()
    if r < 0.3:
        n = rng.choice([-400, -90, -30, -10, -7, -1, 0, 1, 5, 10, 30, 100, 365, 1499])
        return '(b (int %d))' % n, n
    if r < 0.45:
        us = rng.choice([-10, -1, 1, 3, 36]) * 86400 * 10 ** 6 + rng.choice([0, 0, 12 * 3600 * 10 ** 6, 1])
        return '(b (td %d))' % us, us / 86400e6
    n, u = rng.choice([-60, -10, -3, -1, 1, 2, 10, 40]), rng.choice('bdwmy' if rng.random() < 0.8 else 'hq')
    n = n if u not in 'y' else max(-3, min(3, n))
    txt = '%d%s' % (n, u) if rng.random() < 0.85 else ('+%d%s' % (n, u.upper()) if n > 0 else '%d%s' % (n, u.upper()))
    if rng.random() < 0.1:
        txt += '%d%s' % (rng.choice([-2, 1, 3]), rng.choice('bd'))
    return '(b (p %s))' % hexs(txt), n * NOMINAL[u] / 86400.0


def _ep_date(rng, today):
    r = rng.random()
    if r < 0.5:
        t = today + TD(days=rng.randint(-700, 700)) + (TD(hours=rng.choice([0, 0, 9, 23]), minutes=rng.choice([0, 30])))
        return '(d %d)' % dt2us(t), (t - today) / DAY
    if r < 0.75:
        y = today.year + rng.randint(-2, 2)
        return '(n %d)' % y, (D(y, 1, 1) - today) / DAY
    t = today + TD(days=rng.randint(-700, 700))
    return '(n %d)' % (t.year * 10000 + t.month * 100 + t.day), (t - today) / DAY


def endpoint_cases(rng, n):
    for _ in range(n):
        today = rand_start(rng, True)
        k = rng.random()
        # (e0, e1) and the signed span in days (roughly), as date_range resolves them
        if k < 0.3:       # date, bump: [t0, t0 + b]
            (e0, off0), (e1, d1) = _ep_date(rng, today), _ep_bump(rng)
            span = d1
        elif k < 0.45:    # bump, date: [t1 + b, t1]
            (e0, d0), (e1, off1) = _ep_bump(rng), _ep_date(rng, today)
            span = -d0
        elif k < 0.6:     # bump, bump: both from today
            (e0, d0), (e1, d1) = _ep_bump(rng), _ep_bump(rng)
            span = d1 - d0
        elif k < 0.7:     # date, date
            (e0, o0), (e1, o1) = _ep_date(rng, today), _ep_date(rng, today)
            span = o1 - o0
        elif k < 0.8:     # bump / date, None: sorted with today
            e0, d0 = _ep_bump(rng) if rng.random() < 0.6 else _ep_date(rng, today)
            e1, span = 'N', abs(d0)
        elif k < 0.9:     # None, bump / date: from TMIN (long: only the range itself and coarse steps)
            e0 = 'N'
            e1, d1 = _ep_bump(rng) if rng.random() < 0.5 else _ep_date(rng, today)
            span = (today - TMIN) / DAY + d1
        else:
            e0, e1, span = 'N', 'N', (today - TMIN) / DAY
        yield dict(tag='date_range', lines=['(drange range %d %s %s)' % (dt2us(today), e0, e1)])
        sg = 1 if span >= 0 else -1
        if abs(span) > 4000:
            steps = ['(int %d)' % (1461 * sg), '(p %s)' % hexs('%dw' % (200 * sg))]      # no month-based step: the start's day of month is not under control
        elif abs(span) > 500:
            steps = ['(p %s)' % hexs('%dw' % (4 * sg)), '(int %d)' % (30 * sg), '(p %s)' % hexs('%db' % (20 * sg))]
        else:
            steps = ['N', '(int %d)' % sg, '(int %d)' % (7 * sg), '(p %s)' % hexs('%db' % sg), '(p %s)' % hexs('%dd' % (2 * sg)),
                     '(p %s)' % hexs('%dw' % sg), '(td %d)' % (sg * 86400 * 10 ** 6), '(td %d)' % (sg * 36 * 3600 * 10 ** 6), '(p %s)' % hexs('%db' % (3 * sg))]
        st = rng.choice(steps)
        if rng.random() < 0.07 and st != 'N':      # now and then pointing away: ValueError
            st = st.replace(' -', ' ') if sg < 0 else st
        yield dict(tag='endpoints', lines=['(drange rune %d %s %s %s)' % (dt2us(today), e0, e1, st)])


def generate(rng, tier):
    for case in _generate(rng, tier):
        yield case
    for case in endpoint_cases(rng, 500 if tier == 'quick' else 8000):
        yield case


def _generate(rng, tier):
    n = 4000 if tier == 'quick' else 250000
    # dt_bump self-test of the local model (every unit letter, both signs, compounds)
    lines = []
    for _ in range(400 if tier == 'quick' else 30000):
        u = rng.choice('dbwmqyhns')
        t = rand_start(rng, u in 'mqy' or rng.random() < 0.5, dom28=u in 'mqy')
        s = '%d%s' % (rng.choice([1, -1, 2, -2, 3, 5, -7, 12, -13, 0, 26, -40]), u) if rng.random() < 0.8 else rng.choice(COMPOUNDS)
        if rng.random() < 0.3 and not s[0] in '-+':
            s = rng.choice(['-', '+']) + s
        lines.append('(drange bump %d %s)' % (dt2us(t), hexs(s)))
    yield dict(tag='dt_bump', lines=lines)
    for _ in range(n):
        spec = rand_spec(rng)
        yield dict(tag=spec['kind'] + ('-np' if spec.get('np') else ''), lines=[line_of(spec)])
        if rng.random() < 0.12:
            ln = respell_endpoints(rng, spec, line_of(spec))
            if ln is not None:
                yield dict(tag=spec['kind'] + '/objects', lines=[ln])
    # Calendar.drange with a bump that does not end in 'b' is plain drange
    for _ in range(n // 20):
        spec = rand_spec(rng)
        if isinstance(spec['bump'], str) and spec['bump'].lower().endswith('b'):
            continue
        yield dict(tag='calendar.drange', lines=[line_of(spec).replace('(drange run', '(drange crun')])
    # zero bumps, both directions (also drawn at random by rand_spec): ValueError, never a list
    for b in [0, TD(0), '0d', '0h', '0m', '0b', '-0b', '+0b']:
        t0 = rand_start(rng, True, dom28=True)
        for sg in (1, -1):
            yield dict(tag='zero', lines=[line_of(dict(t0=t0, t1=t0 + sg * 9 * DAY, bump=b))], expect='err ValueError')


def new_state():
    return {}


def dec_bump(x):
    if x == 'N':
        return None
    if x[0] == 'int':
        return int(x[1])
    if x[0] == 'npint':
        return getattr(np, x[1])(int(x[2]))
    if x[0] == 'td':
        return TD(microseconds=int(x[1]))
    if x[0] == 'tdpd':
        import pandas as pd
        return pd.Timedelta(microseconds=int(x[1]))
    if x[0] == 'tdnp':
        return np_td(int(x[1]))
    return unhex(x[1])


def run_line(state, sx):
    import pyg_base
    op, args = sx[1], sx[2:]
    if op == 'run':
        res = pyg_base.drange(us2dt(int(args[0])), us2dt(int(args[1])), dec_bump(args[2]))
        if not isinstance(res, list):      # e.g. None (defect C10-D2): an answer that is not a list is reported, not skipped
            return 'ok S:' + hexs(repr(res)[:60])
        out = 'ok (L' + ''.join(' T:%d' % dt2us(t) for t in res) + ')'
        # the statement is about the VALUE of drange(t0, t1, bump): it may not depend on what the caller did to an earlier result.
        # The returned list is edited in place and the same call is made again (seeded C10-u1: a memoised list handed to the caller)
        from pv import alias
        alias.scribble(res)
        res2 = pyg_base.drange(us2dt(int(args[0])), us2dt(int(args[1])), dec_bump(args[2]))
        out2 = 'ok (L' + ''.join(' T:%d' % dt2us(t) if isinstance(t, datetime.datetime) else ' S:%s' % proto.hexs(str(t)) for t in res2) + ')'
        return out if out2 == out else 'again ' + out2[3:]
    if op in ('rune', 'range'):
        from pyg_base import _dates
        today = us2dt(int(args[0]))

        def dec_ep(x):
            if x == 'N':
                return None
            if x[0] == 'b':
                return dec_bump(x[1])
            if x[0] == 'd':
                return us2dt(int(x[1]))
            if x[0] == 'n':
                return int(x[1])
            raise ValueError(x)
        e0, e1 = dec_ep(args[1]), dec_ep(args[2])
        saved = _dates.today
        _dates.today = lambda date=None: (today if date is None else saved(date))      # pin the clock: dt(0) = today() + 0 days
        try:
            if pyg_base.dt(0) != today:
                raise AssertionError('dt(0) does not read _dates.today')
            res = pyg_base.date_range(e0, e1) if op == 'range' else pyg_base.drange(e0, e1, dec_bump(args[3]))
        finally:
            _dates.today = saved
        if not isinstance(res, list):
            raise proto.Unencodable('returned %r' % type(res))
        return 'ok (L' + ''.join(' T:%d' % dt2us(as_datetime(t)) for t in res) + ')'
    if op == 'runas':
        t0, t1 = as_kind(args[0], us2dt(int(args[2]))), as_kind(args[1], us2dt(int(args[3])))
        res = pyg_base.drange(t0, t1, dec_bump(args[4]))
        if not isinstance(res, list):
            return 'ok S:' + hexs(repr(res)[:60])
        return 'ok (L' + ''.join(' T:%d' % dt2us(as_datetime(t)) for t in res) + ')'
    if op == 'crun':
        from pyg_base._drange import Calendar
        # a bump that is not a 'kb' string delegates to drange whatever the calendar holds: three calendars (round k3; until then one
        # holiday-free calendar) - plain, Fri-Sat weekend with holidays, Sunday-only weekend with a dense holiday run - chosen by the start day
        cals = state.get('cals') or state.setdefault('cals', [
            Calendar(None, t0=D(2000, 1, 1), t1=D(2001, 1, 1)),
            Calendar(None, holidays=[D(2000, 1, 3), D(2000, 5, 1), D(2000, 12, 25)], weekend=[4, 5], t0=D(2000, 1, 1), t1=D(2001, 1, 1)),
            Calendar(None, holidays=[D(2000, 3, 1) + TD(i) for i in range(40)], weekend=6, t0=D(1999, 1, 1), t1=D(2002, 1, 1))])
        cal = cals[(int(args[0]) // (86400 * 10 ** 6)) % 3]
        res = cal.drange(us2dt(int(args[0])), us2dt(int(args[1])), dec_bump(args[2]))
        if not isinstance(res, list):
            return 'ok S:' + hexs(repr(res)[:60])
        return 'ok (L' + ''.join(' T:%d' % dt2us(t) for t in res) + ')'
    if op == 'bump':
        return 'ok T:%d' % dt2us(pyg_base.dt_bump(us2dt(int(args[0])), unhex(args[1])))
    return 'bad-op'


def compare(case, i, line, ir, mr):
    exp = case.get('expect')
    if exp is not None and not proto.same_reply(ir, exp):
        return 'a bump that stands still must raise ValueError (no strictly monotone list starts at t0), got %s' % ir[:200]
    if proto.same_reply(ir, mr):
        return None
    if ir.startswith('again '):
        return 'after the list returned by drange was edited in place, the same call returns something else: %s (the statement gives %s)' % (ir[6:200], mr[:200])
    tag = case.get('tag', '')
    msg = 'implementation %s, model %s' % (ir[:300], mr[:300])
    if line.startswith('(drange bump'):
        return ('divergence', msg)
    return msg


def nontrivial(line, reply):
    if not (line.startswith('(drange run') or line.startswith('(drange crun')):     # 'runas' included
        return False
    return reply == 'err ValueError' or (reply.startswith('ok') and reply.count('T:') >= 2)


# ------------------------------------------------------------------ laws: the statement on the implementation's own outputs

def laws(rng, tier, ctx):
    nf, count = 0, 0
    for x in _laws(rng, tier, ctx):
        if isinstance(x, Finding):
            nf += 1
            yield x
            if nf >= 30:
                count = max(count, nf)
                break
        else:
            count = x
    yield count


def _call(fn):
    try:
        return with_timeout(fn, 3)
    except Timeout:
        return 'no result after 3 s'
    except Exception as e:
        return 'raise ' + type(e).__name__


def _laws(rng, tier, ctx):
    import pyg_base
    from pyg_base import drange, dt_bump
    count = 0
    for _ in range(2500 if tier == 'quick' else 120000):
        spec = rand_spec(rng)
        kind, t0, t1, bump = spec['kind'], spec['t0'], spec['t1'], spec['bump']
        case = dict(tag='law-' + kind + ('-np' if spec.get('np') else ''), lines=[line_of(spec)])
        arg = bump_arg(spec)
        res = _call(lambda: drange(t0, t1, arg))
        if not isinstance(res, (list, str)):
            count += 1
            yield Finding('violation', case, 'drange returned %r: neither the list nor a ValueError' % (res,))
            continue
        count += 1

        def bad(msg, extra=None):
            c = case if extra is None else dict(case, lines=case['lines'] + extra, atomic=True)
            return Finding('violation', c, msg)

        if kind.startswith('equal'):
            if res != [t0]:
                yield bad('t0 == t1 must give [t0], got %s' % (res if isinstance(res, str) else res[:3]))
            continue
        if kind == 'mixed':
            # a tenor of mixed signs: the exact range if every step moves strictly towards t1, ValueError as soon as one does not
            # (never an empty list, never an unbounded one)
            up = t1 > t0
            want, t = [], t0
            while (t <= t1 if up else t >= t1):
                want.append(t)
                nxt = _call(lambda: dt_bump(t, bump))
                if isinstance(nxt, str) or (nxt <= t if up else nxt >= t):
                    want = 'raise ValueError'
                    break
                t = nxt
            if res != want:
                yield bad("mixed-sign tenor '%s': expected %s, got %s" % (bump, want if isinstance(want, str) else 'the %d iterates of dt_bump' % len(want),
                                                                          res if isinstance(res, str) else 'a list of %d' % len(res)))
            continue
        if kind.startswith('away') or kind == 'zero':
            if res != 'raise ValueError':
                yield bad('a bump %s must raise ValueError, got %s' % ('that stands still' if kind == 'zero' else 'pointing away from t1',
                                                                       res if isinstance(res, str) else 'a list of %d starting at %s' % (len(res), res[0] if res else None)))
            continue
        if isinstance(res, str):
            yield bad('drange did not return a list: %s' % res)
            continue
        up = t1 > t0
        lo, hi = min(t0, t1), max(t0, t1)
        if any((a < b) != up or a == b for a, b in zip(res, res[1:])):
            yield bad('the list is not strictly monotone towards t1')
            continue
        if any(x < lo or x > hi for x in res):
            yield bad('the list leaves [t0, t1]')
            continue
        if kind == 'b':
            k = int(bump[:-1])
            days = [lo + i * DAY for i in range((hi - lo).days + 1)]
            want = [t for t in days if t.weekday() < 5]
            if k < 0:
                want = want[::-1]
            want = want[::abs(k)]
            if res != want:
                yield bad("'%s' must list every %d-th weekday between the endpoints%s" % (bump, abs(k), ' in reverse' if k < 0 else ''))
                continue
            # ... and, from a weekday t0 (endpoints whole days apart), the first sentence of the statement holds for 'kb' as well: the list is
            # t0, dt_bump(t0,'kb'), ... while inside (theorem kb_eq_iter_dtbump; from a weekend t0 the grids differ: kb_weekend_grids_differ)
            if t0.weekday() < 5 and (t1 - t0) % DAY == TD(0):
                count += 1
                it, t = [], t0
                while (t <= t1 if up else t >= t1) and len(it) <= len(res) + 1:
                    it.append(t)
                    t = dt_bump(t, bump)
                if res != it:
                    yield bad("'%s' from the weekday t0 is not t0, dt_bump(t0), dt_bump(dt_bump(t0)), ... while inside [t0, t1]" % bump)
            continue
        # all other kinds: start at t0, repeatedly apply the bump while inside, stop only when the next one is outside
        if bump is None:
            step = lambda t: t + (DAY if up else -DAY)
        elif isinstance(bump, (int, np.integer)):
            step = lambda t: t + int(bump) * DAY
        elif isinstance(bump, TD):
            step = lambda t: t + bump
        else:
            step = lambda t: dt_bump(t, bump)
        want, t = [], t0
        while (t <= t1 if up else t >= t1) and len(want) <= len(res) + 1:
            want.append(t)
            t = step(t)
        if res != want:
            yield bad('the list is not t0, bump(t0), bump(bump(t0)), ... while inside [t0, t1] (expected %d elements, got %d)' % (len(want), len(res)))
            continue
        # integer n, timedelta(n) and 'nd' give identical lists
        if kind in ('int', 'int-np', 'single-d') or (kind == 'td' and bump % DAY == TD(0)):
            n = int(bump) if isinstance(bump, (int, np.integer)) else (bump // DAY if isinstance(bump, TD) else int(bump[:-1]))
            if (t1 - t0) % DAY != TD(0) and kind not in ('int', 'int-np'):
                # timedelta(n) and 'nd' agree for ANY endpoints (theorem td_str_agree_any; intraday endpoints are inside the quantifier for these)
                b, c = _call(lambda: drange(t0, t1, n * DAY)), _call(lambda: drange(t0, t1, '%dd' % n))
                count += 1
                if b != c:
                    yield bad("timedelta / 'nd' spellings of the same bump disagree", [line_of(dict(spec, bump=n * DAY)), line_of(dict(spec, bump='%dd' % n))])
            if (t1 - t0) % DAY == TD(0):
                a, b, c = (_call(lambda: drange(t0, t1, n)), _call(lambda: drange(t0, t1, n * DAY)), _call(lambda: drange(t0, t1, '%dd' % n)))
                count += 1
                if not (a == b == c):
                    yield bad("int / timedelta / 'nd' spellings of the same bump disagree",
                              [line_of(dict(spec, bump=n)), line_of(dict(spec, bump=n * DAY)), line_of(dict(spec, bump='%dd' % n))])
    yield count


MATCHERS = {}
