"""C11 - listby/unlist, groupby/ungroup and pivot/unpivot are lossless regroupings.

Protocol lines (model `group`, lean/PygModel/GroupDriver.lean):
  (group lu <table> (L by*) <spelling>)        -> ok (T <listby> <its unlist> <table after>)
  (group gu <table> (L by*) <spelling>)        -> ok (T <groupby> <its ungroup> <table after>)
  (group pv <table> (L x*) y z <agg> [xs:s|xs:l|xs:t])  -> ok (T <pivot> <its unpivot> <table after>)     agg: none|len|first|last
                                               xs: how x is spelled in BOTH calls (a plain string / a list / a tuple of names); absent: string when one name, else list
"""
import datetime, math, functools, logging
from collections import Counter
import numpy as np
from .. import proto
from ..proto import enc, hexs, unhex, name_key
from ..engine import Finding, Timeout
from .c02 import guarded, enc_table, dec_table, keq, cell, NAN, SNAN, XNAN
import pyg_base  # noqa: E402

logging.getLogger('pyg').setLevel(logging.ERROR)

ID = 'C11'
TITLE = 'listby/unlist, groupby/ungroup and pivot/unpivot are lossless regroupings'
STATEMENT = ('listby(keys) has exactly one row per distinct key, its other cells listing that key\'s values in original row order, and '
             'unlist() of it equals the table stably sorted by the keys; groupby yields one sub-table per distinct key whose sizes add up to '
             'len(d) and ungroup() restores the multiset of rows; pivot puts every row\'s z in the cell addressed by its x key and y value '
             '(None where no row), unpivot + dropping None restores the unique (x, y, z) rows')
LEAN_FILES = ['Basic', 'Cmp', 'Sort', 'TableBasic', 'Join', 'Group', 'GroupDriver', 'Tri', 'CmpLemmas', 'JoinLemmas', 'GroupLemmas', 'UnlistLemmas', 'PivotLemmas', 'UnpivotLemmas', 'C11']
RULE = 'distinct protocol lines (one listby+unlist, groupby+ungroup or pivot+unpivot round trip) on a table with at least 2 rows on which the implementation returned'
TRUSTED = ['correspondence harness (pv.engine, pv.proto) and generators / reference checks of pv.props.c11',
           'Lean driver parser/printer (PygModel/Basic.lean, GroupDriver.lean)']
ASSUMPTIONS = ['pyg_base.sort orders the (key, row id) pairs as the model of C07 does',
               'dictable construction from rows / records (dictable(xs, by), concat, __call__) is modelled only as far as these methods use it',
               'pivot: y values are None / ints / floats / strings / datetimes; an int y becomes the column key str(y), every other y value is the column key itself '
               '(a float / datetime / None key of the dict): the model names such a key U+0000 + its wire atom and the runner encodes the implementation\'s '
               'column keys (and the y column of unpivot, which lists them) the same way; string cells do not start with U+0000; two y values with one column key '
               '(1 beside \'1\') or a key equal to an x column name: ValueError (defect P1, fixed); NaN y values of any identity are one y value whose column key is a NaN object '
               '(named U+0000 F:nan; defect G4, fixed); bools are not used as y values (equal to 1, 0 as dict keys); datetime.date objects are not generated '
               '(a date beside the equal datetime raises KeyError: outside the quantifier); aggregators on the wire: None, len, first, last (the theorem pivot_cell_fn covers any total function)',
               'cells are scalars (None, ints, quarter floats, strings, datetimes, NaN objects of any identity)',
               'groupby: the group column (grp=, default \'grp\') named like a key column is rejected with ValueError (defect G1, fixed); column names include grp, self, data, columns']
CALL_TIMEOUT = 8
D = datetime.datetime

KEYS = [None, 0, 1, 2, 1.0, 2.0, 2.5, 'a', 'b', '', D(2020, 1, 1), D(2020, 1, 2, 12),
        2 ** 53, 2 ** 53 + 1, float(2 ** 53)]     # neighbouring ints beyond float precision are distinct keys
VALS = [None, 1, 2, 3, 0.5, 'p', 'q', D(2021, 5, 5)]


# round k1: column KEYS that are not strings (what pivot makes of float / None / datetime y values, or dictable({1.5: [...]})) as listby /
# groupby keys and as ordinary columns: on the wire and in the model such a key is NAMED U+0000 + its atom (proto.key_name), the runner
# hands the implementation the real key (`by`, `grp` and the table alike).  Ints are left out (d[1] is a row: review v1, 0-D).
COLKEYS = [1.5, 2.5, -0.25, None, D(2020, 1, 1), D(2021, 6, 30, 12)]


def rand_table(rng, ncols=None, nan_ok=True, min_rows=0, keyed_ok=False):
    ncols = ncols or rng.choice([2, 2, 3, 3, 4])
    n = max(min_rows, rng.choice([0, 1, 2, 3, 4, 5, 6, 7, 8]))
    # one table in five has column names that are substrings of one another ('t' in 'ticker'): key / column selection by name must be exact
    r = rng.random()
    if r < 0.7:
        names = ['a', 'b', 'c', 'd']
    elif r < 0.85:
        names = rng.choice([['ticker', 't', 'date', 'a'], ['name', 'me', 'n', 'a'], ['ab', 'a', 'b', 'abc']])
    else:
        # columns named like the default group column of groupby ('grp') or like a parameter of the methods used internally ('self', 'data', 'columns')
        names = rng.choice([['grp', 'a', 'self', 'b'], ['a', 'grp', 'v', 'self'], ['self', 'v', 'grp', 'a'], ['data', 'columns', 'grp', 'a']])
    names = names[:ncols]
    t = []
    for k in names:
        r = rng.random()
        if r < 0.3:
            pool = rng.sample([1, 1.0, 2, 2.0, None, 'a'], 3)        # numerically equal ints / floats
        elif r < 0.8:
            pool = rng.sample(KEYS, rng.choice([1, 2, 3]))           # few values: many duplicates
        else:
            pool = KEYS + VALS
        if nan_ok and rng.random() < 0.12:
            pool = pool + [NAN, SNAN]
        t.append((k, [rng.choice(pool) for _ in range(n)]))
    if rng.random() < 0.3:
        rng.shuffle(t)
    if keyed_ok and rng.random() < 0.15:
        ks = rng.sample(COLKEYS, min(len(t), rng.choice([1, 1, 2])))
        idx = rng.sample(range(len(t)), len(ks))
        for i, k in zip(idx, ks):
            t[i] = (proto.key_name(k), t[i][1])
    return t


def is_keyed(t):
    return any(k[:1] == '\x00' for k, _ in t)


def enc_dictable(d):
    """a table of the implementation on the wire; column keys - also those of the SUB-TABLES that groupby stores as cells - go through key_name
    (false alarm of round k1: the sub-tables were encoded with str(key), '1.5' for the float key 1.5)"""
    return '(D' + ''.join(' (%s %s)' % (hexs(proto.key_name(k)), proto.enck(list(v))) for k, v in d.items()) + ')'


def enc_names(xs):
    return '(L' + ''.join(' S:' + hexs(x) for x in xs) + ')'


def gen_by(rng, names):
    r = rng.random()
    if r < 0.8 and len(names) > 1:
        return rng.sample(names, rng.randrange(1, len(names))), 'proper'
    if r < 0.88:
        return list(names), 'all'
    if r < 0.95:
        return [], 'default'
    return ['zz'], 'missing'


# y values: what becomes of them as column keys (ints through str, everything else the object itself)
YPOOLS = [(['p', 'q', 'r'], 'str'), ([1, 2, 3], 'int'), (['p', 1, 'q', 2], 'str-int'), (['p'], 'str'),
          ([0.5, 1.5, 2.5, -0.25], 'float'), ([D(2020, 1, 1), D(2020, 1, 2, 12), D(2021, 5, 5)], 'datetime'),
          ([None, 'p', 'q'], 'none'), ([None, 1.5, 'p', D(2020, 1, 1), 2], 'mixed'), (['1.5', 1.5, 'None', None], 'str-vs-object'),
          ([1, 1.0, 2.5, 2], 'int-float-equal'),
          ([NAN, NAN, 'p'], 'nan-fresh'), ([SNAN, SNAN, 1.5], 'nan-shared'), ([NAN, SNAN, XNAN, 2], 'nan-mixed'),
          ([1, '1', 2], 'collide-int-str'), ([1, '1', 'p', -3, '-3'], 'collide-int-str'), (['a', 'p', 'q'], 'collide-x-name')]


def gen_pivot(rng):
    n = rng.choice([0, 1, 2, 3, 4, 5, 6, 8])      # 0: a table with columns and no rows
    nx = rng.choice([1, 1, 2])
    xn = ['a', 'b'][:nx]
    t = [(k, [rng.choice(rng.sample(KEYS, 3) if rng.random() < 0.8 else KEYS) for _ in range(n)]) for k in xn]
    ypool, ykind = rng.choice(YPOOLS)
    if rng.random() < 0.25:
        # y labels that are substrings of an x column's name (x passed as a plain string when there is one x column)
        xn = [['name'], ['name', 'date']][nx - 1]
        t = [(k2, v) for k2, (_, v) in zip(xn, t)]
        ypool, ykind = rng.choice([['a', 'e', 'me', 'q'], ['na', 't', 'am'], ['n', 'name2', 'd']]), 'substr'
    t.append(('y', [rng.choice(ypool) for _ in range(n)]))
    t.append(('z', [rng.choice([1, 2, 3, 4, 0.5, 'u', 'w']) if rng.random() < 0.9 else None for _ in range(n)]))
    if rng.random() < 0.3:     # unique (x, y): the invertible case
        seen, keep = set(), []
        for i in range(n):
            k = tuple(cell(c[1][i]) for c in t[:nx + 1])
            k = tuple(proto.canon_cell(a) for a in k)
            if k not in seen:
                seen.add(k)
                keep.append(i)
        t = [(k, [v[i] for i in keep]) for k, v in t]
    agg = rng.choice(['none', 'len', 'first', 'last', 'last'])
    if n == 0:
        ykind = 'empty'
    return t, xn, agg, ykind


def x_spelling(rng, xn):
    """'' (the old default: a string when there is one name, else a list), ' xs:l' a list, ' xs:t' a tuple"""
    r = rng.random()
    return '' if r < 0.5 else ' xs:t' if r < 0.8 else ' xs:l'


def generate(rng, tier):
    n = 1000 if tier == 'quick' else 30000
    for _ in range(n):
        r = rng.random()
        if r < 0.4:
            t = rand_table(rng, keyed_ok=True)
            by, kind = gen_by(rng, [k for k, _ in t])
            if is_keyed(t):
                kind = 'keyed-columns:' + kind + (':key-in-by' if any(b[:1] == '\x00' for b in by) else '')
            yield dict(tag='listby-' + kind, lines=['(group lu %s %s sp:%s)' % (enc_table(t), enc_names(by), rng.choice('sl'))])
        elif r < 0.75:
            t = rand_table(rng, keyed_ok=True)
            by, kind = gen_by(rng, [k for k, _ in t])
            if is_keyed(t):
                kind = 'keyed-columns:' + kind + (':key-in-by' if any(b[:1] == '\x00' for b in by) else '')
            names = [k for k, _ in t]
            r2 = rng.random()
            # the name of the group column: the default 'grp', or grp = a fresh name / a key column / another column of the table
            grp = None if r2 < 0.7 else 'g' if r2 < 0.8 else rng.choice(by) if r2 < 0.9 and by else rng.choice(names)
            gkind = '' if grp is None else '-grp=key' if grp in by else '-grp=column' if grp in names else '-grp=fresh'
            if grp is None and 'grp' in by:
                gkind = '-grp-is-key'
            yield dict(tag='groupby-' + kind + gkind, lines=['(group gu %s %s sp:%s%s)' % (enc_table(t), enc_names(by), rng.choice('sl'), '' if grp is None else ' S:' + hexs(grp))])
        else:
            t, xn, agg, ykind = gen_pivot(rng)
            # round l1 (review w1 finding 1): the SPELLING of x - a plain string (one name), a list or a tuple of names, the same in xyz and unpivot
            sp = x_spelling(rng, xn)
            if rng.random() < 0.04:
                yield dict(tag='pivot-missing', lines=['(group pv %s %s S:%s S:%s %s%s)' % (enc_table(t), enc_names(xn), hexs('y'), hexs('zz'), agg, sp)])
            else:
                yield dict(tag='pivot-%s-y-%s%s' % (agg, ykind, sp.replace(' xs:', '-x-')), lines=['(group pv %s %s S:%s S:%s %s%s)' % (enc_table(t), enc_names(xn), hexs('y'), hexs('z'), agg, sp)])


def key_name(k):
    """a column key of a pivot table as the model names it: a string is its own name, any other key (float, datetime, None) is U+0000 + its wire atom
    (a NaN key of any identity / numpy type: U+0000 F:nan)"""
    if isinstance(k, float) and k != k:
        return '\x00F:nan'
    return k if isinstance(k, str) else '\x00' + enc(k)


def enc_keyed(d, ycol=None):
    """a pivot table (column keys may be non-strings) / its unpivot (the column `ycol` lists column keys)"""
    return '(D' + ''.join(' (%s %s)' % (hexs(key_name(k)), enc([key_name(c) for c in v] if ycol is not None and k == ycol else list(v))) for k, v in d.items()) + ')'


AGGS = {'none': None, 'len': len, 'first': lambda v: v[0], 'last': lambda v: v[-1]}


def run_line(state, sx):
    op = sx[1]
    d = dec_table(sx[2])
    if op in ('lu', 'gu'):
        by = [name_key(proto.dec_cell(a)) for a in sx[3][1:]]
        star = len(sx) > 4 and sx[4] == 'sp:s'
        if op == 'lu':
            l = guarded(lambda: d.listby(*by) if star else d.listby(by))
            u = guarded(lambda: l.unlist())
        else:
            kw = dict(grp=name_key(proto.dec_cell(sx[5]))) if len(sx) > 5 else {}
            l = guarded(lambda: d.groupby(*by, **kw) if star else d.groupby(by, **kw))
            u = guarded(lambda: l.ungroup(**kw))
        return 'ok (T %s %s %s)' % (enc_dictable(l), enc_dictable(u), enc_dictable(d))
    if op == 'pv':
        x = [proto.dec_cell(a) for a in sx[3][1:]]
        y, z, agg = proto.dec_cell(sx[4]), proto.dec_cell(sx[5]), AGGS[sx[6]]
        sp = sx[7] if len(sx) > 7 else ('xs:s' if len(x) == 1 else 'xs:l')
        if sp == 'xs:s' and len(x) != 1:
            return 'bad-op'
        xs = x[0] if sp == 'xs:s' else tuple(x) if sp == 'xs:t' else list(x)
        p = guarded(lambda: d.xyz(xs, y, z, agg))
        u = guarded(lambda: p.unpivot(xs, y, z))
        return 'ok (T %s %s %s)' % (enc_keyed(p), enc_keyed(u, ycol=y), enc_dictable(d))
    return 'bad-op'


def compare(case, i, line, ir, mr):
    if ir == 'timeout':
        return 'the call did not return'
    if mr in ('bad-op', 'no-driver'):
        return ('divergence', 'model does not cover this call (impl: %s)' % ir[:100])
    # type-strict: an int cell is not the float of the same value (the model stores the same group representative as the code: the key of the
    # group's last row), in key columns, other columns, z values and the operand alike
    if proto.same_reply(ir, mr, numeric=False):
        return None
    if ir.startswith('err') and mr.startswith('ok'):
        return 'the round trip raised (%s) where the statement prescribes a table' % ir
    if ir.startswith('ok') and mr == 'err ValueError' and proto.parse(line)[1] == 'pv':
        return ('pivot returned a table although two y values give the same column key (or a key is an x column name): the later column silently '
                'replaced the earlier one, so a row\'s z is not in the cell addressed by its x key and y value (P1)')
    if ir.startswith('ok') and mr.startswith('ok'):
        a, b = proto.parse(ir[3:]), proto.parse(mr[3:])
        names = ['regrouped table', 'inverse', 'operand afterwards']
        for k in (1, 2, 3):
            if proto.canon(a[k], numeric=False) != proto.canon(b[k], numeric=False):
                return '%s differs: %s, model %s' % (names[k - 1], proto.render(a[k])[:200], proto.render(b[k])[:200])
    return ('divergence', 'implementation %s, model %s' % (ir[:120], mr[:120]))


def nontrivial(line, reply):
    if not reply.startswith('ok'):
        return False
    t = proto.parse(line)[2]
    return max([len(kv[1]) - 1 for kv in t[1:]] or [0]) >= 2


def shrink(case, still_fails):
    """drop rows of the table"""
    sx = proto.parse(case['lines'][0])
    budget = [120]
    improved = True
    while improved and budget[0] > 0:
        improved = False
        t = sx[2]
        n = max([len(kv[1]) - 1 for kv in t[1:]] or [0])
        for r in range(n - 1, -1, -1):
            new_t = ['D'] + [[kv[0], kv[1][:1 + r] + kv[1][2 + r:]] for kv in t[1:]]
            new = sx[:2] + [new_t] + sx[3:]
            budget[0] -= 1
            try:
                ok = still_fails(dict(case, lines=[proto.render(new)]))
            except Exception:
                ok = False
            if ok:
                sx, improved = new, True
                break
    return dict(case, lines=[proto.render(sx)])


# ------------------------------------------------------------------ laws on the implementation alone

def canon_py(v, numeric=True):
    if isinstance(v, (list, tuple)):
        return (type(v).__name__,) + tuple(canon_py(u, numeric) for u in v)
    if isinstance(v, float) and math.isnan(v):
        return ('F', 'nan')
    return proto.canon_cell(enc(v), numeric)


def strict(v):
    """type-strict token of a cell: 1, 1.0 and True are three different cells (NaN objects are one cell)"""
    return canon_py(v, numeric=False)


def rows_of(d, cols, by=()):
    """the rows of d as tuples of tokens: key columns (`by`) by VALUE (the statement's key equality: 1 equals 1.0 - a regrouping stores one
    representative key per group), every other cell type-strictly"""
    return [tuple(canon_py(d[c][i]) if c in by else strict(d[c][i]) for c in cols) for i in range(len(d))]


def render_key(v):
    """y rendered as a column key: ints through str (dictable.__init__), every other value is the key itself"""
    return str(v) if isinstance(v, int) and not isinstance(v, bool) else v


def same_key(a, b):
    """python dict-key equality between two rendered column keys"""
    return type(a) is type(b) and a == b if isinstance(a, str) or isinstance(b, str) else keq(a, b)


def col_of(c, y):
    """is `c` (a column key of the pivot table) the column of the y value `y`?  the key is rendered from the group's representative, which is
    `y` up to numeric equality: 1.0 for y = 1 (a float key) or '1' for y = 1.0"""
    if isinstance(y, str) or y is None or isinstance(y, datetime.datetime):
        return same_key(c, y)
    if isinstance(c, str):          # rendered from an int representative
        return float(y).is_integer() and c == str(int(y))
    return isinstance(c, (int, float)) and not isinstance(c, bool) and keq(c, y)


def _ungroup_cols(G, kw):
    try:
        return list(guarded(lambda: G.ungroup(**kw)).keys())
    except Exception as e:
        return type(e).__name__


def snapshot(d):
    """type-strict picture of a table: column order, cell types and values"""
    return [(k, [strict(v) for v in d[k]]) for k in d.keys()]


def laws(rng, tier, ctx):
    n = 300 if tier == 'quick' else 5000
    count = 0
    for _ in range(n):
        t = rand_table(rng, min_rows=1)
        names = [k for k, _ in t]
        if len(names) < 2:
            continue
        by = rng.sample(names, rng.randrange(1, len(names)))
        others = [k for k in names if k not in by]
        line = '(group lu %s %s sp:l)' % (enc_table(t), enc_names(by))
        case = dict(tag='law-listby', lines=[line])
        d = dec_table(proto.parse(line)[2])
        before = snapshot(d)
        nrows = len(d)
        keys = list(zip(*[d[k] for k in by]))
        same = lambda p, q: all(keq(a, b) for a, b in zip(p, q))   # noqa: E731
        count += 1
        try:
            L = guarded(lambda: d.listby(by))
            U = guarded(lambda: L.unlist())
        except Timeout:
            yield Finding('violation', case, 'listby / unlist did not return')
            continue
        except Exception as e:
            yield Finding('violation', case, 'listby / unlist raised %s on a valid call' % type(e).__name__)
            continue
        lkeys = list(zip(*[L[k] for k in by]))
        msg = None
        if snapshot(d) != before:
            msg = 'listby / unlist altered the table they were called on'
        if any(same(lkeys[i], lkeys[j]) for i in range(len(L)) for j in range(i)):
            msg = 'listby has two rows with the same key'
        for i in range(nrows):
            hits = [g for g in range(len(L)) if same(lkeys[g], keys[i])]
            if len(hits) != 1:
                msg = 'row %d has its key in %d rows of listby' % (i, len(hits))
        if msg is None:
            for g in range(len(L)):
                members = [i for i in range(nrows) if same(lkeys[g], keys[i])]
                # the key stored for a group is LITERALLY the key of one of its rows (type and value: a 1 beside 1.0 is stored as one of the two, never as something else)
                if not any(tuple(strict(v) for v in lkeys[g]) == tuple(strict(v) for v in keys[i]) for i in members):
                    msg = 'listby key %r is not the key of any of its rows %r' % (lkeys[g], [keys[i] for i in members])
                for c in others:
                    if strict(list(L[c][g])) != strict([d[c][i] for i in members]):
                        msg = 'listby cell %s of key %r is %r, the values of that key in row order are %r' % (c, lkeys[g], L[c][g], [d[c][i] for i in members])
        if msg is None:
            order = sorted(range(nrows), key=functools.cmp_to_key(lambda i, j: pyg_base.cmp(keys[i], keys[j])))
            want = [tuple(canon_py(d[c][i]) if c in by else strict(d[c][i]) for c in names) for i in order]
            if sorted(U.keys()) != sorted(names) or rows_of(U, names, by) != want:
                msg = 'unlist(listby) is not the table stably sorted by the keys'
            elif all(tuple(strict(v) for v in keys[i]) == tuple(strict(v) for v in keys[j]) for i in range(nrows) for j in range(i) if same(keys[i], keys[j])) \
                    and rows_of(U, names) != [tuple(strict(d[c][i]) for c in names) for i in order]:
                # keys that are equal are literally equal (no 1 beside 1.0): then the inverse is LITERALLY the sorted table, key cells included
                msg = 'unlist(listby) differs in a key cell\'s type from the table stably sorted by the keys although equal keys are identical'
        if msg:
            yield Finding('violation', case, msg)
            continue
        # groupby / ungroup, with the default group column 'grp' or an explicit grp = fresh name / key column / other column
        r = rng.random()
        grp = None if r < 0.7 else 'g' if r < 0.8 else rng.choice(by) if r < 0.9 else rng.choice(names)
        kw = {} if grp is None else dict(grp=grp)
        gname = 'grp' if grp is None else grp
        gcase = dict(tag='law-groupby' + ('' if grp is None else '-grp=key' if grp in by else '-grp=column' if grp in names else '-grp=fresh'),
                     lines=['(group gu %s %s sp:l%s)' % (enc_table(t), enc_names(by), '' if grp is None else ' S:' + hexs(grp))])
        count += 1
        try:
            G = guarded(lambda: d.groupby(by, **kw))
        except Timeout:
            yield Finding('violation', gcase, 'groupby did not return')
            continue
        except ValueError:
            # the group column cannot carry the name of a key column: refusing is the only answer that loses nothing
            if gname not in by:
                yield Finding('violation', gcase, 'groupby raised ValueError on a valid call')
            continue
        except Exception as e:
            yield Finding('violation', gcase, 'groupby raised %s on a valid call' % type(e).__name__)
            continue
        if gname in by:
            yield Finding('violation', gcase, 'groupby(%r) with the group column named %r returned a table with columns %r: the sub-tables replaced the key column %r, '
                          'so ungroup() cannot restore it (it returns columns %r)' % (by, gname, list(G.keys()), gname, _ungroup_cols(G, kw)))
            continue
        try:
            R = guarded(lambda: G.ungroup(**kw))
        except Timeout:
            yield Finding('violation', gcase, 'ungroup did not return')
            continue
        except Exception as e:
            yield Finding('violation', gcase, 'ungroup of a groupby raised %s (%s)' % (type(e).__name__, str(e)[:80]))
            continue
        if snapshot(d) != before:
            yield Finding('violation', gcase, 'groupby / ungroup altered the table they were called on')
            continue
        gkeys = list(zip(*[G[k] for k in by]))
        subs = list(G[gname])
        if list(G.keys()) != list(by) + [gname]:
            yield Finding('violation', gcase, 'groupby has columns %r, expected the keys and %r' % (list(G.keys()), gname))
        elif any(same(gkeys[i], gkeys[j]) for i in range(len(G)) for j in range(i)) or \
                any(sum(same(gk, k) for gk in gkeys) != 1 for k in keys):
            yield Finding('violation', gcase, 'groupby does not have exactly one sub-table per distinct key')
        elif sum(len(g) for g in subs) != nrows:
            yield Finding('violation', gcase, 'group sizes add up to %d, len(d) = %d' % (sum(len(g) for g in subs), nrows))
        elif any(rows_of(subs[g], others) != [tuple(strict(d[c][i]) for c in others) for i in range(nrows) if same(gkeys[g], keys[i])] for g in range(len(G))):
            yield Finding('violation', gcase, 'a sub-table of groupby is not the rows of its key (other columns, original order, cell types)')
        elif sorted(R.keys()) != sorted(names):
            yield Finding('violation', gcase, 'ungroup(groupby) has columns %r, the table has %r' % (list(R.keys()), names))
        elif Counter(rows_of(R, names, by)) != Counter(rows_of(d, names, by)):
            yield Finding('violation', gcase, 'ungroup(groupby) is not the original multiset of rows')
        elif all(tuple(strict(v) for v in keys[i]) == tuple(strict(v) for v in keys[j]) for i in range(nrows) for j in range(i) if same(keys[i], keys[j])) \
                and Counter(rows_of(R, names)) != Counter(rows_of(d, names)):
            yield Finding('violation', gcase, 'ungroup(groupby) differs in a key cell\'s type from the original rows although equal keys are identical')
    m = 200 if tier == 'quick' else 3000
    for _ in range(m):
        t, xn, agg, ykind = gen_pivot(rng)
        sp = x_spelling(rng, xn)
        line = '(group pv %s %s S:%s S:%s none%s)' % (enc_table(t), enc_names(xn), hexs('y'), hexs('z'), sp)
        case = dict(tag='law-pivot-y-' + ykind + sp.replace(' xs:', '-x-'), lines=[line])
        d = dec_table(proto.parse(line)[2])
        xs = tuple(xn) if sp == ' xs:t' else list(xn) if sp == ' xs:l' else xn[0] if len(xn) == 1 else xn
        count += 1
        n = len(d)
        # distinct y values (key equality of the statement) must get distinct column keys, different from the x names: otherwise no table can hold them
        ys = []
        for v in d['y']:
            if not any(keq(v, w) for w in ys):
                ys.append(v)
        keys_ = [render_key(v) for v in ys]
        collide = any(same_key(keys_[i], keys_[j]) for i in range(len(ys)) for j in range(i)) or any(isinstance(k, str) and k in xn for k in keys_)
        try:
            P = guarded(lambda: d.xyz(xs, 'y', 'z'))
            Q = guarded(lambda: d.xyz(xs, 'y', 'z', lambda v: v[-1]))
            U = guarded(lambda: Q.unpivot(xs, 'y', 'z'))
        except Timeout:
            yield Finding('violation', case, 'pivot did not return')
            continue
        except ValueError:
            if not collide:
                yield Finding('violation', case, 'pivot / unpivot raised ValueError on a valid call')
            continue
        except Exception as e:
            yield Finding('violation', case, 'pivot / unpivot raised %s on a valid call' % type(e).__name__)
            continue
        xk = list(zip(*[d[k] for k in xn]))
        pk = list(zip(*[P[k] for k in xn]))
        same = lambda p, q: all(keq(a, b) for a, b in zip(p, q))   # noqa: E731
        labels = [c for c in P.keys() if c not in xn]
        msg = None
        colkey = {}
        if any(sum(same(p, k) for p in pk) != 1 for k in xk):
            msg = 'a row has no (single) pivot row for its x key'
        for i in range(n):
            if msg:
                break
            # the cell addressed by row i: the pivot row of its x key, the column of its y value
            cols = [c for c in labels if col_of(c, d['y'][i])]
            if len(cols) != 1:
                msg = 'row %d (y = %r) is addressed by %d columns of the pivot table %r' % (i, d['y'][i], len(cols), labels)
                break
            colkey[i] = cols[0]
            g = [g for g in range(len(P)) if same(pk[g], xk[i])][0]
            members = [d['z'][j] for j in range(n) if same(xk[j], xk[i]) and keq(d['y'][j], d['y'][i])]
            got = P[cols[0]][g]
            if got is None or strict(list(got)) != strict(members):
                msg = 'pivot cell (x=%r, y=%r) is %r, the rows there have z = %r' % (xk[i], d['y'][i], got, members)
        if msg is None:
            for g in range(len(P)):
                for lab in labels:
                    if P[lab][g] is not None and not any(same(xk[i], pk[g]) and col_of(lab, d['y'][i]) for i in range(n)):
                        msg = 'pivot cell (x=%r, column %r) is %r but no row is there' % (pk[g], lab, P[lab][g])
        if msg is None:
            uniq = all(not (same(xk[i], xk[j]) and keq(d['y'][i], d['y'][j])) for i in range(n) for j in range(i))
            if uniq and all(z is not None for z in d['z']):
                # x keys by value (the pivot table stores one representative per group), column key and z type-strictly
                got = Counter(r for r in rows_of(U, xn + ['y', 'z'], by=xn) if r[-1] != ('N',))
                want = Counter(tuple(canon_py(d[c][i]) for c in xn) + (strict(colkey[i]), strict(d['z'][i])) for i in range(n))   # colkey: y rendered as column key (of its group's representative: '1' or 1.0 for 1 beside 1.0)
                if got != want:
                    msg = 'unpivot(pivot) without the None cells is not the original (x, y, z) rows with y rendered as column keys'
        if msg is None and len(Q) >= 1:
            # the pivot result is a TABLE (its column keys are the y values: floats, None, datetimes beside the string x names): the row operations of
            # C01 / C06 must work on it - a mask / a filter keeping every row, a filter keeping none (all columns stay), concatenation with itself
            count += 1
            kq = list(Q.keys())
            allx = list(Q[xn[0]])
            snap = lambda T: strict([list(T[k]) for k in kq])   # noqa: E731
            try:
                M = guarded(lambda: Q[[True] * len(Q)])
                I = guarded(lambda: Q.inc({xn[0]: allx}))
                E = guarded(lambda: Q.exc({xn[0]: allx}))
                A = guarded(lambda: Q + Q)
                if set(M.keys()) != set(kq) or snap(M) != snap(Q):
                    msg = 'pivot result p: p[[True]*len(p)] is not p'
                elif set(I.keys()) != set(kq) or snap(I) != snap(Q):
                    msg = 'pivot result p: p.inc({x: all x values}) is not p'
                elif set(E.keys()) != set(kq) or len(E) != 0:
                    msg = 'pivot result p: p.exc({x: all x values}) has columns %r (p has %r) and %d rows' % (list(E.keys()), kq, len(E))
                elif set(A.keys()) != set(kq) or len(A) != 2 * len(Q):
                    msg = 'pivot result p: p + p has columns %r and %d rows' % (list(A.keys()), len(A))
            except Timeout:
                msg = 'a row operation on the pivot result did not return'
            except Exception as e:
                msg = 'pivot result p (column keys %r): mask / inc / exc / p + p raised %s: %s' % (kq, type(e).__name__, str(e)[:80])
            if msg:
                yield Finding('violation', dict(case, tag='law-pivot-result-is-a-table-y-' + ykind), msg)
                continue
        if msg:
            yield Finding('violation', case, msg)
    # datetime-like keys the wire cannot spell (review 4 v1 item 5, C11 half; round k1): pd.Timestamp, pd.NaT, np.datetime64 (incl. NaT), np.float32 beside
    # datetimes, None, NaN.  listby / groupby / their inverses and pivot on the implementation alone, against a grouping by the NORMALISED key (a Timestamp /
    # datetime64 is the datetime of its instant; every NaT is ONE missing datetime, not None and not NaN).
    import pandas as pd
    NAT = ('NaT',)

    def norm(k):
        if k is pd.NaT or (isinstance(k, np.datetime64) and np.isnat(k)):
            return NAT
        if isinstance(k, pd.Timestamp):
            return k.to_pydatetime()
        if isinstance(k, np.datetime64):
            return k.astype('datetime64[us]').astype(datetime.datetime)
        return k

    def nkeq(a, b):
        a, b = norm(a), norm(b)
        return (a is NAT and b is NAT) if (a is NAT or b is NAT) else keq(a, b)

    def pool():
        return [pd.Timestamp('2020-01-01'), D(2020, 1, 1), pd.NaT, np.datetime64('NaT'), np.datetime64('2020-01-02'), pd.Timestamp('2020-01-02'),
                D(2020, 1, 2), None, np.float32(0.5), 0.5, float('nan'), 1]
    for _ in range(60 if tier == 'quick' else 1500):
        ks = rng.sample(pool(), rng.choice([2, 3, 4, 6]))
        nrows = rng.choice([1, 2, 3, 5, 8])
        ka = [rng.choice(ks) for _ in range(nrows)]
        xa = [rng.choice([0, 1]) for _ in range(nrows)]
        case = dict(tag='law-datetime-like-keys', lines=['(python: d = dictable(k = %r, x = %r, v = range(%d)); d.listby("k").unlist(); d.groupby("k").ungroup(); d.xyz("x", "k", "v", list))' % (ka, xa, nrows)])
        count += 1
        try:
            d = pyg_base.dictable(k=list(ka), x=list(xa), v=list(range(nrows)))
            L = guarded(lambda: d.listby('k'))
            U = guarded(lambda: L.unlist())
            G = guarded(lambda: d.groupby('k'))
            R = guarded(lambda: G.ungroup())
            P = guarded(lambda: d.xyz('x', 'k', 'v', list))
        except Timeout:
            yield Finding('violation', case, 'listby / groupby / xyz did not return within its time budget')
            continue
        except Exception as e:
            yield Finding('violation', case, 'listby / unlist / groupby / ungroup / xyz raised %s: %s' % (type(e).__name__, str(e)[:80]))
            continue
        classes = []
        for i in range(nrows):
            for c in classes:
                if nkeq(ka[c[0]], ka[i]):
                    c.append(i)
                    break
            else:
                classes.append([i])
        want = sorted(classes)
        msg = None
        if sorted(list(v) for v in L['v']) != want:
            msg = 'listby groups the rows as %s, the rows of equal key are %s' % (sorted(list(v) for v in L['v']), want)
        elif any(not nkeq(L['k'][g], ka[L['v'][g][0]]) for g in range(len(L))):
            msg = 'a listby key is not the key of its rows'
        elif sorted(U['v']) != list(range(nrows)) or any(not nkeq(U['k'][j], ka[U['v'][j]]) for j in range(len(U))):
            msg = 'unlist(listby) does not restore the rows: v = %s' % (list(U['v']),)
        elif sorted(list(g['v']) for g in G['grp']) != want or sum(len(g) for g in G['grp']) != nrows:
            msg = 'groupby sub-tables hold the rows %s, the rows of equal key are %s' % (sorted(list(g['v']) for g in G['grp']), want)
        elif sorted(R['v']) != list(range(nrows)) or any(not nkeq(R['k'][j], ka[R['v'][j]]) for j in range(len(R))):
            msg = 'ungroup(groupby) does not restore the rows: v = %s' % (list(R['v']),)
        else:
            # pivot: the cell of (x, y class) lists exactly the rows with that x and a key of that class, None where there is none
            # columns read through dict.items: `P[np.datetime64('NaT')]` beside a Timestamp key raises TypeError inside pandas (`Timestamp == datetime64('NaT')`,
            # reached through `item in self.keys()`, a linear search) - a pandas 3 quirk on a key outside the quantifier, recorded in the notes
            ycols = [(c, col) for c, col in dict.items(P) if not (isinstance(c, str) and c == 'x')]
            if len(ycols) != len(classes):
                msg = 'pivot has %d y columns %r for %d distinct y values' % (len(ycols), [c for c, _ in ycols], len(classes))
            else:
                cells = sorted(sorted(c) for j in range(len(P)) for _, col in ycols for c in [col[j]] if c is not None)
                wantc = sorted(sorted(i for i in c if xa[i] == x) for c in classes for x in set(xa) if any(xa[i] == x for i in c))
                if cells != wantc:
                    msg = 'pivot cells hold the rows %s, the (x, y) groups are %s' % (cells, wantc)
        if msg:
            yield Finding('violation', case, msg)
    yield count


MATCHERS = {}
