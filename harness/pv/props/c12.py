"""C12 - df_fillna / nona fill or drop exactly the missing cells, arrays and pandas alike."""
import itertools, math
import numpy as np
import pandas as pd
from .. import proto
from ..engine import Finding
from . import _w5ts as W

ID = 'C12'
TITLE = 'df_fillna/nona fill or drop exactly the missing cells, arrays and pandas alike'
LEAN_FILES = ['Basic', 'TSBasic', 'Fill', 'FillDriver', 'FillAlias', 'FillLemmas', 'FillIndep', 'FillRows', 'FillEdge', 'FillAliasLemmas', 'C12']
RULE = ('distinct protocol lines (object, method list, limit) on which the implementation returned a value and the input '
        'holds at least one NaN and one non-NaN cell')
TRUSTED = ['correspondence harness (pv.engine, pv.proto, pv.props._w5ts) and generators of pv.props.c12',
           'Lean driver parser/printer (PygModel/Basic.lean, TSBasic.lean, FillDriver.lean)']
ASSUMPTIONS = ['pandas: ffill/bfill(limit), fillna(value, limit), boolean-mask selection, last_valid_index, label slice .loc[t:] on a '
               'sorted index, concat(axis=1) over one index behave as the reference functions of PygModel/Fill.lean define (sampled)',
               'a Series is modelled as a one-column frame; a numpy array as column values behind a RangeIndex',
               'pandas objects carry a STRICTLY INCREASING index wherever a method looks at labels (ffill_na, ffill_0, fnna, nona(edge) compare '
               'labels with the label of the last / first valid row): the quantifier ranges over values, NaN patterns, methods and limits, not '
               'over index orders. On a decreasing index ffill_0 overwrites a value in code and model alike (theorem ffill_tail_needs_sorted). '
               'Decreasing / shuffled / repeated-label indexes are generated for the methods that never look at labels (numbers, ffill, bfill, nona)',
               'float values are exact multiples of 1/4; dtype changes, axis=1, interpolation methods, pad, date methods, '
               'nona(value != nan) are not modelled; limit=0 (outside the quantifier) is not generated',
               'input immutability: proved on the object store PygModel/FillAlias.lean under the assumption, observed by snapshot on every line, that pandas ffill / fillna / bfill / boolean selection / .loc / concat return new objects',
               'input immutability seen from the RESULT (review t4 2.1): on every line and in the laws every cell of the result is overwritten and the argument compared with its snapshot '
               '(a writable numpy view of the argument is a finding - C12-E2, repaired); `res is x` for an empty method list and read-only results are skipped. The store model covers `_df_fillna` and, since round k4, `_nona` (FillAlias.nonaPd / nonaArrS)',
               '2-d inputs WITHOUT columns ((n, 0) arrays, `pd.DataFrame(index=idx)`) are generated since round k4 (ops fillna-df0 / fillna-a0 / nona-df0: the reply carries the labels / '
               'the row count, the result must have no column; ffill_na / ffill_0 raised "ValueError: No objects to concatenate" there - defect C12-E4, repaired f835fc3). Not modelled, not generated: '
               '`edge` values other than None / 1 / -1 (outside the docstring; code and model: None / err Other, for arrays as for pandas objects since 002fba9), bool methods (is_num(True)), '
               'float16 and 0-d arrays (pandas raises "No matching signature" / AttributeError)',
               'the `_nona` store (cells record whose buffer they share) assumes, and the overwrite check samples on every nona line: boolean-mask selection and np.isnan own their data, '
               'a pandas .loc[a:b] result never writes through (copy-on-write), a numpy basic slice is a view, .copy() is not']
S = 4
METHODS = ['ffill', 'bfill', 'backfill', 'ffill_na', 'ffill_0', 'fnna', 'nona', 'c:0', 'c:6', 'c:-3', 'c:4']
VALS = [1.0, 2.0, 0.0, -1.5, 0.25, 3.0, 7.75, -4.0]
nan = float('nan')


# ------------------------------------------------------------------ encoding of methods / limits

def enc_methods(ms, spelling):
    if ms is None:
        return 'N'
    return '(%s%s)' % (spelling, ''.join(' ' + m for m in ms))


def dec_method(a):
    if a.startswith('c:'):
        q = int(a[2:])
        return q // S if q % S == 0 and (q // S) % 2 == 1 else q / float(S)   # odd whole numbers travel as python ints
    return a


def dec_methods(sx):
    if sx == 'N':
        return None
    ms = [dec_method(a) for a in sx[1:]]
    if sx[0] == 'M1':
        return ms[0]
    return tuple(ms) if sx[0] == 'MT' else ms


def dec_limit(a):
    return None if a == 'N' else int(a[2:])


# ------------------------------------------------------------------ generators

def pattern(rng, n):
    """NaN mask of length n from a structured family"""
    kind = rng.choice(['none', 'all', 'lead', 'trail', 'both', 'interior', 'runs', 'random', 'random'])
    if kind == 'none':
        return [False] * n, kind
    if kind == 'all':
        return [True] * n, kind
    if kind == 'lead':
        k = rng.randint(1, max(1, n - 1))
        return ([True] * k + [False] * n)[:n], kind
    if kind == 'trail':
        k = rng.randint(1, max(1, n - 1))
        return ([False] * (n - k) + [True] * n)[:n], kind
    if kind == 'both':
        a, b = rng.randint(1, 3), rng.randint(1, 3)
        return [i < a or i >= n - b for i in range(n)], kind
    if kind == 'interior':
        a = rng.randint(1, max(1, n - 2)); b = rng.randint(1, 4)
        return [a <= i < a + b and i < n - 1 for i in range(n)], kind
    if kind == 'runs':
        out, cur = [], rng.random() < 0.5
        while len(out) < n:
            out.extend([cur] * rng.randint(1, 4)); cur = not cur
        return out[:n], kind
    p = rng.choice([0.2, 0.5, 0.8])
    return [rng.random() < p for _ in range(n)], kind


def column(rng, mask):
    return [nan if m else rng.choice(VALS) for m in mask]


def index(rng, n, ix=''):
    """a strictly increasing index of n labels: datetimes (ix = ''), INTEGERS (ix = 'i': range(k, k+n) with k in {0, 1, 10} - label =
    position only for k = 0 - or any increasing integers, negative ones included) or FLOATS (ix = 'f', multiples of 1/4).
    Review v4 2.1: `df[label:]` is a POSITIONAL slice on an integer index; C12's quantifier does not restrict the labels."""
    if ix == 'i':
        if rng.random() < 0.6:
            k = rng.choice([0, 1, 1, 10])
            return pd.Index(list(range(k, k + n)), dtype='int64')
        return pd.Index(sorted(rng.sample(range(-3, 3 * n + 4), n)), dtype='int64')
    if ix == 'f':
        return pd.Index([q / 4.0 for q in sorted(rng.sample(range(-4, 6 * n + 6), n))], dtype='float64')
    days = sorted(rng.sample(range(0, 3 * n + 4), n))
    return pd.DatetimeIndex([W.day(d) for d in days])


def base(kind):
    """'si' / 'sf' / 'dfi' / 'dff' are a Series / DataFrame over integer / float labels: the kind without its index spelling"""
    return 'df' if kind.startswith('df') else kind[0] if kind[0] == 's' else kind


def ixof(kind):
    return kind[len(base(kind)):] if base(kind) in ('s', 'df') else ''


def rand_ix(rng):
    r = rng.random()
    return 'i' if r < 0.3 else 'f' if r < 0.4 else ''


def enc_label(ix, t):
    return 'T:%d' % int(t) if ix == 'i' else 'T:%d' % int(round(float(t) * 4)) if ix == 'f' else W.enc_t(t)


def dec_index(ix, atoms):
    if ix == 'i':
        return pd.Index([int(a[2:]) for a in atoms], dtype='int64')
    if ix == 'f':
        return pd.Index([int(a[2:]) / 4.0 for a in atoms], dtype='float64')
    return pd.DatetimeIndex([W.dec_t(a) for a in atoms])


LABEL_FREE = ['ffill', 'bfill', 'backfill', 'nona', 'c:0', 'c:6', 'c:-3']     # methods that never compare index labels


def reorder_index(rng, x):
    """the same values over a decreasing / shuffled / repeated-label index (values stay where they are)"""
    n = len(x)
    how = rng.choice(['decreasing', 'shuffled', 'repeated'])
    idx = list(x.index)
    if how == 'decreasing':
        idx = idx[::-1]
    elif how == 'shuffled':
        rng.shuffle(idx)
    else:
        idx = sorted(rng.choice(idx) for _ in range(n))
    y = x.copy()
    y.index = pd.Index(idx) if len(idx) and not isinstance(idx[0], pd.Timestamp) else pd.DatetimeIndex(idx)
    return y, how


def with_inf(rng, kind, x):
    """law-only inputs: the same object with some of its non-NaN cells at +-inf (the wire / model values are scaled integers and
    have no infinities; the statement's clauses - a non-NaN cell is never changed, a constant fills only NaN, the array result is
    the values of the pandas result - are checked on them directly; seeded change C12-q2: an `np.nan_to_num` fast path)"""
    kind = base(kind)
    a = np.array(x.values if kind in ('s', 'df') else x, dtype=float)
    flat = a.reshape(-1)
    for i in range(flat.size):
        if not np.isnan(flat[i]) and rng.random() < 0.3:
            flat[i] = rng.choice([np.inf, -np.inf])
    if kind == 's':
        return pd.Series(a, x.index, dtype=float)
    if kind == 'df':
        return pd.DataFrame(a, x.index, columns=x.columns, dtype=float)
    return a


def rand_methods(rng):
    r = rng.random()
    k = 1 if r < 0.5 else 2 if r < 0.85 else 3
    ms = [rng.choice(METHODS) for _ in range(k)]
    spelling = 'M1' if (k == 1 and rng.random() < 0.5) else rng.choice(['M', 'M', 'MT'])
    return ms, spelling


def rand_limit(rng, allow0):
    r = rng.random()
    if r < 0.4:
        return 'N'
    if allow0 and r < 0.43:
        return 'I:0'
    return 'I:%d' % rng.choice([1, 1, 2, 2, 3, 5])


def make_obj(rng, kind, n):
    ix, kind = ixof(kind), base(kind)
    if kind in ('s', 'a1'):
        mask, pk = pattern(rng, n)
        col = column(rng, mask)
        if kind == 's':
            return pd.Series(col, index(rng, n, ix), dtype=float), pk
        return np.array(col, dtype=float), pk
    w = rng.choice([1, 2, 2, 3]) if kind in ('df', 'a2') else 1   # one-column frames / (n,1) arrays take their own branches in the code
    cols, pks = [], []
    for j in range(w):
        mask, pk = pattern(rng, n)
        if j and rng.random() < 0.3:
            mask = list(prev)     # correlated NaN rows so that all-NaN rows exist
        prev = mask
        cols.append(column(rng, mask)); pks.append(pk)
    if kind == 'df':
        names = rng.sample(['a', 'b', 'c', 'x'], w)
        return pd.DataFrame({k: np.array(c, dtype=float) for k, c in zip(names, cols)}, index=index(rng, n, ix), columns=names, dtype=float), pks[0]
    return np.array(cols, dtype=float).T.reshape(n, w), pks[0]


def enc_obj(kind, x):
    ix, kind = ixof(kind), base(kind)
    if kind == 's':
        return '(L' + ''.join(' (T %s %s)' % (enc_label(ix, t), W.enc_v(v, S)) for t, v in zip(x.index, x.values)) + ')'
    if kind == 'df':
        return '(T (L%s) (D%s))' % (''.join(' ' + enc_label(ix, t) for t in x.index),
                                    ''.join(' (%s %s)' % (W.hexs(str(c)), W.enc_col(x.iloc[:, j].values, S)) for j, c in enumerate(x.columns)))
    return W.enc_arr(x, S)


def generate(rng, tier):
    n_rand = 1400 if tier == 'quick' else 30000
    for _ in range(n_rand):
        kind = rng.choice(['s', 's', 'df', 'df', 'a1', 'a2'])
        if kind in ('s', 'df'):
            kind += rand_ix(rng)      # integer / float labels (review v4 2.1)
        n = rng.choice([0, 1, 2, 3, 4, 5, 6, 7, 8, 10])
        x, pk = make_obj(rng, kind, n)
        if rng.random() < 0.15:
            edge = rng.choice(['N', 'I:1', 'I:-1'])
            yield dict(tag='nona-%s/%s' % (kind, edge), lines=['(fill nona-%s %s %s)' % (kind, enc_obj(kind, x), edge)])
            continue
        ms, sp = rand_methods(rng)
        lim = rand_limit(rng, allow0=False)   # limit=0 is outside the property's quantifier (pandas rejects it only on non-empty objects)
        tag = 'fillna-%s/%s/%s' % (kind, '+'.join(m.split(':')[0] for m in ms), 'lim' if lim != 'N' else 'nolim')
        yield dict(tag=tag, lines=['(fill fillna-%s %s %s %s)' % (kind, enc_obj(kind, x), enc_methods(ms, sp), lim)])
    # index orders: the label-free methods must behave the same on ANY index (the others: see ASSUMPTIONS)
    for _ in range(n_rand // 7):
        kind = rng.choice(['s', 'df'])
        kind += rand_ix(rng)
        x, _ = make_obj(rng, kind, rng.choice([2, 3, 4, 5, 6, 8]))
        x, how = reorder_index(rng, x)
        ms = [rng.choice(LABEL_FREE) for _ in range(rng.choice([1, 1, 2, 3]))]
        lim = rand_limit(rng, allow0=False)
        tag = 'fillna-%s/%s/%s+%s-index' % (kind, '+'.join(m.split(':')[0] for m in ms), 'lim' if lim != 'N' else 'nolim', how)
        yield dict(tag=tag, lines=['(fill fillna-%s %s %s %s)' % (kind, enc_obj(kind, x), enc_methods(ms, 'M'), lim)])
    # 2-d inputs WITHOUT columns (review t4 2.2): n rows, no column - nothing to fill, every row "entirely NaN"
    for _ in range(40 if tier == 'quick' else 600):
        n = rng.choice([0, 1, 2, 3, 5])
        kind = rng.choice(NOCOLS)
        obj = ('(L' + ''.join(' (T %s F:nan)' % W.enc_t(t) for t in index(rng, n)) + ')') if kind == 'df0' else 'I:%d' % n
        if kind == 'df0' and rng.random() < 0.2:
            edge = rng.choice(['N', 'I:1', 'I:-1'])
            yield dict(tag='nona-df0/%s' % edge, lines=['(fill nona-df0 %s %s)' % (obj, edge)])
            continue
        ms, sp = rand_methods(rng)
        if rng.random() < 0.4:
            ms = [rng.choice(['ffill_na', 'ffill_0'])] + ms[1:]
        lim = rand_limit(rng, allow0=False)
        yield dict(tag='fillna-%s/%s' % (kind, '+'.join(m.split(':')[0] for m in ms)),
                   lines=['(fill fillna-%s %s %s %s)' % (kind, obj, enc_methods(ms, sp), lim)])
    if rng.random() < 2:   # method = None / [] returns the input
        x, _ = make_obj(rng, 's', 4)
        yield dict(tag='fillna-s/none', lines=['(fill fillna-s %s N N)' % enc_obj('s', x), '(fill fillna-s %s (M) I:1)' % enc_obj('s', x)])
    # exhaustive NaN patterns (distinct increasing values so that the source of every fill is identifiable)
    top = 5 if tier == 'quick' else 8
    single = ['ffill', 'bfill', 'ffill_na', 'ffill_0', 'fnna', 'nona', 'c:6']
    for n in range(0, top + 1):
        for mask in itertools.product([False, True], repeat=n):
            col = [nan if m else float(i + 1) for i, m in enumerate(mask)]
            s = pd.Series(col, pd.DatetimeIndex([W.day(2 * i) for i in range(n)]), dtype=float)
            a = np.array(col, dtype=float)
            for m in single:
                for lim in (['N', 'I:1', 'I:2'] if m not in ('fnna', 'nona') else ['N']):
                    if tier == 'quick' and n == top and rng.random() < 0.5:
                        continue
                    yield dict(tag='exh-s/%s' % m.split(':')[0], lines=['(fill fillna-s %s (M1 %s) %s)' % (W.enc_series(s, S), m, lim)])
                    if tier != 'quick' or rng.random() < 0.3:
                        yield dict(tag='exh-a1/%s' % m.split(':')[0], lines=['(fill fillna-a1 %s (M %s) %s)' % (W.enc_arr(a, S), m, lim)])
                    if n <= (4 if tier == 'quick' else 6) and (tier != 'quick' or rng.random() < 0.3):
                        # the same column as a one-column DataFrame and as an (n,1) array (the model identifies them with the Series)
                        df1 = pd.DataFrame({'a': np.array(col, dtype=float)}, index=s.index, columns=['a'], dtype=float)
                        yield dict(tag='exh-df1/%s' % m.split(':')[0], lines=['(fill fillna-df %s (M %s) %s)' % (W.enc_frame(df1, S), m, lim)])
                        yield dict(tag='exh-a21/%s' % m.split(':')[0], lines=['(fill fillna-a2 %s (M %s) %s)' % (W.enc_arr(a.reshape(n, 1), S), m, lim)])
    # all NaN masks of small 2-column frames x every PAIR of methods (the list clause on 2-d objects, exhaustively)
    top2 = 2 if tier == 'quick' else 3
    pair = ['ffill', 'bfill', 'ffill_na', 'ffill_0', 'fnna', 'nona', 'c:6']
    for n in range(1, top2 + 1):
        for mask in itertools.product([False, True], repeat=2 * n):
            cols = [[nan if mask[j * n + i] else float(10 * j + i + 1) for i in range(n)] for j in range(2)]
            df2 = pd.DataFrame({'a': np.array(cols[0], dtype=float), 'b': np.array(cols[1], dtype=float)},
                               index=pd.DatetimeIndex([W.day(2 * i) for i in range(n)]), columns=['a', 'b'], dtype=float)
            for m1 in pair:
                for m2 in pair:
                    if tier == 'quick' and rng.random() < 0.5:
                        continue
                    lim = rng.choice(['N', 'I:1'])
                    yield dict(tag='exh-df2/pair', lines=['(fill fillna-df %s (M %s %s) %s)' % (W.enc_frame(df2, S), m1, m2, lim)])
                    if rng.random() < 0.3:
                        yield dict(tag='exh-a22/pair', lines=['(fill fillna-a2 %s (M %s %s) %s)' % (W.enc_arr(df2.values, S), m1, m2, lim)])


# ------------------------------------------------------------------ implementation runner

def dec_obj(kind, sx):
    ix, kind = ixof(kind), base(kind)
    if kind == 's' and ix:
        rows = sx[1:]
        return pd.Series([W.dec_v(r[2], S) for r in rows], dec_index(ix, [r[1] for r in rows]), dtype=float)
    if kind == 'df' and ix:
        cols = [(W.unhex(kv[0]), W.dec_col(kv[1], S)) for kv in sx[2][1:]]
        return pd.DataFrame({k: np.array(v, dtype=float) for k, v in cols}, index=dec_index(ix, sx[1][1:]), columns=[k for k, _ in cols], dtype=float)
    if kind == 's':
        return W.dec_series(sx, S)
    if kind == 'df':
        return W.dec_frame(sx, S)
    if kind == 'a1':
        return W.dec_arr1(sx, S)
    return W.dec_arr2(sx, S)


def run_line(state, sx):
    import pyg_base
    op, args = sx[1], sx[2:]
    fn, _, kind = op.partition('-')
    if kind in NOCOLS:
        return run_nocols(fn, kind, args)
    x = dec_obj(kind, args[0])
    kind0, kind = kind, base(kind)
    before = W.snapshot(x)
    if fn == 'fillna':
        res = pyg_base.df_fillna(x, dec_methods(args[1]), limit=dec_limit(args[2]))
    elif fn == 'nona':
        e = dec_limit(args[1])
        res = pyg_base.nona(x, edge=e)
    else:
        return 'bad-op'
    if not W.same_pd(x, before):
        return 'violation input-modified'
    if kind == 's' and not isinstance(res, pd.Series) or kind == 'df' and not isinstance(res, pd.DataFrame) \
            or kind in ('a1', 'a2') and not isinstance(res, np.ndarray):
        return 'violation result-type %s' % type(res).__name__
    if kind == 'df' and list(res.columns) != list(x.columns):
        return 'violation columns %s' % list(res.columns)
    if kind == 'a2' and res.shape[1:] != x.shape[1:]:
        return 'violation shape %s' % (res.shape,)
    if kind in ('s', 'df') and res.index.dtype != x.index.dtype and len(res):
        return 'violation index-dtype %s' % res.index.dtype
    reply = 'ok ' + enc_obj(kind0, res)
    if result_reaches_input(x, res, before):
        return 'violation ' + ALIAS_MSG
    return reply


NOCOLS = ('df0', 'a0')      # 2-d inputs WITHOUT columns: `pd.DataFrame(index=labels)` / `np.zeros((n, 0))` ("2-d frames of any length ... empty")


def run_nocols(fn, kind, args):
    """(fill fillna-df0 (L (T t F:nan)*) ms lim) / (fill fillna-a0 I:n ms lim) / (fill nona-df0 .. edge): a frame / array with n rows
    and no column; the reply carries the labels (df0) / the row count (a0) of the result, which must have no column either"""
    import pyg_base
    if kind == 'df0':
        x = pd.DataFrame(index=pd.DatetimeIndex([W.dec_t(item[1]) for item in args[0][1:]]))
    else:
        x = np.zeros((int(args[0][2:]), 0))
    shape, labels = x.shape, (list(x.index) if kind == 'df0' else None)
    if fn == 'fillna':
        res = pyg_base.df_fillna(x, dec_methods(args[1]), limit=dec_limit(args[2]))
    elif fn == 'nona':
        res = pyg_base.nona(x, edge=dec_limit(args[1]))
    else:
        return 'bad-op'
    if x.shape != shape or (kind == 'df0' and list(x.index) != labels):
        return 'violation input-modified'
    if not isinstance(res, pd.DataFrame if kind == 'df0' else np.ndarray):
        return 'violation result-type %s' % type(res).__name__
    if len(res.shape) != 2 or res.shape[1] != 0:
        return 'violation shape %s' % (res.shape,)
    if kind == 'df0':
        return 'ok (L' + ''.join(' (T %s F:nan)' % W.enc_t(t) for t in res.index) + ')'
    return 'ok I:%d' % res.shape[0]


ALIAS_MSG = 'result-aliases-input: writing into the result changes the argument'


def result_reaches_input(x, res, before):
    """"the input object is not modified" seen from the result: a result that is a writable VIEW of the argument (numpy basic
    slicing `a[k:]`) hands the caller a handle through which the argument changes.  Every cell of the result is overwritten and
    the argument compared with its snapshot.  `res is x` (an empty method list hands the object back) is no hidden alias and is
    skipped; a read-only result (the `.values` of a copy-on-write pandas object) cannot be written into."""
    if res is x:
        return False
    try:
        if isinstance(res, np.ndarray):
            if not res.flags.writeable or res.size == 0:
                return False
            res[...] = 99.0
        elif isinstance(res, pd.Series):
            res.iloc[:] = 99.0
        else:
            res.iloc[:, :] = 99.0
    except Exception:
        return False
    return not W.same_pd(x, before)


def compare(case, i, line, ir, mr):
    if proto.same_reply(ir, mr):
        return None
    if ir.startswith('violation'):
        return ir
    return 'implementation %s, model %s' % (ir, mr)


def nontrivial(line, reply):
    return reply.startswith('ok') and 'F:nan' in line and 'I:' in line.split(' (M')[0]


# ------------------------------------------------------------------ the statement, checked directly on the implementation

def _isnan(v):
    return isinstance(v, float) and math.isnan(v)


def ref_ffill(col, lim):
    out, last, k = [], None, 0
    for v in col:
        if not _isnan(v):
            last, k = v, 0
            out.append(v)
        else:
            k += 1
            out.append(last if last is not None and (lim is None or k <= lim) else nan)
    return out


def ref_bfill(col, lim):
    return ref_ffill(col[::-1], lim)[::-1]


def ref_tail(col, lim, inv):
    valid = [i for i, v in enumerate(col) if not _isnan(v)]
    if not valid:
        return list(col)
    p = valid[-1]
    return ref_ffill(col, lim)[:p + 1] + [inv] * (len(col) - p - 1)


def ref_const(col, c, lim):
    out, k = [], 0
    for v in col:
        if _isnan(v) and (lim is None or k < lim):
            out.append(c); k += 1
        else:
            out.append(v)
    return out


def same_cols(a, b):
    return len(a) == len(b) and all((_isnan(x) and _isnan(y)) or x == y for x, y in zip(a, b))


def as_rows(kind, x):
    """(labels, list of columns) of an object"""
    kind = base(kind)
    if kind == 's':
        return list(x.index), [list(map(float, x.values))]
    if kind == 'df':
        return list(x.index), [list(map(float, x.iloc[:, j].values)) for j in range(x.shape[1])]
    if kind == 'a1':
        return list(range(len(x))), [list(map(float, x))]
    return list(range(x.shape[0])), [list(map(float, x[:, j])) for j in range(x.shape[1])]


def ref_apply(m, lim, labels, cols):
    """the property statement for one method: expected (labels, columns)"""
    n = len(labels)
    if m in ('ffill',):
        return labels, [ref_ffill(c, lim) for c in cols]
    if m in ('bfill', 'backfill'):
        return labels, [ref_bfill(c, lim) for c in cols]
    if m == 'ffill_na':
        return labels, [ref_tail(c, lim, nan) for c in cols]
    if m == 'ffill_0':
        return labels, [ref_tail(c, lim, 0.0) for c in cols]
    if m.startswith('c:'):
        return labels, [ref_const(c, int(m[2:]) / float(S), lim) for c in cols]
    keep = [any(not _isnan(c[i]) for c in cols) for i in range(n)]
    if m == 'fnna':
        first = keep.index(True) if True in keep else n
        keep = [i >= first for i in range(n)]
    return [l for l, k in zip(labels, keep) if k], [[v for v, k in zip(c, keep) if k] for c in cols]


def laws(rng, tier, ctx):
    import pyg_base
    count = 0
    m_cases = 500 if tier == 'quick' else 8000
    for _ in range(m_cases):
        kind = rng.choice(['s', 'df', 'a1', 'a2'])
        if kind in ('s', 'df'):
            kind += rand_ix(rng)
        n = rng.choice([0, 1, 2, 3, 5, 6, 8, 10])
        x, _ = make_obj(rng, kind, n)
        ms, sp = rand_methods(rng)
        how = None
        if n and rng.random() < 0.15:
            x = with_inf(rng, kind, x)
        if base(kind) in ('s', 'df') and n >= 2 and rng.random() < 0.2:
            x, how = reorder_index(rng, x)
            ms = [rng.choice(LABEL_FREE) for _ in ms]
        lim_a = rand_limit(rng, False)
        lim = dec_limit(lim_a)
        line = '(fill fillna-%s %s %s %s)' % (kind, enc_obj(kind, x), enc_methods(ms, sp), lim_a)
        case = dict(tag='law-fillna' + ('+%s-index' % how if how else ''), lines=[line])
        before = W.snapshot(x)
        try:
            res = pyg_base.df_fillna(x, dec_methods(proto.parse(enc_methods(ms, sp))), limit=lim)
        except Exception as e:
            yield Finding('violation', case, 'df_fillna raised %s: %s' % (type(e).__name__, str(e)[:100]))
            continue
        count += 1
        if not W.same_pd(x, before):
            yield Finding('violation', case, 'the input object was modified')
            continue
        labels, cols = as_rows(kind, x)
        elabels, ecols = labels, cols
        removing = False
        for m in ms:
            elabels, ecols = ref_apply(m, lim, elabels, ecols)
            removing = removing or m in ('fnna', 'nona')
        rlabels, rcols = as_rows(kind, res)
        if kind in ('a1', 'a2'):
            ok = len(rcols) == len(ecols) and all(same_cols(a, b) for a, b in zip(rcols, ecols))
        else:
            ok = rlabels == elabels and len(rcols) == len(ecols) and all(same_cols(a, b) for a, b in zip(rcols, ecols))
        if not ok:
            yield Finding('violation', case, 'result is not the sequential application of the methods as the statement defines them: '
                          'got %s %s, expected %s %s' % (rlabels if base(kind) in ('s', 'df') else '', rcols, elabels if base(kind) in ('s', 'df') else '', ecols))
            continue
        # a non-NaN cell is never changed (rows identified by label for pandas objects)
        if base(kind) in ('s', 'df') and len(set(labels)) == len(labels):
            pos = {l: i for i, l in enumerate(labels)}
            for j, rc in enumerate(rcols):
                for l, v in zip(rlabels, rc):
                    o = cols[j][pos[l]]
                    if not _isnan(o) and o != v:
                        yield Finding('violation', case, 'non-NaN cell changed at %s col %d: %r -> %r' % (l, j, o, v))
        # array path = values of the pandas path
        if kind in ('a1', 'a2'):
            p = pd.Series(x, index(rng, n, rand_ix(rng)), dtype=float) if kind == 'a1' else pd.DataFrame(x, index(rng, n, rand_ix(rng)), dtype=float)
            pres = pyg_base.df_fillna(p, dec_methods(proto.parse(enc_methods(ms, sp))), limit=lim)
            count += 1
            if not W.same_pd(np.asarray(pres.values, dtype=float).reshape(res.shape) if pres.values.size == res.size else pres.values, res):
                yield Finding('violation', case, 'array result differs from the values of the Series/DataFrame result: %s vs %s' % (res.tolist(), pres.values.tolist()))
        # a list applies the methods in sequence
        if len(ms) > 1:
            step = x
            for m in ms:
                step = pyg_base.df_fillna(step, dec_method(m), limit=lim)
            count += 1
            if not W.same_pd(step, res):
                yield Finding('violation', case, 'df_fillna(x, [m1, m2, ..]) differs from applying m1, m2, .. one after the other')
    # nona(x, edge)
    for _ in range(m_cases // 4):
        kind = rng.choice(['s', 'df', 'a1', 'a2'])
        if kind in ('s', 'df'):
            kind += rand_ix(rng)
        x, _ = make_obj(rng, kind, rng.choice([0, 1, 3, 5, 8]))
        case = dict(tag='law-nona', lines=['(fill nona-%s %s N)' % (kind, enc_obj(kind, x))])
        before = W.snapshot(x)
        res = pyg_base.nona(x)
        count += 1
        # the value that marks a missing cell may be ANY NaN object, not only np.nan itself (seeded C12-w2: `value is np.nan`)
        for nanv in (float('nan'), np.float64('nan'), np.float32('nan')):
            alt = pyg_base.nona(x, value=nanv)
            count += 1
            if not W.same_pd(alt, res):
                yield Finding('violation', case, 'nona(x, value = %r) differs from nona(x): the all-NaN rows are not removed when the NaN is another object' % (nanv,))
                break
        labels, cols = as_rows(kind, x)
        el, ec = ref_apply('nona', None, labels, cols)
        rl, rc = as_rows(kind, res)
        if not W.same_pd(x, before):
            yield Finding('violation', case, 'the input object was modified')
        elif (base(kind) in ('s', 'df') and rl != el) or len(rc) != len(ec) or not all(same_cols(a, b) for a, b in zip(rc, ec)):
            yield Finding('violation', case, 'nona did not remove exactly the all-NaN rows: %s %s' % (rl, rc))
        elif result_reaches_input(x, res, before):
            yield Finding('violation', case, ALIAS_MSG)
    # nona(x, edge = 1 / -1): only the all-NaN rows at ONE end go (interior ones stay); given an array the result is the
    # values of the result for the corresponding Series / DataFrame (the docstring: nona(np.array([1,nan,2,3]), edge = 1) is a)
    for _ in range(m_cases // 4):
        kind = rng.choice(['s', 'df', 'a1', 'a1', 'a2', 'a2'])
        if kind in ('s', 'df'):
            kind += rand_ix(rng)
        n = rng.choice([0, 1, 3, 5, 8])
        x, _ = make_obj(rng, kind, n)
        e = rng.choice([1, -1])
        case = dict(tag='law-nona-edge', lines=['(fill nona-%s %s I:%d)' % (kind, enc_obj(kind, x), e)])
        before = W.snapshot(x)
        try:
            res = pyg_base.nona(x, edge=e)
        except Exception as ex:
            yield Finding('violation', case, 'nona(x, edge=%d) raised %s: %s' % (e, type(ex).__name__, str(ex)[:100]))
            continue
        count += 1
        labels, cols = as_rows(kind, x)
        keep = [any(not _isnan(c[i]) for c in cols) for i in range(n)]
        if True in keep:
            sel = list(range(keep.index(True), n)) if e == -1 else list(range(0, n - keep[::-1].index(True)))
        else:
            sel = []
        el, ec = [labels[i] for i in sel], [[c[i] for i in sel] for c in cols]
        if not W.same_pd(x, before):
            yield Finding('violation', case, 'the input object was modified')
            continue
        if res is None or (kind in ('a1', 'a2')) != isinstance(res, np.ndarray):
            yield Finding('violation', case, 'nona(x, edge=%d) returned a %s' % (e, type(res).__name__))
            continue
        rl, rc = as_rows(kind, res)
        if (base(kind) in ('s', 'df') and rl != el) or len(rc) != len(ec) or not all(same_cols(a, b) for a, b in zip(rc, ec)):
            yield Finding('violation', case, NONA_EDGE_MSG % (e, 'last' if e == 1 else 'first') + ': got %s %s, the statement gives %s %s'
                          % (rl if base(kind) in ('s', 'df') else '', rc, el if base(kind) in ('s', 'df') else '', ec))
            continue
        if kind in ('a1', 'a2'):
            p = pd.Series(x, index(rng, n, rand_ix(rng)), dtype=float) if kind == 'a1' else pd.DataFrame(x, index(rng, n, rand_ix(rng)), dtype=float)
            pres = pyg_base.nona(p, edge=e)
            count += 1
            if not W.same_pd(np.asarray(pres.values, dtype=float).reshape(res.shape) if pres.values.size == res.size else pres.values, res):
                yield Finding('violation', case, 'array result differs from the values of the Series/DataFrame result: %s vs %s' % (res.tolist(), pres.values.tolist()))
                continue
        # the result must not be a handle on the argument (a writable numpy view): overwrite it, look at the argument
        count += 1
        if kind in ('a1', 'a2') and res.size and np.shares_memory(res, x) and res.flags.writeable or result_reaches_input(x, res, before):
            yield Finding('violation', case, ALIAS_MSG)
    yield count


NONA_EDGE_MSG = 'nona(x, edge=%d) does not keep exactly the rows up to / from the %s row holding a value'
MATCHERS = {}

shrink = W.shrink
