"""C19, MODEL EXTENSION (beyond the property text "any nesting of lists, tuples and dicts"): the pandas / numpy / Series
branches of loops._wrapped, _item_by_key with positions, _item_by_i on arrays, dict subclasses (the `loop` factory of
_dict.py), the closed text helpers lower/upper/strip, and failing awaitables.  Lines of model `liftx` (PygModel/LiftX.lean,
Txt.lean) and `waiterf` (PygModel/WaiterF.lean).  A disagreement on a liftx line whose arguments hold a pandas / numpy
object or a dict subclass is a DIVERGENCE (the statement does not speak of them); on plain lists / tuples / dicts it is judged
like a `lift call` line."""
import collections
import numpy as np, pandas as pd
from .. import proto
from ..proto import enc, hexs, unhex

TOP = 'a'


class Rec(object):
    """what the recording function returns: an opaque object (not a tuple: the reassembly of per-column results looks
    inside tuples and dicts)"""
    def __init__(self, a, args, kw):
        self.a, self.args, self.kw = a, args, kw


def recx(a, *args, **kw):
    if isinstance(a, str) and a.startswith('!'):
        raise {'v': ValueError, 'k': KeyError}.get(a[1:2], TypeError)(a)
    return Rec(a, args, kw)


def identx(a, *args, **kw):
    return a


class MyDict(dict):
    """a user subclass of dict: not among the looped types, hence a leaf"""


def dict_classes():
    from pyg_base import Dict, dictattr
    return {0: dict, 1: Dict, 2: dictattr, 3: collections.OrderedDict, 4: MyDict}


_LIFTED = {}


def lifted(types, fn):
    if (types, fn) not in _LIFTED:
        from pyg_base import loop
        from pyg_base._loop import loops
        f = dict(rec=recx, ident=identx)[fn]
        if types == 'ltd':
            w = loop(list, tuple, dict)(f)
        elif types == 'plain':
            w = loops(types=(list, tuple, dict))(f)
        else:
            w = loop(pd.Series, pd.DataFrame, np.ndarray, list, tuple, dict)(f)
        _LIFTED[(types, fn)] = w
    return _LIFTED[(types, fn)]


# ---------------------------------------------------------------- wire format of XVal

def _py(x):
    return x.item() if isinstance(x, np.generic) else x


def _labels(ls):
    out = []
    for l in ls:
        if not isinstance(l, str):
            raise proto.Unencodable('label %r' % (l,))
        out.append(hexs(l))
    return '(K' + ''.join(' ' + h for h in out) + ')'


def _row(r):
    return '(R' + ''.join(' ' + enc(_py(c)) for c in r) + ')'


def enc_x(v):
    v = _py(v)
    if isinstance(v, Rec):
        return '(O %s %s %s)' % (enc_x(v.a), enc_x(v.args), enc_x(v.kw))
    if isinstance(v, pd.DataFrame):
        return '(FR %s %s%s)' % (_labels(v.index), _labels(v.columns), ''.join(' ' + _row(r) for r in v.values.tolist()))
    if isinstance(v, pd.Series):
        return '(SR %s%s)' % (_labels(v.index), ''.join(' ' + enc_x(x) for x in v.tolist()))
    if isinstance(v, np.ndarray):
        if v.ndim == 1:
            return '(A1' + ''.join(' ' + enc_x(x) for x in v.tolist()) + ')'
        if v.ndim == 2:
            return '(A2 %d%s)' % (v.shape[1], ''.join(' ' + _row(r) for r in v.tolist()))
        raise proto.Unencodable('array of %d dimensions' % v.ndim)
    if isinstance(v, dict):
        cls = [n for n, c in dict_classes().items() if type(v) is c]
        if not cls:
            raise proto.Unencodable('dict class %s' % type(v).__name__)
        body = ''.join(' (%s %s)' % (hexs(k), enc_x(x)) for k, x in v.items())
        return '(D' + body + ')' if cls[0] == 0 else '(DC %d%s)' % (cls[0], body)
    if type(v) is list:
        return '(L' + ''.join(' ' + enc_x(x) for x in v) + ')'
    if type(v) is tuple:
        return '(T' + ''.join(' ' + enc_x(x) for x in v) + ')'
    if isinstance(v, (list, tuple)):
        raise proto.Unencodable('sequence class %s' % type(v).__name__)
    return enc(v)


def dec_x(sx):
    if isinstance(sx, str):
        return proto.dec_cell(sx)
    head, rest = sx[0], sx[1:]
    if head == 'L':
        return [dec_x(y) for y in rest]
    if head == 'T':
        return tuple(dec_x(y) for y in rest)
    if head == 'D':
        return {unhex(kv[0]): dec_x(kv[1]) for kv in rest}
    if head == 'DC':
        return dict_classes()[int(rest[0])]({unhex(kv[0]): dec_x(kv[1]) for kv in rest[1:]})
    if head == 'A1':
        return np.array([dec_x(y) for y in rest])
    if head == 'A2':
        nc = int(rest[0])
        return np.array([[proto.dec_cell(c) for c in r[1:]] for r in rest[1:]], dtype=np.int64).reshape(len(rest) - 1, nc)
    if head == 'SR':
        return pd.Series([dec_x(y) for y in rest[1:]], index=[unhex(k) for k in rest[0][1:]])
    if head == 'FR':
        idx, cols = [unhex(k) for k in rest[0][1:]], [unhex(k) for k in rest[1][1:]]
        return pd.DataFrame(np.array([[proto.dec_cell(c) for c in r[1:]] for r in rest[2:]], dtype=np.int64).reshape(len(idx), len(cols)),
                            index=idx, columns=cols)
    raise ValueError(head)


def has_exotic(sx):
    """does the wire value hold anything the property text does not speak of?"""
    if isinstance(sx, str):
        return False
    if sx and sx[0] in ('DC', 'A1', 'A2', 'SR', 'FR', 'O'):
        return True
    return any(has_exotic(y) for y in sx)


# ---------------------------------------------------------------- generators

KEYS = ['a', 'b', 'c', 'd', 'k']
ROWS = ['r0', 'r1', 'r2', 'r3']
LEAVES = [0, 1, 2, -1, 2.5, None, True, 'x', 'Ab', '']


def g_frame(rng, idx=None, cols=None):
    idx = idx if idx is not None else ROWS[:rng.choice([1, 2, 2, 3])]
    cols = cols if cols is not None else rng.sample(KEYS, rng.choice([1, 2, 2, 3, 3]))
    return pd.DataFrame(np.array([[rng.randrange(100) for _ in cols] for _ in idx], dtype=np.int64).reshape(len(idx), len(cols)),
                        index=list(idx), columns=list(cols))


def g_arr2(rng, nr=None, nc=None):
    nr = nr or rng.choice([1, 2, 2, 3])
    nc = nc or rng.choice([1, 2, 3, 3])
    return np.array([[rng.randrange(100) for _ in range(nc)] for _ in range(nr)], dtype=np.int64)


def g_arr1(rng, n):
    return np.array([rng.randrange(100) for _ in range(n)], dtype=np.int64)


def g_ser(rng, labels):
    return pd.Series([rng.randrange(100) for _ in labels], index=list(labels), dtype=np.int64)


def shuffled(rng, xs):
    xs = list(xs)
    rng.shuffle(xs)
    return xs


def g_struct(rng, depth, classes, top=False, bad=0.0):
    """nested lists / tuples / dicts of the given classes"""
    if depth == 0 or (not top and rng.random() < 0.3):
        if bad and rng.random() < bad:
            return rng.choice(['!v', '!k', '!t'])
        return rng.choice(LEAVES)
    n = rng.choice([0, 1, 2, 2, 3])
    r = rng.random()
    if r < 0.25:
        return [g_struct(rng, depth - 1, classes, bad=bad) for _ in range(n)]
    if r < 0.4:
        return tuple(g_struct(rng, depth - 1, classes, bad=bad) for _ in range(n))
    return dict_classes()[rng.choice(classes)]({k: g_struct(rng, depth - 1, classes, bad=bad) for k in rng.sample(KEYS, n)})


def g_same(rng, v, classes):
    """same shape, fresh leaves, dict keys shuffled, dict classes drawn afresh"""
    if isinstance(v, dict):
        return dict_classes()[rng.choice(classes)]({k: g_same(rng, v[k], classes) for k in shuffled(rng, v)})
    if isinstance(v, (list, tuple)):
        return type(v)([g_same(rng, x, classes) for x in v])
    return rng.choice([10, 20, 'p', None, 7.5])


def g_other_dict(rng, v, classes):
    """a dict (of some class) whose keys are not those of `v`, sometimes holding a matching dict inside"""
    d = {k: rng.choice([1, 'z']) for k in rng.sample(['p', 'q', 'r'], rng.choice([1, 2]))}
    if isinstance(v, dict) and rng.random() < 0.5:
        d[rng.choice(list(d))] = g_same(rng, v, classes)
    return dict_classes()[rng.choice(classes)](d)


def gen_classes(rng):
    """(1)+(2): the `loop` factory — dict subclasses as the looped argument, inside it, and as companions"""
    types = rng.choice(['ltd', 'ltd', 'ltd', 'plain'])
    classes = [0, 1, 2, 3, 4]
    bad = 0.15 if rng.random() < 0.1 else 0.0
    v = g_struct(rng, rng.choice([1, 2, 2, 3, 4]), classes, top=True, bad=bad)
    pos, kw = [], {}
    for _ in range(rng.choice([0, 0, 1, 1, 2])):
        r = rng.random()
        pos.append(rng.choice([5, 'z', None]) if r < 0.25 else g_same(rng, v, classes) if r < 0.75 else g_other_dict(rng, v, classes))
    for name in rng.sample(['b', 'c', 'axis'], rng.choice([0, 0, 1, 2])):
        r = rng.random()
        kw[name] = rng.choice([5, 'z', 1]) if r < 0.3 else g_same(rng, v, classes) if r < 0.8 else g_other_dict(rng, v, classes)
    line = '(liftx call %s rec %s %s %s)' % (types, hexs(TOP), enc_x([v] + pos), enc_x(kw))
    tag = 'liftx classes %s%s' % (types, ' raising-leaf' if bad else '')
    return dict(tag=tag, lines=[line])


def g_companion(rng, labels, n, rows):
    """a companion for a loop over `n` things labelled `labels` (None for positional loops); `rows` = length of a column.
    returns (kind, value)"""
    other = [k for k in ['p', 'q', 'r', 's'] if k not in (labels or [])]
    m = rng.choice([k for k in (1, 2, 3, 4) if k != n])
    choices = [
        ('scalar', lambda: rng.choice([5, 'z', None, 'abc'[:n] if n <= 3 else 'abcd'])),
        ('list n', lambda: [rng.randrange(10, 20) for _ in range(n)]),
        ('tuple n', lambda: tuple(rng.randrange(10, 20) for _ in range(n))),
        ('list other', lambda: [rng.randrange(10, 20) for _ in range(m)]),
        ('list of lists', lambda: [[rng.randrange(10, 20) for _ in range(n)] for _ in range(m)]),
        ('arr1 n', lambda: g_arr1(rng, n)),
        ('arr1 other', lambda: g_arr1(rng, m)),
        ('arr2 nc=n', lambda: g_arr2(rng, rng.choice([2, 3]), n)),
        ('arr2 one column of n', lambda: g_arr2(rng, n, 1)),
        ('arr2 other', lambda: g_arr2(rng, rng.choice([2, 3]), m)),
        ('ser n other labels', lambda: g_ser(rng, other[:n])),
        ('ser other', lambda: g_ser(rng, other[:m])),
        ('frame n columns other labels', lambda: g_frame(rng, ['u0', 'u1'], other[:n])),
        ('frame one column of n', lambda: g_frame(rng, ['u%d' % i for i in range(n)], ['w'])),
        ('frame other', lambda: g_frame(rng, ['u0', 'u1', 'u2', 'u3', 'u4'], other[:m])),
    ]
    if labels is not None:
        choices += [
            ('ser same labels', lambda: g_ser(rng, shuffled(rng, labels))),
            ('dict same keys', lambda: {k: rng.choice([1, 'z', [1, 2]]) for k in shuffled(rng, labels)}),
            ('dict other keys', lambda: {k: rng.choice([1, g_ser(rng, shuffled(rng, labels)), {l: 3 for l in labels}]) for k in other[:rng.choice([1, 2])]}),
            ('frame columns = labels', lambda: g_frame(rng, None, shuffled(rng, labels))),
            ('frame index = labels', lambda: g_frame(rng, shuffled(rng, labels), other[:rng.choice([1, 2, 3])])),
        ] * 2
    kind, mk = rng.choice(choices)
    return kind, mk()


def gen_pandas(rng):
    """(1): Series / DataFrame / ndarray as the looped argument, and pandas / numpy companions of looped lists and dicts"""
    r = rng.random()
    axis = None
    fn = 'rec'
    types = 'all'
    if r < 0.2:
        labels = rng.sample(KEYS, rng.choice([1, 2, 3, 3]))
        v, what, n, rows = g_ser(rng, labels), 'series', len(labels), 1
    elif r < 0.5:
        v = g_frame(rng)
        axis = rng.choice([None, None, 0, 1, 1, -1])
        fn = rng.choice(['rec', 'rec', 'rec', 'ident'])
        if axis in (1, -1):
            labels, rows = list(v.index), v.shape[1]
        else:
            labels, rows = list(v.columns), v.shape[0]
        what, n = 'frame axis=%s' % axis, len(labels)
    elif r < 0.7:
        v = g_arr2(rng)
        axis = rng.choice([None, None, 0, 1, 1, -1])
        fn = rng.choice(['rec', 'rec', 'rec', 'ident'])
        n, rows = (v.shape[0], v.shape[1]) if axis in (1, -1) else (v.shape[1], v.shape[0])
        labels, what = None, 'array axis=%s' % axis
    elif r < 0.8:
        n = rng.choice([1, 2, 3])
        v, labels, rows, what = [rng.choice(LEAVES) for _ in range(n)], None, 1, 'list'
        types = rng.choice(['all', 'ltd'])
    elif r < 0.9:
        labels = rng.sample(KEYS, rng.choice([1, 2, 3]))
        v, n, rows, what = {k: rng.choice(LEAVES) for k in labels}, len(labels), 1, 'dict'
        types = rng.choice(['all', 'ltd'])
    else:
        # pandas / numpy objects inside a list or dict: leaves or looped one level down (axis is consumed by the outer level)
        inner = [rng.choice([g_frame(rng), g_arr2(rng), g_arr1(rng, 2), g_ser(rng, ['a', 'b']), 3]) for _ in range(rng.choice([1, 2]))]
        v = inner if rng.random() < 0.5 else dict(zip(['a', 'b'], inner))
        labels, n, rows, what = (list(v) if isinstance(v, dict) else None), len(inner), 1, 'nested'
        axis = rng.choice([None, 1])
        types = rng.choice(['all', 'ltd'])
    pos, kw, kinds = [], {}, []
    for _ in range(rng.choice([0, 1, 1, 1, 2])):
        k, c = g_companion(rng, labels, n, rows)
        kinds.append(k)
        pos.append(c)
    if rng.random() < 0.35:
        k, c = g_companion(rng, labels, n, rows)
        kinds.append(k)
        kw[rng.choice(['b', 'c'])] = c
    if axis is not None:
        kw['axis'] = axis
    line = '(liftx call %s %s %s %s %s)' % (types, fn, hexs(TOP), enc_x([v] + pos), enc_x(kw))
    return dict(tag='liftx %s %s %s companions=%s' % (types, what, fn, '+'.join(sorted(set(kinds))) or 'none'), lines=[line])


WS = [' ', '\t', '\n', '\r', '\x0b', '\x0c', '\x1c', '\x1f']
WORDS = ['Hello', 'WORLD', 'aBc', 'x', 'Z', '[@`{', 'az09', 'The Quick', 'a\tb', '']


def g_text(rng):
    if rng.random() < 0.15:
        return rng.choice([3, None, 2.5, True])
    s = rng.choice(WORDS)
    if rng.random() < 0.5:
        s = ''.join(rng.choice(WS) for _ in range(rng.choice([0, 1, 2]))) + s + ''.join(rng.choice(WS) for _ in range(rng.choice([0, 1, 2])))
    if rng.random() < 0.1:
        s = ''.join(chr(rng.randrange(128)) for _ in range(rng.choice([1, 3, 6])))
    return s


def g_text_struct(rng, depth, top=False):
    if depth == 0 or (not top and rng.random() < 0.3):
        return g_text(rng)
    n = rng.choice([0, 1, 2, 2, 3])
    r = rng.random()
    if r < 0.45:
        return [g_text_struct(rng, depth - 1) for _ in range(n)]
    if r < 0.65:
        return tuple(g_text_struct(rng, depth - 1) for _ in range(n))
    return {k: g_text_struct(rng, depth - 1) for k in rng.sample(KEYS, n)}


def gen_txt(rng):
    """(3): the closed text helpers on ASCII text"""
    name = rng.choice(['lower', 'upper', 'strip'])
    v = g_text_struct(rng, rng.choice([0, 1, 2, 3]), top=True)
    return dict(tag='txt %s (closed model)' % name, lines=['(liftx txt %s %s)' % (name, enc(v))])


def gen_split(rng):
    """round k6: `split` on nested ASCII text with a one-character separator (closed model: lifting + leaf)"""
    sep = rng.choice([',', ' ', '-', 'a', 'B', '.'])

    def seps(v):
        if isinstance(v, str):
            return ''.join(rng.choice([c, c, sep, sep + sep]) if rng.random() < 0.4 else c for c in v) + rng.choice(['', '', sep])
        if isinstance(v, list):
            return [seps(x) for x in v]
        if isinstance(v, tuple):
            return tuple(seps(x) for x in v)
        if isinstance(v, dict):
            return {k: seps(x) for k, x in v.items()}
        return v
    v = seps(g_text_struct(rng, rng.choice([0, 1, 2, 3]), top=True))
    return dict(tag='txt split (closed model)', lines=['(liftx txt split %s %s %s)' % (enc(v), enc(sep), enc(rng.random() < 0.5))])


def gen_replace(rng):
    """round k6: `replace` of one character on nested ASCII text (closed model); `new` a string (sometimes holding `old`: ValueError
    as soon as there is a text leaf) or None"""
    old = rng.choice([',', ' ', '-', 'a', 'B', '.'])
    new = rng.choice([None, '', '_', 'xy', '--', ' ', old + 'z', 'q' + old])

    def seps(v):
        if isinstance(v, str):
            return ''.join(rng.choice([c, old, old + old]) if rng.random() < 0.35 else c for c in v)
        if isinstance(v, list):
            return [seps(x) for x in v]
        if isinstance(v, tuple):
            return tuple(seps(x) for x in v)
        if isinstance(v, dict):
            return {k: seps(x) for k, x in v.items()}
        return v
    v = seps(g_text_struct(rng, rng.choice([0, 1, 2, 3]), top=True))
    return dict(tag='txt replace (closed model)%s' % (' new holds old' if new and old in new else ''),
                lines=['(liftx txt replace %s %s %s)' % (enc(v), enc(old), enc(new))])


def generate(rng, tier):
    q = tier == 'quick'
    for _ in range(400 if q else 4000):
        yield gen_replace(rng)
    for _ in range(400 if q else 4000):
        yield gen_split(rng)
    for _ in range(1500 if q else 15000):
        yield gen_classes(rng)
    for _ in range(2500 if q else 25000):
        yield gen_pandas(rng)
    for _ in range(800 if q else 8000):
        yield gen_txt(rng)


# ---------------------------------------------------------------- runner

def run_line(sx):
    import pyg_base
    op, args = sx[1], sx[2:]
    if op == 'call':
        types, fn = args[0], args[1]
        a, kw = dec_x(args[3]), dec_x(args[4])
        before = enc_x([a, kw])
        res = lifted(types, fn)(*a, **kw)
        if enc_x([a, kw]) != before:
            raise AssertionError('arguments were modified')
        return 'ok ' + enc_x(res)
    if op == 'txt' and args[0] == 'replace':
        return 'ok ' + enc(pyg_base.replace(proto.dec(args[1]), proto.dec(args[2]), proto.dec(args[3])))
    if op == 'txt' and args[0] == 'split':
        return 'ok ' + enc(pyg_base.split(proto.dec(args[1]), proto.dec(args[2]), proto.dec(args[3])))
    if op == 'txt':
        return 'ok ' + enc(getattr(pyg_base, args[0])(proto.dec(args[1])))
    return 'bad-op'


def compare(line, ir, mr):
    """None | message (violation) | ('divergence', message)"""
    if ir == mr:
        return None
    sx = proto.parse(line)
    if sx[1] == 'txt':
        if proto.same_reply(ir, mr, numeric=False):
            return None
        return '%s on ASCII text: implementation %s, closed model (lifting + leaf function) %s' % (sx[2], ir, mr)
    if sx[1] == 'call' and (has_exotic(sx[5]) or has_exotic(sx[6])):
        return ('divergence', 'model extension (pandas / numpy / dict subclass: beyond the property text): implementation %s, model %s' % (ir, mr))
    return 'lifted call on lists / tuples / dicts: implementation %s, model %s' % (ir, mr)


def nontrivial(line, reply):
    if not reply.startswith('ok'):
        return False
    sx = proto.parse(line)
    if sx[1] == 'txt':
        return isinstance(sx[3], list) and len(sx[3]) > 1
    a = sx[5]
    return len(a) > 1 and isinstance(a[1], list) and len(a[1]) > 1


# ---------------------------------------------------------------- (4) failing awaitables: model `waiterf`

class Boom(Exception):
    def __init__(self, n):
        Exception.__init__(self, n)
        self.n = n


def gen_waiterf(rng, tier, w_struct, enc_w):
    """structures with k awaitables; every completion order (k <= 3 quick, k <= 4 thorough), each awaitable returning or
    raising; plus prefixes of schedules"""
    import itertools
    kmax = 3 if tier == 'quick' else 4
    reps = 6 if tier == 'quick' else 12
    for k in range(1, kmax + 1):
        for _ in range(reps):
            w = w_struct(rng, k, rng.choice([1, 2, 3, 4]))
            ws = enc_w(w)
            for order in itertools.permutations(range(k)):
                for _ in range(2):
                    bad = [i for i in range(k) if rng.random() < 0.4]          # may be empty: results only
                    cut = rng.choice([k, k, k, rng.randrange(0, k + 1)])
                    evs = [(i, (False, 900 + i) if i in bad else (True, 100 + i)) for i in order[:cut]]
                    yield dict(tag='waiterf k=%d failing=%d%s' % (k, len(bad), '' if cut == k else ' prefix'),
                               lines=['(waiterf events %s %s)' % (ws, enc(evs))])


def run_waiterf(wsx, events, dec_w, spin=60):
    """real asyncio futures: results via set_result, failures via set_exception, the loop spun between events; reports what
    the caller of `waiter` sees after the last event"""
    import asyncio
    from pyg_base import waiter
    loop = asyncio.new_event_loop()
    try:
        futs = {}

        def mk(n):
            if n not in futs:
                futs[n] = loop.create_future()
            return futs[n]

        async def main():
            struct = dec_w(wsx, mk)
            task = asyncio.ensure_future(waiter(struct))
            for _ in range(spin):
                await asyncio.sleep(0)
            for i, (good, v) in events:
                if i in futs:
                    if good:
                        futs[i].set_result(v)
                    else:
                        futs[i].set_exception(Boom(v))
                for _ in range(spin):
                    await asyncio.sleep(0)
            if task.done():
                exc = task.exception()
                out = ('raised', exc.n) if isinstance(exc, Boom) else ('ok', task.result())
            else:
                out = ('pending', None)
                task.cancel()
                try:
                    await task
                except BaseException:
                    pass
            for f in futs.values():          # retrieve, so that asyncio does not log "exception was never retrieved"
                if f.done() and not f.cancelled():
                    f.exception()
            return out
        return loop.run_until_complete(main())
    finally:
        loop.close()
